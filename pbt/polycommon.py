"""Shared pieces of the polynomial checks C21/C22: hang nomination (DESIGN 3.4) and program slicing."""
from pbt import engine
from pbt.engine import Violation, DriverTimeout


def _refs(x, acc):
    if isinstance(x, (list, tuple)):
        if len(x) == 2 and x[0] == "$" and isinstance(x[1], int):
            acc.add(x[1])
        else:
            for y in x:
                _refs(y, acc)


def slice_program(stm, i):
    """the statements statement i depends on (transitively) followed by statement i, registers renumbered;
    every statement but the last is quiet"""
    need = set()
    stack = [i]
    while stack:
        k = stack.pop()
        if k in need:
            continue
        need.add(k)
        a = set()
        _refs(stm[k], a)
        stack.extend(a)
    order = sorted(need)
    remap = {old: new for new, old in enumerate(order)}

    def rw(x):
        if isinstance(x, (list, tuple)):
            if len(x) == 2 and x[0] == "$" and isinstance(x[1], int):
                return ["$", remap[x[1]]]
            return [rw(y) for y in x]
        return x
    out = []
    for k in order:
        s = rw(stm[k])
        if k != i and s[0] != "let":
            s = ["let", s]
        out.append(s)
    return out


class HangJudge:
    """mixin for engine.Check: run a program; when it does not answer in time, nominate the single instruction that
    does not finish alone.  Every instruction of the polynomial programs has a trivially small cost model (degree <= 40,
    coefficients <= 300 bits, exponents <= 12, <= 12 terms in <= 5 variables: milliseconds), so an instruction that
    twice fails to answer within `solo_timeout` seconds when run alone with its operands is reported as
    "does not terminate" (a result is required by the property).  Anything else that is merely slow is skipped."""
    prog_timeout = 25
    solo_timeout = 25
    case_timeout = 240

    def run_nominating(self, stm):
        try:
            return self.run(stm, timeout=self.prog_timeout)
        except DriverTimeout:
            pass
        for i in range(len(stm)):
            prog = slice_program(stm, i)
            hung = 0
            for _ in range(2):
                try:
                    self.run(prog, timeout=self.solo_timeout)
                    break
                except DriverTimeout:
                    hung += 1
            if hung == 2:
                text = engine.prog(prog)
                raise Violation("does not terminate: the last instruction of `%s` gave no result within %d s (twice, run alone); "
                                "its cost is trivially small" % (text[:1500], self.solo_timeout), {"program": text[:6000]})
        self.skip("timeout")
        return None
