"""Brute-force Hilbert basis of {x in N^q : A x = 0} (oracle of C46).

Soundness argument (no algorithm shared with the library):
 * the cone C = {x >= 0, A x = 0} is pointed; its extreme rays are the solutions of minimal
   support, and for a minimal support S the kernel of A restricted to the columns S is a line
   spanned by a strictly positive vector.  `extreme_rays` enumerates every column subset S whose
   restricted kernel is such a line (a superset of the extreme rays; extra members only loosen the
   bound below).
 * Caratheodory: every x in C is a non-negative combination of d <= q - rank(A) linearly
   independent rays v_i.  If some coefficient is >= 1 then x - v_i is again a non-negative integer
   solution, so a *minimal* x != v_i has all coefficients < 1, hence x_j <= sum of the d largest
   j-th coordinates over all rays =: B_j.
 * Therefore all minimal solutions lie in the box [0,B], and a box solution that is minimal among
   box solutions is minimal overall (anything below it is in the box too).  The box is enumerated
   completely over d free coordinates; the remaining rank(A) coordinates are determined uniquely.
"""
import itertools
from fractions import Fraction
from math import gcd

import numpy as np


def _rref(rows, ncols):
    """reduced row echelon form over Q; returns (matrix, pivot columns)"""
    m = [[Fraction(x) for x in r] for r in rows]
    piv = []
    r = 0
    for c in range(ncols):
        pr = None
        for i in range(r, len(m)):
            if m[i][c] != 0:
                pr = i
                break
        if pr is None:
            continue
        m[r], m[pr] = m[pr], m[r]
        pv = m[r][c]
        m[r] = [x / pv for x in m[r]]
        for i in range(len(m)):
            if i != r and m[i][c] != 0:
                f = m[i][c]
                m[i] = [a - f * b for a, b in zip(m[i], m[r])]
        piv.append(c)
        r += 1
        if r == len(m):
            break
    return m[:r], piv


def rank(rows, ncols):
    return len(_rref(rows, ncols)[1])


def _kernel_line(rows, cols):
    """if the kernel of A[:, cols] is one-dimensional return its primitive integer generator (a tuple), else None"""
    sub = [[r[c] for c in cols] for r in rows]
    m, piv = _rref(sub, len(cols))
    free = [c for c in range(len(cols)) if c not in piv]
    if len(free) != 1:
        return None
    f = free[0]
    v = [Fraction(0)] * len(cols)
    v[f] = Fraction(1)
    for row, p in zip(m, piv):
        v[p] = -row[f]
    den = 1
    for x in v:
        den = den * x.denominator // gcd(den, x.denominator)
    iv = [int(x * den) for x in v]
    g = 0
    for x in iv:
        g = gcd(g, abs(x))
    return tuple(x // g for x in iv)


def extreme_rays(A):
    q = len(A[0])
    rays = set()
    for k in range(1, q + 1):
        for cols in itertools.combinations(range(q), k):
            v = _kernel_line(A, cols)
            if v is None:
                continue
            if all(x > 0 for x in v) or all(x < 0 for x in v):
                full = [0] * q
                for c, x in zip(cols, v):
                    full[c] = abs(x)
                rays.add(tuple(full))
    return sorted(rays)


def bounds(A):
    q = len(A[0])
    rays = extreme_rays(A)
    d = q - rank(A, q)
    B = []
    for j in range(q):
        col = sorted((r[j] for r in rays), reverse=True)
        B.append(sum(col[:d]))
    return B, rays, d


class TooLarge(Exception):
    pass


def hilbert_basis(A, cap=4000000):
    """sorted list of the minimal non-zero non-negative integer solutions of A x = 0"""
    q = len(A[0])
    B, rays, d = bounds(A)
    if not rays:
        return []
    rows, piv = _rref(A, q)          # independent rows only
    r = len(piv)
    # pick the d free columns with the smallest box whose complement is an invertible r x r block
    best = None
    for free in itertools.combinations(range(q), d):
        dep = [c for c in range(q) if c not in free]
        if r and rank([[row[c] for c in dep] for row in rows], r) != r:
            continue
        size = 1
        for c in free:
            size *= B[c] + 1
        if best is None or size < best[0]:
            best = (size, free, dep)
    size, free, dep = best
    if size > cap:
        raise TooLarge(size)
    # x_dep = M x_free with M = -A_dep^{-1} A_free (rational); use a common denominator
    if r:
        # solve via rref of [A_dep | A_free]
        aug = [[row[c] for c in dep] + [row[c] for c in free] for row in rows]
        red, p2 = _rref(aug, r)
        assert p2 == list(range(r))
        M = [[-red[i][r + j] for j in range(d)] for i in range(r)]
        den = 1
        for row in M:
            for x in row:
                den = den * x.denominator // gcd(den, x.denominator)
        Mi = np.array([[int(x * den) for x in row] for row in M], dtype=np.int64).reshape(r, d)
    grids = np.meshgrid(*[np.arange(B[c] + 1, dtype=np.int64) for c in free], indexing="ij") if d else []
    if d:
        F = np.stack([g.ravel() for g in grids], axis=1)
    else:
        F = np.zeros((1, 0), dtype=np.int64)
    X = np.zeros((F.shape[0], q), dtype=np.int64)
    for j, c in enumerate(free):
        X[:, c] = F[:, j]
    ok = np.ones(F.shape[0], dtype=bool)
    if r:
        D = F @ Mi.T                      # den * x_dep
        ok &= (D % den == 0).all(axis=1)
        Dq = D // den
        ok &= (Dq >= 0).all(axis=1)
        for i, c in enumerate(dep):
            ok &= Dq[:, i] <= B[c]
            X[:, c] = Dq[:, i]
    ok &= X.any(axis=1)
    S = X[ok]
    # exact re-check of A x = 0 (guards the rational elimination above)
    An = np.array(A, dtype=np.int64)
    if S.shape[0]:
        assert not (S @ An.T).any(), "elimination produced a non-solution"
    order = np.argsort(S.sum(axis=1), kind="stable")
    S = S[order]
    basis = []
    while S.shape[0]:
        b = S[0]
        basis.append(tuple(int(x) for x in b))
        S = S[~(S >= b).all(axis=1)]
    return sorted(basis)


def hilbert_basis_naive(A, bound):
    """all minimal solutions with coordinates <= bound by plain enumeration (self-test only)"""
    q = len(A[0])
    sols = []
    for x in itertools.product(range(bound + 1), repeat=q):
        if any(x) and all(sum(a * b for a, b in zip(row, x)) == 0 for row in A):
            sols.append(x)
    sols.sort(key=sum)
    basis = []
    for s in sols:
        if not any(all(b[i] <= s[i] for i in range(q)) for b in basis):
            basis.append(s)
    return sorted(basis)


def selftest():
    import random
    rnd = random.Random(5)
    bad = 0
    n = 0
    for _ in range(400):
        p = rnd.choice([1, 1, 2, 2, 3])
        q = rnd.choice([2, 3, 3, 4])
        A = [[rnd.randint(-3, 3) for _ in range(q)] for _ in range(p)]
        B, rays, d = bounds(A)
        if max(B + [0]) > 9:
            continue
        n += 1
        hb = hilbert_basis(A)
        nv = hilbert_basis_naive(A, max(B + [1]) + 2)
        if hb != nv:
            bad += 1
            print("MISMATCH", A, hb, nv)
    print("hilbert selftest: %d systems compared, %d mismatches" % (n, bad))
    return bad


if __name__ == "__main__":
    import sys
    sys.exit(1 if selftest() else 0)
