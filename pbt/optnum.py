"""Helpers for the `opt` build variant checks: C14 (LLVM visitors, three float types) and C45 (MPFR/MPC).

* exact binary-float utilities over Fractions: parsing of C99 hex floats of any mantissa width (long double),
  ilog2, ulp at precision p, round-to-nearest-even at precision p (no exponent limits: MPFR's default exponent
  range is +-2^62), distance in ulps;
* typed wrappers around evalnum.reference(): the first-order error mass E of an evaluator that rounds every node
  to p bits, where "which leaves are exact" depends on p (evalnum.exact_leaf is written for doubles; it is swapped
  for the duration of a call -- workers are single threaded);
* exact values of RealMPFR / ComplexMPC dumps.
"""
from fractions import Fraction

import mpmath
from mpmath import mp, mpf, mpc

from . import evalnum as en
from . import oracle_num as on
from .oracle_num import Unjudgeable

PREC = {"double": 53, "float": 24, "long double": 64}
SPECIAL = ("nan", "-nan", "inf", "-inf")


# ------------------------------------------------------------------ exact binary floats
def parse_hex(s):
    """C99 hex float text (any number of mantissa digits, as printed by %a / %La) -> Fraction, or the
    strings 'nan' / 'inf' / '-inf'.  The sign of a zero is dropped (use the text for bit comparisons)."""
    if s in ("nan", "-nan"):
        return "nan"
    if s in ("inf", "-inf"):
        return s
    t = s
    neg = t.startswith("-")
    if t[0] in "+-":
        t = t[1:]
    if not t.lower().startswith("0x"):
        raise ValueError("not a hex float: %r" % (s,))
    t = t[2:]
    if "p" in t.lower():
        mant, ex = t.lower().split("p")
        ex = int(ex)
    else:
        mant, ex = t, 0
    if "." in mant:
        ip, fp = mant.split(".")
    else:
        ip, fp = mant, ""
    m = int((ip + fp) or "0", 16)
    ex -= 4 * len(fp)
    q = Fraction(m) * (Fraction(2) ** ex)
    return -q if neg else q


def ilog2(q):
    """floor(log2(q)) for a positive Fraction"""
    e = q.numerator.bit_length() - q.denominator.bit_length()
    # 2^(e-1) < q < 2^(e+1)
    if q < Fraction(2) ** e:
        e -= 1
    return e


def ulp(q, p):
    """unit in the last place of a non-zero Fraction q at precision p (no exponent limits)"""
    return Fraction(2) ** (ilog2(abs(q)) - p + 1)


def round_nearest_even(q, p):
    """q (Fraction) rounded to p significant bits, ties to even"""
    if q == 0:
        return Fraction(0)
    s = -1 if q < 0 else 1
    a = abs(q)
    u = ulp(a, p)
    m = a / u                       # in [2^(p-1), 2^p)
    n = m.numerator // m.denominator
    r = m - n
    if r > Fraction(1, 2) or (r == Fraction(1, 2) and n % 2 == 1):
        n += 1
    return s * n * u


def representable(q, p):
    """is the Fraction q a p-bit binary float (unbounded exponent)"""
    if q == 0:
        return True
    d = q.denominator
    if d & (d - 1):
        return False
    n = abs(q.numerator)
    n >>= (n & -n).bit_length() - 1
    return n.bit_length() <= p


def ulps_apart(a, b, p):
    """|a-b| in units of ulp(max(|a|,|b|)) at precision p (Fractions)"""
    m = max(abs(a), abs(b))
    if m == 0:
        return Fraction(0)
    return abs(a - b) / ulp(m, p)


def to_mpf(q):
    """Fraction -> mpf at the current working precision"""
    return mpf(q.numerator) / mpf(q.denominator)


# ------------------------------------------------------------------ MPFR / MPC dumps
def mpfr_frac(d):
    """payload [prec, kind, mantissa, exp] of a RealMPFR dump -> (prec, Fraction | 'nan' | 'inf' | '-inf')"""
    prec, kind = int(d[0]), d[1]
    if kind == "num":
        return prec, Fraction(int(d[2])) * (Fraction(2) ** int(d[3]))
    if kind in ("0", "-0"):
        return prec, Fraction(0)
    return prec, kind


def number_exact(d):
    """dump of a Number -> (kind, prec|None, re, im) with exact Fraction parts (im == 0 for reals);
    raises Unjudgeable for non-finite values"""
    t = d[0]
    if t == "Integer":
        return "exact", None, Fraction(int(d[1])), Fraction(0)
    if t == "Rational":
        return "exact", None, Fraction(int(d[1]), int(d[2])), Fraction(0)
    if t == "Complex":
        a, b = number_exact(d[1]), number_exact(d[2])
        return "exact", None, a[2], b[2]
    if t == "RealDouble":
        v = parse_hex(d[1])
        if isinstance(v, str):
            raise Unjudgeable("non_finite_number")
        return "double", 53, v, Fraction(0)
    if t == "ComplexDouble":
        a, b = parse_hex(d[1]), parse_hex(d[2])
        if isinstance(a, str) or isinstance(b, str):
            raise Unjudgeable("non_finite_number")
        return "double", 53, a, b
    if t == "RealMPFR":
        p, v = mpfr_frac(d[1])
        if isinstance(v, str):
            raise Unjudgeable("non_finite_number")
        return "mpfr", p, v, Fraction(0)
    if t == "ComplexMPC":
        p, a = mpfr_frac(d[1])
        p2, b = mpfr_frac(d[2])
        if isinstance(a, str) or isinstance(b, str):
            raise Unjudgeable("non_finite_number")
        return "mpc", p, a, b
    raise Unjudgeable("not_a_number:" + str(t))


# ------------------------------------------------------------------ error mass for a p-bit evaluator
def exact_leaf_p(p, int_exact_bits=None, ld=False):
    """predicate replacing evalnum.exact_leaf: is the leaf obtained without rounding by an evaluator working with
    p-bit floats.  int_exact_bits: integers are converted through a double first (LLVM double/float visitors);
    ld: the long double LLVM visitor (integers from their decimal text, rationals/constants through 128-bit MPFR)."""
    def rep(q):
        if int_exact_bits is not None and not representable(q, int_exact_bits):
            return False
        return representable(q, p)

    def f(d):
        t = d[0]
        try:
            if t in ("Integer", "integer"):
                return rep(Fraction(int(d[1])))
            if t in ("Rational", "rational"):
                return rep(Fraction(int(d[1]), int(d[2])))
            if t in ("RealDouble",):
                v = parse_hex(d[1])
                return (not isinstance(v, str)) and representable(v, p)
            if t == "real_double":
                return representable(Fraction(d[1]), p)
            if t in ("Symbol", "symbol"):
                return True
            if t == "RealMPFR":
                _, v = mpfr_frac(d[1])
                return (not isinstance(v, str)) and rep(v)
            if t in ("Complex", "complex"):
                return f(d[1]) and f(d[2])
            if t == "ComplexDouble":
                a, b = parse_hex(d[1]), parse_hex(d[2])
                return not isinstance(a, str) and not isinstance(b, str) and representable(a, p) and representable(b, p)
            if t == "ComplexMPC":
                _, a = mpfr_frac(d[1])
                _, b = mpfr_frac(d[2])
                return not isinstance(a, str) and not isinstance(b, str) and representable(a, p) and representable(b, p)
        except (OverflowError, ValueError, ZeroDivisionError):
            return False
        return False
    return f


def reference_p(node, env, leaf_pred, cmode=False, margin=1e-9, hi_dps=70, mag=280, kappa_max=1e4):
    """evalnum.reference (error mass E at 50 digits, perturbation step 2^-30) with a precision-specific
    exact-leaf predicate, plus the value at hi_dps digits (cross-checked against the 50-digit value).
    Returns an evalnum.Ref whose .value is the hi_dps value; tolerance = ulps * 2^-p * ref.E."""
    old = en.exact_leaf
    en.exact_leaf = leaf_pred
    try:
        r = en.reference(node, env, cmode, margin, 50, mag, kappa_max)
    finally:
        en.exact_leaf = old
    hi = en.plain_value(node, env, cmode, margin, hi_dps, mag)
    with mp.workdps(hi_dps):
        if abs(r.value - hi) > mpf(10) ** -30 * max(1, abs(hi)):
            raise Unjudgeable("ill_conditioned:precisions_disagree")
    r.value = hi
    return r


def tol_abs(ref, p, ulps=64):
    return ulps * mpf(2) ** -p * ref.E


# ------------------------------------------------------------------ development aid
def activate_extra_findings(chk):
    """VERIF_EXTRA_FINDINGS=<json file with finding entries> activates the 'known' entries of this property whose
    reproducer still fails, exactly like engine.main does for known_findings.json (used before the entries are
    merged into known_findings.json; does nothing when the variable is unset)"""
    import json
    import os
    from . import engine
    path = os.environ.get("VERIF_EXTRA_FINDINGS")
    if not path or getattr(chk, "_extra_done", False):
        return
    chk._extra_done = True
    with open(path) as f:
        entries = json.load(f)
    saved = list(chk.active_matchers)
    add = []
    scan = os.environ.pop("VERIF_SCAN", None)      # scan mode collects violations instead of raising them
    for kf in entries:
        if kf.get("property") != chk.pid or kf.get("status") != "known":
            continue
        if any(n == kf["matcher"] for _, n in saved):
            continue
        with open(os.path.join(engine.VERIF, kf["reproducer"])) as f:
            rp = json.load(f)
        chk.active_matchers = []
        try:
            chk.guarded(rp["case"])
        except engine.Violation:
            add.append((kf["id"], kf["matcher"]))
    if scan is not None:
        os.environ["VERIF_SCAN"] = scan
    chk.active_matchers = saved + add
    chk.evals = 0
    chk.classes, chk.skipped, chk.samples = {}, {}, []
    chk.nontrivial = set()
