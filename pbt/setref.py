"""Exact reference model of SymEngine sets (C27; used by C28 for Contains atoms).

Points are exact: ("q", Fraction) real rational, ("c", Fraction, Fraction) non-real Gaussian
rational, ("d", float) finite double (a distinct *kind* of number: whether the double 0.5 "is"
the rational 1/2 is not decided here -> three-valued answers), ("oo", +-1), ("sym", name),
("other", dump).

A *term* is the common internal form of a set recipe (what the check asked the library to build)
and of a raw dump (what the library returned):
  ("interval", lo, hi, lopen, ropen) ("finite", [points]) ("reals",) ("rationals",) ("integers",)
  ("naturals",) ("naturals0",) ("complexes",) ("empty",) ("universal",)
  ("union", [t..]) ("inter", [t..]) ("compl", universe, container)
  ("condset", symname, condition) ("imageset", symname, expr, base) ("unknown", what)
member(term, point) is three-valued: True / False / None (not decided by the model).
"""
from fractions import Fraction

NUMSETS = ("reals", "rationals", "integers", "naturals", "naturals0", "complexes")
DUMP_NUMSETS = {"Reals": "reals", "Rationals": "rationals", "Integers": "integers", "Naturals": "naturals",
                "Naturals0": "naturals0", "Complexes": "complexes", "EmptySet": "empty",
                "UniversalSet": "universal"}


# ------------------------------------------------------------------ points
def q(x, y=1):
    return ("q", Fraction(x, y))


def point_from_recipe(r):
    h = r[0]
    if h == "integer":
        return ("q", Fraction(r[1]))
    if h == "rational":
        return ("q", Fraction(r[1], r[2]))
    if h == "real_double":
        return ("d", float(r[1]))
    if h == "complex":
        re, im = point_from_recipe(r[1]), point_from_recipe(r[2])
        if re[0] != "q" or im[0] != "q":
            return ("other", r)
        if im[1] == 0:
            return re
        return ("c", re[1], im[1])
    if h == "oo":
        return ("oo", 1)
    if h == "noo":
        return ("oo", -1)
    if h == "symbol":
        return ("sym", r[1])
    return ("other", r)


def point_from_dump(d):
    h = d[0]
    if h == "Integer":
        return ("q", Fraction(int(d[1])))
    if h == "Rational":
        return ("q", Fraction(int(d[1]), int(d[2])))
    if h == "RealDouble":
        s = d[1]
        if s in ("nan", "-nan", "inf", "-inf"):
            return ("other", d)
        return ("d", float.fromhex(s))
    if h == "Complex":
        re, im = point_from_dump(d[1]), point_from_dump(d[2])
        if re[0] != "q" or im[0] != "q":
            return ("other", d)
        if im[1] == 0:
            return re
        return ("c", re[1], im[1])
    if h == "Infty":
        s = point_from_dump(d[1])
        if s[0] == "q" and s[1] in (1, -1):
            return ("oo", int(s[1]))
        return ("other", d)
    if h == "Symbol":
        return ("sym", d[1])
    return ("other", d)


def point_of(x):
    """recipe or dump -> point"""
    return point_from_dump(x) if x[0][:1].isupper() else point_from_recipe(x)


def _num_recipe(f):
    f = Fraction(f)
    if f.denominator == 1:
        return ["integer", f.numerator]
    return ["rational", f.numerator, f.denominator]


def point_recipe(p):
    k = p[0]
    if k == "q":
        return _num_recipe(p[1])
    if k == "c":
        return ["complex", _num_recipe(p[1]), _num_recipe(p[2])]
    if k == "d":
        return ["real_double", p[1]]
    if k == "oo":
        return ["oo"] if p[1] > 0 else ["noo"]
    if k == "sym":
        return ["symbol", p[1]]
    raise ValueError(p)


def point_str(p):
    k = p[0]
    if k == "q":
        return str(p[1])
    if k == "c":
        return "%s%+s*I" % (p[1], p[2])
    if k == "d":
        return repr(p[1])
    if k == "oo":
        return "oo" if p[1] > 0 else "-oo"
    return str(p)


def rval(p):
    """exact real value of a finite real point"""
    if p[0] == "q":
        return p[1]
    if p[0] == "d":
        return Fraction(p[1])
    raise ValueError(p)


def eq3(p, e):
    """three-valued 'is the same element'"""
    kp, ke = p[0], e[0]
    if kp in ("sym", "other") or ke in ("sym", "other"):
        return True if p == e and kp == "sym" else None
    if kp == "oo" or ke == "oo":
        return p == e
    if kp == "c" or ke == "c":
        return p == e
    if kp == ke:
        return p[1] == e[1]
    # exact rational versus double
    return None if rval(p) == rval(e) else False


# ------------------------------------------------------------------ Kleene logic
def k_not(a):
    return None if a is None else (not a)


def k_and(xs):
    r = True
    for x in xs:
        if x is False:
            return False
        if x is None:
            r = None
    return r


def k_or(xs):
    r = False
    for x in xs:
        if x is True:
            return True
        if x is None:
            r = None
    return r


# ------------------------------------------------------------------ terms
def _interval_term(a, b, lo, ro):
    """the set the call interval(a, b, lo, ro) denotes"""
    if a[0] not in ("q", "d", "oo") or b[0] not in ("q", "d", "oo"):
        return ("unknown", "interval endpoints")
    if a[0] == "oo" or b[0] == "oo":
        if a == ("oo", 1) or b == ("oo", -1):
            if a == b:
                return ("unknown", "interval(oo, oo)")
            return ("empty",)
        return ("interval", a, b, bool(lo), bool(ro))
    va, vb = rval(a), rval(b)
    if va > vb:
        return ("empty",)
    if va == vb:
        if a[0] != b[0]:
            return ("unknown", "interval with equal endpoints of different kinds")
        if not lo and not ro:
            return ("finite", [a])
        return ("empty",)
    return ("interval", a, b, bool(lo), bool(ro))


def _items(x):
    """operands of a recipe ["list", ...] """
    if not (isinstance(x, (list, tuple)) and x and x[0] == "list"):
        raise ValueError("want a list recipe: %r" % (x,))
    return list(x[1:])


def term_from_recipe(r):
    h = r[0]
    if h == "interval":
        lo = bool(r[3]) if len(r) > 3 else False
        ro = bool(r[4]) if len(r) > 4 else False
        return _interval_term(point_from_recipe(r[1]), point_from_recipe(r[2]), lo, ro)
    if h == "finiteset":
        pts = []
        for e in _items(r[1]):
            p = point_from_recipe(e)
            if not any(eq3(p, o) is True for o in pts):
                pts.append(p)
        return ("finite", pts) if pts else ("empty",)
    if h in NUMSETS:
        return (h,)
    if h == "emptyset":
        return ("empty",)
    if h == "universalset":
        return ("universal",)
    if h == "set_union":
        return ("union", [term_from_recipe(x) for x in _items(r[1])])
    if h == "set_intersection":
        return ("inter", [term_from_recipe(x) for x in _items(r[1])])
    if h == "set_complement":          # (set_complement universe container)
        return ("compl", term_from_recipe(r[1]), term_from_recipe(r[2]))
    if h == "m_union":
        return ("union", [term_from_recipe(r[1]), term_from_recipe(r[2])])
    if h == "m_intersection":
        return ("inter", [term_from_recipe(r[1]), term_from_recipe(r[2])])
    if h == "m_complement":            # container.set_complement(universe)
        return ("compl", term_from_recipe(r[2]), term_from_recipe(r[1]))
    if h == "conditionset":
        s = point_from_recipe(r[1])
        if s[0] != "sym":
            return ("unknown", "conditionset symbol")
        return ("condset", s[1], r[2])
    if h == "imageset":
        s = point_from_recipe(r[1])
        if s[0] != "sym":
            return ("unknown", "imageset symbol")
        return ("imageset", s[1], r[2], term_from_recipe(r[3]))
    return ("unknown", "recipe head " + str(h))


def term_from_dump(d):
    h = d[0]
    if h == "Interval":
        a, b = point_from_dump(d[1]), point_from_dump(d[2])
        if a[0] not in ("q", "d", "oo") or b[0] not in ("q", "d", "oo"):
            return ("unknown", "Interval endpoints")
        # an Interval *object* denotes {x : a < x < b, endpoints by the flags}
        return ("interval", a, b, bool(d[3]), bool(d[4]))
    if h == "FiniteSet":
        return ("finite", [point_from_dump(e) for e in d[1]])
    if h in DUMP_NUMSETS:
        return (DUMP_NUMSETS[h],)
    if h == "Union":
        return ("union", [term_from_dump(x) for x in d[1]])
    if h == "Intersection":
        return ("inter", [term_from_dump(x) for x in d[1]])
    if h == "Complement":
        return ("compl", term_from_dump(d[1]), term_from_dump(d[2]))
    if h == "ConditionSet":
        s = point_from_dump(d[1])
        if s[0] != "sym":
            return ("unknown", "ConditionSet symbol")
        return ("condset", s[1], d[2])
    if h == "ImageSet":
        s = point_from_dump(d[1])
        if s[0] != "sym":
            return ("unknown", "ImageSet symbol")
        return ("imageset", s[1], d[2], term_from_dump(d[3]))
    return ("unknown", "dump head " + str(h))


def term_of(x):
    return term_from_dump(x) if x[0][:1].isupper() else term_from_recipe(x)


def is_set_head(h):
    return h in ("interval", "finiteset", "emptyset", "universalset", "set_union", "set_intersection",
                 "set_complement", "m_union", "m_intersection", "m_complement", "conditionset",
                 "imageset") or h in NUMSETS


# ------------------------------------------------------------------ membership
def _member_interval(t, p):
    _, a, b, lo, ro = t
    if p[0] == "c":
        return False
    if p[0] not in ("q", "d"):
        return None
    v = rval(p)
    res = True

    def near(e, ve):
        # an exact number against a double (or the reverse) closer than 1e-9 relative: the library compares such
        # pairs in double arithmetic (a number-comparison matter, property C29), the model does not decide
        return e[0] != p[0] and abs(v - ve) <= Fraction(1, 10 ** 9) * max(1, abs(ve))
    if a[0] != "oo":
        va = rval(a)
        if near(a, va):
            res = None
        elif v < va:
            return False
        elif v == va and lo:
            return False
    elif a[1] > 0:
        return False
    if b[0] != "oo":
        vb = rval(b)
        if near(b, vb):
            res = None
        elif v > vb:
            return False
        elif v == vb and ro:
            return False
    elif b[1] < 0:
        return False
    return res


def _member_numset(name, p):
    k = p[0]
    if k not in ("q", "c", "d"):
        return None
    if name == "complexes":
        return True
    if k == "c":
        return False
    if name == "reals":
        return True
    if k == "d":
        # a double that is not integer-valued is in none of Z, N, N0; anything else about doubles
        # (is 0.5 rational? is 2.0 an integer?) is a convention the model does not decide
        if name == "rationals":
            return None
        v = Fraction(p[1])
        if v.denominator != 1:
            return False
        if name == "naturals" and v <= 0:
            return False
        if name == "naturals0" and v < 0:
            return False
        return None
    v = p[1]
    if name == "rationals":
        return True
    if v.denominator != 1:
        return False
    if name == "integers":
        return True
    if name == "naturals":
        return v >= 1
    if name == "naturals0":
        return v >= 0
    raise ValueError(name)


def member(t, p):
    h = t[0]
    if h == "interval":
        return _member_interval(t, p)
    if h == "finite":
        return k_or(eq3(p, e) for e in t[1])
    if h in NUMSETS:
        return _member_numset(h, p)
    if h == "empty":
        return False
    if h == "universal":
        return True
    if h == "union":
        return k_or(member(x, p) for x in t[1])
    if h == "inter":
        return k_and(member(x, p) for x in t[1])
    if h == "compl":
        return k_and([member(t[1], p), k_not(member(t[2], p))])
    if h == "condset":
        if p[0] != "q":
            return None
        from pbt import boolref
        try:
            return boolref.truth(t[2], {t[1]: p[1]})
        except boolref.Unjudgeable:
            return None
    if h == "imageset":
        from pbt import boolref
        try:
            f0 = boolref.value(t[2], {t[1]: Fraction(0)})
            f1 = boolref.value(t[2], {t[1]: Fraction(1)})
            f2 = boolref.value(t[2], {t[1]: Fraction(2)})
        except boolref.Unjudgeable:
            return None
        a = f1 - f0
        if a == 0 or f2 != f0 + 2 * a:
            return None
        if p[0] == "q":
            return member(t[3], ("q", (p[1] - f0) / a))
        if p[0] == "c":
            return member(t[3], ("c", (p[1] - f0) / a, p[2] / a))
        return None
    return None


# ------------------------------------------------------------------ probes
def walk(t):
    yield t
    h = t[0]
    if h in ("union", "inter"):
        for x in t[1]:
            for y in walk(x):
                yield y
    elif h == "compl":
        for x in (t[1], t[2]):
            for y in walk(x):
                yield y
    elif h == "imageset":
        for y in walk(t[3]):
            yield y


def _cond_numbers(c, acc):
    """numeric literals of a condition recipe/dump (critical points of a ConditionSet)"""
    if isinstance(c, (list, tuple)) and c:
        if isinstance(c[0], str):
            try:
                p = point_of(c)
            except Exception:
                p = ("other", c)
            if p[0] == "q":
                acc.add(p[1])
                return
        for x in c:
            _cond_numbers(x, acc)


def criticals(t):
    """-> (set of exact real critical values, set of double floats, set of complex points)"""
    reals, dbls, cplx = set(), set(), set()
    for n in walk(t):
        pts = []
        if n[0] == "interval":
            pts = [n[1], n[2]]
        elif n[0] == "finite":
            pts = n[1]
        elif n[0] == "condset":
            _cond_numbers(n[2], reals)
        elif n[0] == "imageset":
            _cond_numbers(n[2], reals)
            # images of the base set's critical values
            from pbt import boolref
            base_r = criticals(n[3])[0] | {Fraction(0), Fraction(1), Fraction(-1), Fraction(2)}
            for c in base_r:
                try:
                    reals.add(boolref.value(n[2], {n[1]: c}))
                except boolref.Unjudgeable:
                    pass
        for p in pts:
            if p[0] == "q":
                reals.add(p[1])
            elif p[0] == "d":
                dbls.add(p[1])
            elif p[0] == "c":
                cplx.add(p)
    return reals, dbls, cplx


FIXED_REAL = [Fraction(0), Fraction(1), Fraction(-1), Fraction(2), Fraction(1, 2), Fraction(-7, 3), Fraction(1000),
              Fraction(-1000)]
FIXED_COMPLEX = [("c", Fraction(0), Fraction(1)), ("c", Fraction(3), Fraction(-2))]
FIXED_DOUBLE = [0.3, -1.7]


def probes(terms, doubles=True, limit=48):
    """probe points for a family of terms: every endpoint / element, midpoints between consecutive
    critical values, one step beyond the extremes, fixed integers / non-integer rationals / complex
    numbers, doubles that coincide with no exact critical value"""
    reals, dbls, cplx = set(), set(), set()
    for t in terms:
        r, d, c = criticals(t)
        reals |= r
        dbls |= d
        cplx |= c
    cs = sorted(reals | {Fraction(d) for d in dbls})
    out = [("q", v) for v in sorted(reals)]
    for a, b in zip(cs, cs[1:]):
        out.append(("q", (a + b) / 2))
    if cs:
        out += [("q", cs[0] - 1), ("q", cs[-1] + 1), ("q", cs[0] - Fraction(1, 3)), ("q", cs[-1] + Fraction(1, 3))]
    # integers next to the critical values (number-set operands)
    near = set()
    for v in cs[:6]:
        fl = v.numerator // v.denominator
        near.update([Fraction(fl), Fraction(fl + 1)])
    out += [("q", v) for v in sorted(near)]
    out += [("q", v) for v in FIXED_REAL]
    out += sorted(cplx)
    for c in sorted(cplx):
        out.append(("c", c[1], -c[2]))
    out += FIXED_COMPLEX
    if doubles:
        out += [("d", d) for d in sorted(dbls)]
        out += [("d", d) for d in FIXED_DOUBLE if Fraction(d) not in reals]
    seen, res = set(), []
    for p in out:
        if p not in seen:
            seen.add(p)
            res.append(p)
    return res[:limit]


# ------------------------------------------------------------------ topology of subsets of R
def real_algebra(t):
    """True when t is built from intervals, finite sets of exact reals and the empty set only
    (so that it is a finite union of points and intervals of R with exact rational endpoints)"""
    for n in walk(t):
        h = n[0]
        if h == "interval":
            if any(p[0] not in ("q", "oo") for p in (n[1], n[2])):
                return False
        elif h == "finite":
            if any(p[0] != "q" for p in n[1]):
                return False
        elif h not in ("empty", "union", "inter", "compl"):
            return False
    return True


class Pieces:
    """decomposition of R by the critical values c_0 < ... < c_{n-1} of a real-algebra term:
    open pieces (-oo,c_0), (c_0,c_1), ..., (c_{n-1},oo) and the points; the term is constant on each."""

    def __init__(self, t):
        self.cs = sorted(criticals(t)[0])
        n = len(self.cs)
        if n == 0:
            self.reps = [Fraction(0)]
        else:
            self.reps = [self.cs[0] - 1] + [(a + b) / 2 for a, b in zip(self.cs, self.cs[1:])] + [self.cs[-1] + 1]
        self.in_open = [member(t, ("q", r)) for r in self.reps]
        self.in_pt = [member(t, ("q", c)) for c in self.cs]
        if any(x is None for x in self.in_open + self.in_pt):
            raise ValueError("undecided membership")

    def locate(self, v):
        """-> ("pt", j) or ("open", i)"""
        import bisect
        j = bisect.bisect_left(self.cs, v)
        if j < len(self.cs) and self.cs[j] == v:
            return ("pt", j)
        return ("open", j)

    def closure_pt(self, j):
        return self.in_pt[j] or self.in_open[j] or self.in_open[j + 1]

    def interior_pt(self, j):
        return self.in_pt[j] and self.in_open[j] and self.in_open[j + 1]

    def expected(self, what, v):
        """membership of the exact real v in what(S), what in boundary / interior / closure / self"""
        kind, i = self.locate(v)
        if kind == "open":
            return False if what == "boundary" else self.in_open[i]
        if what == "self":
            return self.in_pt[i]
        if what == "closure":
            return self.closure_pt(i)
        if what == "interior":
            return self.interior_pt(i)
        if what == "boundary":
            return self.closure_pt(i) and not self.interior_pt(i)
        raise ValueError(what)

    def is_empty(self):
        return not any(self.in_open) and not any(self.in_pt)

    def sup(self):
        """Fraction, ("oo", +-1) or None for the empty set"""
        n = len(self.cs)
        if self.in_open[n]:
            return ("oo", 1)
        for j in range(n - 1, -1, -1):
            if self.in_pt[j] or self.in_open[j]:
                if j == 0 and self.in_open[0] and not self.in_pt[0]:
                    return self.cs[0]
                return self.cs[j]
        return None

    def inf(self):
        n = len(self.cs)
        if self.in_open[0]:
            return ("oo", -1)
        for j in range(n):
            if self.in_pt[j] or self.in_open[j + 1]:
                return self.cs[j]
        return None

    def probe_values(self):
        return list(self.cs) + list(self.reps)
