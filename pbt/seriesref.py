"""Reference model for C31: truncated power series at 0 by the textbook recurrences.

Independent of the library: nothing here looks at SymEngine's Newton iterations.  A series is a
python list [a0, a1, ...] of *valid* coefficients (its length is the number of known terms); every
operation returns as many terms as its inputs justify, so dividing by a series of valuation k
simply returns k fewer terms (the caller starts with some slack).

Coefficients live in one of two fields:
  * fractions.Fraction  -- exact; scalar functions of the constant term are only available where the
                           value is rational (sin 0, exp 0, log 1, 4**(1/2) ...); otherwise NotExact
  * mpmath mpf/mpc      -- at the caller's working precision (run twice and compare)

series_of(recipe, n, exact, env) evaluates a recipe (op-name heads as sent to the driver)."""
from fractions import Fraction
import mpmath
from mpmath import mp, mpf, mpc


class NotExact(Exception):
    """the exact (Fraction) model cannot represent this recipe"""


class NotAnalytic(Exception):
    """the recipe is not analytic at 0 (pole, branch point) or outside the model's domain"""


class Unsupported(Exception):
    pass


def _is_exact(c):
    return isinstance(c, (Fraction, int))


def _zero(c):
    return c == 0


# ------------------------------------------------------------------ scalar functions of the constant term
def _iroot(n, k):
    """exact integer k-th root of n >= 0 or None"""
    if n < 0:
        return None
    if n < 2:
        return n
    r = int(round(n ** (1.0 / k)))
    for c in (r - 1, r, r + 1):
        if c >= 0 and c ** k == n:
            return c
    lo, hi = 0, 1 << (n.bit_length() // k + 1)
    while lo <= hi:
        mid = (lo + hi) // 2
        p = mid ** k
        if p == n:
            return mid
        if p < n:
            lo = mid + 1
        else:
            hi = mid - 1
    return None


def scalar_pow(c, r):
    """c ** r, r a Fraction; principal value"""
    if _is_exact(c):
        c = Fraction(c)
        if r.denominator == 1:
            if c == 0 and r < 0:
                raise NotAnalytic("0**negative")
            return c ** r.numerator
        if c <= 0:
            raise NotAnalytic("rational power of a non-positive constant term")
        a = _iroot(c.numerator, r.denominator)
        b = _iroot(c.denominator, r.denominator)
        if a is None or b is None:
            raise NotExact("irrational root")
        return Fraction(a, b) ** r.numerator
    if c == 0:
        raise NotAnalytic("0**r")
    if r.denominator != 1 and (isinstance(c, mpc) and c.imag != 0 or (c.real if isinstance(c, mpc) else c) <= 0):
        raise NotAnalytic("rational power of a non-positive constant term")
    return mp.exp((mpf(r.numerator) / mpf(r.denominator)) * mp.log(c))


_EXACT_AT = {  # name -> {argument: value}
    "exp": {0: 1}, "log": {1: 0}, "sin": {0: 0}, "cos": {0: 1}, "tan": {0: 0}, "atan": {0: 0},
    "asin": {0: 0}, "sinh": {0: 0}, "cosh": {0: 1}, "tanh": {0: 0}, "asinh": {0: 0}, "atanh": {0: 0},
    "lambertw": {0: 0}, "sec": {0: 1}, "sech": {0: 1}, "erf": {0: 0}, "gamma": {1: 1, 2: 1, 3: 2, 4: 6},
}
_MPF = {
    "exp": mp.exp, "log": mp.log, "sin": mp.sin, "cos": mp.cos, "tan": mp.tan, "atan": mp.atan,
    "asin": mp.asin, "acos": mp.acos, "sinh": mp.sinh, "cosh": mp.cosh, "tanh": mp.tanh, "asinh": mp.asinh,
    "atanh": mp.atanh, "lambertw": mp.lambertw, "sec": mp.sec, "csc": mp.csc, "cot": mp.cot,
    "sech": mp.sech, "csch": mp.csch, "coth": mp.coth, "erf": mp.erf, "gamma": mp.gamma,
}


def _realpart(c):
    return c.real if isinstance(c, mpc) else c


def _check_domain(name, c):
    """constant terms for which name is analytic (principal branch, real constant terms only for the
    functions with cuts on the real axis)"""
    if isinstance(c, mpc) and c.imag != 0:
        if name in ("log", "asin", "acos", "atanh", "atan", "asinh", "gamma", "lambertw"):
            raise Unsupported("complex constant term under " + name)
        return
    r = Fraction(c) if _is_exact(c) else _realpart(c)
    if name == "log" and r <= 0:
        raise NotAnalytic("log of non-positive constant term")
    if name in ("asin", "acos", "atanh") and abs(r) >= 1:
        raise NotAnalytic(name + " outside (-1, 1)")
    if name == "gamma" and r <= 0:
        raise NotAnalytic("gamma at non-positive constant term")
    if name == "lambertw" and r != 0:
        raise Unsupported("lambertw with a constant term")
    if name in ("csc", "cot", "csch", "coth") and r == 0:
        raise NotAnalytic(name + " pole at 0")


def scalar(name, c):
    _check_domain(name, c)
    if _is_exact(c):
        tab = _EXACT_AT.get(name, {})
        c = Fraction(c)
        if c in tab:
            return Fraction(tab[c])
        raise NotExact("%s(%s)" % (name, c))
    try:
        v = _MPF[name](c)
    except (ZeroDivisionError, ValueError, OverflowError):
        raise NotAnalytic("%s pole" % name)
    if not mpmath.isfinite(v):
        raise NotAnalytic("%s pole" % name)
    return v


# ------------------------------------------------------------------ series arithmetic
def s_const(c, n):
    return [c] + [c * 0] * (n - 1) if n > 0 else []


def s_add(a, b):
    n = min(len(a), len(b))
    return [a[i] + b[i] for i in range(n)]


def s_sub(a, b):
    n = min(len(a), len(b))
    return [a[i] - b[i] for i in range(n)]


def s_neg(a):
    return [-x for x in a]


def s_scale(a, c):
    return [x * c for x in a]


def s_mul(a, b):
    n = min(len(a), len(b))
    out = []
    for k in range(n):
        acc = a[0] * b[k]
        for i in range(1, k + 1):
            acc = acc + a[i] * b[k - i]
        out.append(acc)
    return out


def valuation(a):
    for i, x in enumerate(a):
        if not _zero(x):
            return i
    return None


def _lead_ok(a, k):
    """numeric fields: a leading coefficient that is tiny relative to the rest is a cancellation,
    not a structural valuation"""
    if _is_exact(a[k]):
        return
    if abs(a[k]) < mpf(10) ** (-(mp.dps // 2)):
        raise NotAnalytic("ill-conditioned leading coefficient")


def s_inv(a):
    if not a:
        return []
    if _zero(a[0]):
        raise NotAnalytic("inverse of a series with zero constant term")
    _lead_ok(a, 0)
    n = len(a)
    b0 = 1 / a[0]
    b = [b0]
    for k in range(1, n):
        acc = a[1] * b[k - 1]
        for i in range(2, k + 1):
            acc = acc + a[i] * b[k - i]
        b.append(-b0 * acc)
    return b


def s_div(a, b):
    """a / b; a removable singularity (valuation(a) >= valuation(b) = k > 0) costs k terms"""
    n = min(len(a), len(b))
    a, b = a[:n], b[:n]
    k = valuation(b)
    if k is None:
        raise NotAnalytic("division by a series that vanishes to the known order")
    _lead_ok(b, k)
    if k:
        if any(not _zero(x) for x in a[:k]):
            raise NotAnalytic("pole: denominator valuation exceeds numerator valuation")
        a, b = a[k:], b[k:]
    return s_mul(a, s_inv(b))


def s_diff(a):
    return [a[i] * i for i in range(1, len(a))]


def s_integ(a, c0):
    return [c0] + [a[i] / (i + 1) for i in range(len(a))]


def s_exp(f):
    n = len(f)
    if n == 0:
        return []
    e = [scalar("exp", f[0])]
    for k in range(1, n):
        acc = f[1] * e[k - 1]
        for i in range(2, k + 1):
            acc = acc + i * f[i] * e[k - i]
        e.append(acc / k)
    return e


def s_log(f):
    n = len(f)
    if n == 0:
        return []
    g = [scalar("log", f[0])]
    for k in range(1, n):
        acc = f[k] * k
        for i in range(1, k):
            acc = acc - i * g[i] * f[k - i]
        g.append(acc / (k * f[0]))
    return g


def s_pow_frac(f, r):
    """f ** r for a Fraction r and f0 != 0 (Euler / Miller recurrence)"""
    n = len(f)
    if n == 0:
        return []
    if _zero(f[0]):
        raise NotAnalytic("rational power of a series with zero constant term")
    p = [scalar_pow(f[0], r)]
    for k in range(1, n):
        acc = (r * 1 - (k - 1)) * f[1] * p[k - 1]
        for i in range(2, k + 1):
            acc = acc + (r * i - (k - i)) * f[i] * p[k - i]
        p.append(acc / (k * f[0]))
    return p


def s_pow_int(f, e):
    if e == 0:
        if f and all(_zero(x) for x in f):
            raise NotAnalytic("0**0")
        return s_const(f[0] * 0 + 1, len(f)) if f else []
    if e < 0:
        return s_inv(s_pow_int(f, -e))
    out = None
    base = f
    while e:
        if e & 1:
            out = base if out is None else s_mul(out, base)
        e >>= 1
        if e:
            base = s_mul(base, base)
    return out


def _pair(f, a0, b0, sign):
    """solve a' = f' b, b' = sign f' a  (sin/cos: sign=-1, sinh/cosh: sign=+1)"""
    n = len(f)
    a, b = [a0], [b0]
    for k in range(1, n):
        sa = f[1] * b[k - 1]
        sb = f[1] * a[k - 1]
        for i in range(2, k + 1):
            sa = sa + i * f[i] * b[k - i]
            sb = sb + i * f[i] * a[k - i]
        a.append(sa / k)
        b.append(sign * sb / k)
    return a, b


def s_sin(f):
    return _pair(f, scalar("sin", f[0]), scalar("cos", f[0]), -1)[0] if f else []


def s_cos(f):
    return _pair(f, scalar("sin", f[0]), scalar("cos", f[0]), -1)[1] if f else []


def s_sinh(f):
    return _pair(f, scalar("sinh", f[0]), scalar("cosh", f[0]), 1)[0] if f else []


def s_cosh(f):
    return _pair(f, scalar("sinh", f[0]), scalar("cosh", f[0]), 1)[1] if f else []


def _riccati(f, t0, sign):
    """t' = f' (1 + sign t^2)   (tan: +1, tanh: -1)"""
    n = len(f)
    t = [t0]
    sq = []  # coefficients of 1 + sign*t^2, filled as t grows
    for k in range(1, n):
        j = k - 1
        acc = t[0] * t[j]
        for i in range(1, j + 1):
            acc = acc + t[i] * t[j - i]
        sq.append(sign * acc + (1 if j == 0 else 0))
        s = f[1] * sq[k - 1]
        for i in range(2, k + 1):
            s = s + i * f[i] * sq[k - i]
        t.append(s / k)
    return t


def s_tan(f):
    return _riccati(f, scalar("tan", f[0]), 1) if f else []


def s_tanh(f):
    return _riccati(f, scalar("tanh", f[0]), -1) if f else []


def _one(f):
    return f[0] * 0 + 1


def s_atan(f):
    if not f:
        return []
    d = s_add(s_const(_one(f), len(f)), s_mul(f, f))
    return s_integ(s_mul(s_diff(f), s_inv(d)[:len(f) - 1]), scalar("atan", f[0]))[:len(f)]


def s_atanh(f):
    if not f:
        return []
    d = s_sub(s_const(_one(f), len(f)), s_mul(f, f))
    return s_integ(s_mul(s_diff(f), s_inv(d)[:len(f) - 1]), scalar("atanh", f[0]))[:len(f)]


def s_asin(f):
    if not f:
        return []
    c0 = scalar("asin", f[0])
    d = s_sub(s_const(_one(f), len(f)), s_mul(f, f))
    return s_integ(s_mul(s_diff(f), s_pow_frac(d, Fraction(-1, 2))[:len(f) - 1]), c0)[:len(f)]


def s_acos(f):
    if not f:
        return []
    if _is_exact(f[0]):
        raise NotExact("acos")
    c0 = scalar("acos", f[0])
    d = s_sub(s_const(_one(f), len(f)), s_mul(f, f))
    return s_integ(s_neg(s_mul(s_diff(f), s_pow_frac(d, Fraction(-1, 2))[:len(f) - 1])), c0)[:len(f)]


def s_asinh(f):
    if not f:
        return []
    c0 = scalar("asinh", f[0])
    d = s_add(s_const(_one(f), len(f)), s_mul(f, f))
    return s_integ(s_mul(s_diff(f), s_pow_frac(d, Fraction(-1, 2))[:len(f) - 1]), c0)[:len(f)]


def s_lambertw(f):
    """w exp(w) = f with f0 = 0:  w' = f' exp(-w) / (1 + w)"""
    n = len(f)
    if n == 0:
        return []
    scalar("lambertw", f[0])
    w = [f[0] * 0]
    df = s_diff(f)
    for k in range(1, n):
        # coefficient k-1 of the right-hand side needs only w_0..w_{k-1} and f'_0..f'_{k-1}
        e = s_exp(s_neg(w))
        q = s_inv(s_add(s_const(_one(f), k), w))
        rhs = s_mul(df[:k], s_mul(e, q))
        w.append(rhs[k - 1] / k)
    return w


def s_compose_scalar(name, f, fn=None):
    """g(f) for a scalar analytic g given numerically: Taylor coefficients of g at f0 by mpmath.taylor
    (numeric field only), then Horner in (f - f0)"""
    if not f:
        return []
    if _is_exact(f[0]):
        raise NotExact(name)
    _check_domain(name, f[0])
    n = len(f)
    g = fn or _MPF[name]
    try:
        with mp.extradps(30):
            tc = mp.taylor(g, f[0], n - 1)
    except (ZeroDivisionError, ValueError, OverflowError):
        raise NotAnalytic(name + " pole")
    tc = [+c for c in tc]
    if any(not mpmath.isfinite(c) for c in tc):
        raise NotAnalytic(name + " pole")
    h = [f[0] * 0] + list(f[1:])
    out = s_const(tc[-1], n)
    for c in reversed(tc[:-1]):
        out = s_mul(out, h)
        out[0] = out[0] + c
    return out


def s_recip_of(fn):
    return lambda f: s_inv(fn(f))


UNARY = {
    "exp": s_exp, "log": s_log, "sin": s_sin, "cos": s_cos, "tan": s_tan, "atan": s_atan, "asin": s_asin,
    "acos": s_acos, "sinh": s_sinh, "cosh": s_cosh, "tanh": s_tanh, "asinh": s_asinh, "atanh": s_atanh,
    "lambertw": s_lambertw,
    "sec": s_recip_of(s_cos), "csc": s_recip_of(s_sin), "cot": lambda f: s_div(s_cos(f), s_sin(f)),
    "sech": s_recip_of(s_cosh), "csch": s_recip_of(s_sinh), "coth": lambda f: s_div(s_cosh(f), s_sinh(f)),
    "gamma": lambda f: s_compose_scalar("gamma", f), "erf": lambda f: s_compose_scalar("erf", f),
    "neg": s_neg,
}

CONST = {"pi": lambda: +mp.pi, "E": lambda: +mp.e, "EulerGamma": lambda: +mp.euler}


def _as_frac(r):
    """recipe -> Fraction when the recipe is a rational literal, else None"""
    if isinstance(r, (list, tuple)):
        if r[0] == "integer":
            return Fraction(r[1])
        if r[0] == "rational":
            return Fraction(r[1], r[2])
        if r[0] == "neg":
            q = _as_frac(r[1])
            return None if q is None else -q
    return None


def series_of(r, n, exact, env=None, var="x"):
    """power series of the recipe r to n terms.  exact=True: Fractions (NotExact when impossible);
    exact=False: mpmath numbers at the current mp.dps.  env: other symbols -> Fraction values."""
    env = env or {}

    def num(q):
        q = Fraction(q)
        return q if exact else mpf(q.numerator) / mpf(q.denominator)

    def go(r):
        h = r[0]
        if h == "integer":
            return s_const(num(r[1]), n)
        if h == "rational":
            return s_const(num(Fraction(r[1], r[2])), n)
        if h == "symbol":
            if r[1] == var:
                z = num(0)
                return ([z, num(1)] + [z] * n)[:n]
            if r[1] in env:
                return s_const(num(Fraction(env[r[1]])), n)
            raise Unsupported("unbound symbol " + r[1])
        if h == "constant":
            if exact:
                raise NotExact(r[1])
            return s_const(CONST[r[1]](), n)
        if h == "add":
            return s_add(go(r[1]), go(r[2]))
        if h == "sub":
            return s_sub(go(r[1]), go(r[2]))
        if h == "mul":
            return s_mul(go(r[1]), go(r[2]))
        if h == "div":
            return s_div(go(r[1]), go(r[2]))
        if h in ("add_vec", "mul_vec"):
            items = [go(x) for x in r[1][1:]]
            acc = items[0]
            for it in items[1:]:
                acc = s_add(acc, it) if h == "add_vec" else s_mul(acc, it)
            return acc
        if h == "sqrt":
            return s_pow_frac(go(r[1]), Fraction(1, 2))
        if h == "cbrt":
            return s_pow_frac(go(r[1]), Fraction(1, 3))
        if h == "pow":
            q = _as_frac(r[2])
            if q is not None:
                b = go(r[1])
                if q.denominator == 1:
                    if q < 0 and b and _zero(b[0]):
                        # 1/x**k style: valuation handled by s_div
                        return s_div(s_const(_one(b), len(b)), s_pow_int(b, -q.numerator))
                    return s_pow_int(b, q.numerator)
                return s_pow_frac(b, q)
            # general exponent: exp(e * log(b))
            return s_exp(s_mul(go(r[2]), s_log(go(r[1]))))
        if h in UNARY:
            return UNARY[h](go(r[1]))
        raise Unsupported(h)

    out = go(r)
    return out


# ------------------------------------------------------------------ raw dump -> recipe
_CLASS2NAME = {
    "Sin": "sin", "Cos": "cos", "Tan": "tan", "Cot": "cot", "Csc": "csc", "Sec": "sec",
    "ASin": "asin", "ACos": "acos", "ATan": "atan", "Sinh": "sinh", "Cosh": "cosh", "Tanh": "tanh",
    "Coth": "coth", "Csch": "csch", "Sech": "sech", "ASinh": "asinh", "ATanh": "atanh", "Log": "log",
    "LambertW": "lambertw", "Gamma": "gamma", "Erf": "erf",
}


def dump_to_recipe(d):
    """the library's canonical expression (raw dump) as a recipe for series_of"""
    t = d[0]
    if t == "Integer":
        return ["integer", int(d[1])]
    if t == "Rational":
        return ["rational", int(d[1]), int(d[2])]
    if t == "Symbol":
        return ["symbol", d[1]]
    if t == "Constant":
        return ["constant", d[1]]
    if t == "Add":
        items = []
        if d[1] != ["Integer", "0"]:
            items.append(dump_to_recipe(d[1]))
        for term, coef in d[2]:
            tr = dump_to_recipe(term)
            items.append(tr if coef == ["Integer", "1"] else ["mul", dump_to_recipe(coef), tr])
        return items[0] if len(items) == 1 else ["add_vec", ["list"] + items]
    if t == "Mul":
        items = []
        if d[1] != ["Integer", "1"]:
            items.append(dump_to_recipe(d[1]))
        for base, ex in d[2]:
            items.append(dump_to_recipe(["Pow", base, ex]) if ex != ["Integer", "1"] else dump_to_recipe(base))
        return items[0] if len(items) == 1 else ["mul_vec", ["list"] + items]
    if t == "Pow":
        if d[1] == ["Constant", "E"]:
            return ["exp", dump_to_recipe(d[2])]
        return ["pow", dump_to_recipe(d[1]), dump_to_recipe(d[2])]
    if t in _CLASS2NAME:
        return [_CLASS2NAME[t], dump_to_recipe(d[1])]
    raise Unsupported("dump class " + str(t))
