"""Exact Gaussian-rational arithmetic and number recipes (C05, C06, ...)."""
from fractions import Fraction


class GQ:
    """Gaussian rational re + i*im with Fraction parts."""
    __slots__ = ("re", "im")

    def __init__(self, re=0, im=0):
        self.re = Fraction(re)
        self.im = Fraction(im)

    def __eq__(self, o):
        return self.re == o.re and self.im == o.im

    def __hash__(self):
        return hash((self.re, self.im))

    def __repr__(self):
        return "GQ(%s,%s)" % (self.re, self.im)

    def is_zero(self):
        return self.re == 0 and self.im == 0

    def __add__(self, o):
        return GQ(self.re + o.re, self.im + o.im)

    def __sub__(self, o):
        return GQ(self.re - o.re, self.im - o.im)

    def __neg__(self):
        return GQ(-self.re, -self.im)

    def __mul__(self, o):
        return GQ(self.re * o.re - self.im * o.im, self.re * o.im + self.im * o.re)

    def inv(self):
        n = self.re * self.re + self.im * self.im
        return GQ(self.re / n, -self.im / n)

    def __truediv__(self, o):
        return self * o.inv()

    def conj(self):
        return GQ(self.re, -self.im)

    def pow(self, e):
        if e < 0:
            return self.inv().pow(-e)
        r = GQ(1)
        b = self
        while e:
            if e & 1:
                r = r * b
            b = b * b
            e >>= 1
        return r


def real_dump(q):
    q = Fraction(q)
    if q.denominator == 1:
        return ["Integer", str(q.numerator)]
    return ["Rational", str(q.numerator), str(q.denominator)]


def gq_dump(z):
    """the unique normalised dump of an exact number"""
    if z.im == 0:
        return real_dump(z.re)
    return ["Complex", real_dump(z.re), real_dump(z.im)]


def real_recipe(q):
    q = Fraction(q)
    if q.denominator == 1:
        return ["integer", q.numerator]
    return ["rational", q.numerator, q.denominator]


def gq_recipe(z):
    if z.im == 0:
        return real_recipe(z.re)
    return ["complex", real_recipe(z.re), real_recipe(z.im)]


def dump_to_gq(d):
    """inverse of gq_dump for exact number dumps, else None (no validation)"""
    t = d[0]
    if t == "Integer":
        return GQ(int(d[1]))
    if t == "Rational":
        return GQ(Fraction(int(d[1]), int(d[2])))
    if t == "Complex":
        a, b = dump_to_gq(d[1]), dump_to_gq(d[2])
        if a is None or b is None:
            return None
        return GQ(a.re, b.re)
    return None


ZOO = ["Infty", ["Integer", "0"]]
OO = ["Infty", ["Integer", "1"]]
NOO = ["Infty", ["Integer", "-1"]]
NAN = ["NaN"]
