"""Reference model for the assumption checks C34 (property queries) and C35 (refine / simplify).

* witness-first assumption sets per symbol (DESIGN 3.2, 6/C34): a witness value of a known class is drawn,
  then statements of the forms `Assumptions` understands that are TRUE of the witness, then further values
  CONSTRUCTED inside the region the statements describe (set level x interval minus excluded points);
* exact evaluation in Q(i) of recipes and raw dumps (`reduce`: every exactly computable subtree becomes a
  literal, so floor / sign / ceiling at integer points are decided exactly, never numerically);
* a small arithmetic-class tracker (real / algebraic / rational / irrational known BY CONSTRUCTION, using only
  closure properties of the algebraic numbers and the Lindemann-Weierstrass corollaries for exp, log, sin, cos);
* a truth table of the queried properties at one assignment (None = not decidable, never judged);
* a syntactic reference for is_polynomial on dumps and recipes.
"""
import json
import math
import os
from fractions import Fraction

from hypothesis import strategies as st
from mpmath import mp, mpf, mpc

from . import engine, gen
from . import oracle_num as on
from .exact import GQ, gq_recipe
from .oracle_num import Unjudgeable


# ---------------------------------------------------------------------------------------------- values
# ["int", n] | ["rat", "p/q"] | ["alg", "a", "b", n]  (a + b*sqrt(n), b != 0)
# | ["tr", "a", "b", "pi"|"E"] (a + b*pi) | ["cx", "re", "im"] (im != 0)
SQ_APPROX = {2: Fraction(7, 5), 3: Fraction(7, 4), 5: Fraction(9, 4)}      # |sqrt(n) - approx| < 0.02
TR_APPROX = {"pi": Fraction(22, 7), "E": Fraction(19, 7)}                   # |const - approx| < 0.005
LEVEL = {"int": 0, "rat": 1, "alg": 2, "tr": 2, "cx": 3}
SETS = ["integers", "rationals", "reals", "complexes"]                      # index = level


def F(s):
    return Fraction(s)


def mk_q(q):
    q = Fraction(q)
    return ["int", int(q)] if q.denominator == 1 else ["rat", str(q)]


def val_gq(v):
    k = v[0]
    if k == "int":
        return GQ(v[1])
    if k == "rat":
        return GQ(F(v[1]))
    if k == "cx":
        return GQ(F(v[1]), F(v[2]))
    return None


def real_recipe(q):
    q = Fraction(q)
    return ["integer", q.numerator] if q.denominator == 1 else ["rational", q.numerator, q.denominator]


def val_recipe(v):
    k = v[0]
    if k in ("int", "rat", "cx"):
        return gq_recipe(val_gq(v))
    a, b = F(v[1]), F(v[2])
    irr = ["sqrt", ["integer", v[3]]] if k == "alg" else ["constant", v[3]]
    return ["add", real_recipe(a), ["mul", real_recipe(b), irr]]


def val_mp(v, dps=100):
    with mp.workdps(dps):
        k = v[0]
        if k in ("int", "rat", "cx"):
            q = val_gq(v)
            re = mpf(q.re.numerator) / q.re.denominator
            if q.im == 0:
                return re
            return mpc(re, mpf(q.im.numerator) / q.im.denominator)
        a, b = F(v[1]), F(v[2])
        irr = mp.sqrt(v[3]) if k == "alg" else (+mp.pi if v[3] == "pi" else +mp.e)
        return mpf(a.numerator) / a.denominator + mpf(b.numerator) / b.denominator * irr


def val_str(v):
    k = v[0]
    if k == "int":
        return str(v[1])
    if k == "rat":
        return v[1]
    if k == "cx":
        return "(%s)+(%s)*I" % (v[1], v[2])
    return "(%s)+(%s)*%s" % (v[1], v[2], "sqrt(%d)" % v[3] if k == "alg" else v[3])


def _cmp_real(v, c):
    """sign of (v - c) for a real value v and a Fraction c (exact)"""
    q = val_gq(v)
    if q is not None:
        return (q.re > c) - (q.re < c)
    d = val_mp(v, 60) - mpf(c.numerator) / c.denominator      # irrational minus rational: never 0
    return 1 if d > 0 else -1


# ---------------------------------------------------------------------------------------------- statements
# ["in", setname] | ["lb", c, strict, form] (c < x / c <= x) | ["ub", c, strict, form] | ["eq", c, form] | ["ne", c, form]
# c is a number recipe; form selects which constructor spells the statement (Lt(c,x) or Gt(x,c) ...)
def num_fraction(c):
    """exact value of a real number recipe (doubles at their exact value)"""
    h = c[0]
    if h == "integer":
        return Fraction(c[1])
    if h == "rational":
        return Fraction(c[1], c[2])
    if h == "real_double":
        return Fraction(c[1])
    raise KeyError(h)


def num_gq(c):
    if c[0] == "complex":
        return GQ(num_fraction(c[1]), num_fraction(c[2]))
    return GQ(num_fraction(c))


def stmt_recipe(name, s):
    x = ["symbol", name]
    h = s[0]
    if h == "in":
        return ["contains", x, [s[1]]]
    if h == "lb":
        c, strict, form = s[1], s[2], s[3]
        if strict:
            return ["Lt", c, x] if form == 0 else ["Gt", x, c]
        return ["Le", c, x] if form == 0 else ["Ge", x, c]
    if h == "ub":
        c, strict, form = s[1], s[2], s[3]
        if strict:
            return ["Lt", x, c] if form == 0 else ["Gt", c, x]
        return ["Le", x, c] if form == 0 else ["Ge", c, x]
    if h == "eq":
        return ["Eq", x, s[1]] if s[2] == 0 else ["Eq", s[1], x]
    if h == "ne":
        return ["Ne", x, s[1]] if s[2] == 0 else ["Ne", s[1], x]
    raise KeyError(h)


def stmt_str(name, s):
    h = s[0]
    c = None if h == "in" else engine.sx(s[1])
    if h == "in":
        return "%s in %s" % (name, s[1])
    if h == "lb":
        return "%s %s %s" % (c, "<" if s[2] else "<=", name)
    if h == "ub":
        return "%s %s %s" % (name, "<" if s[2] else "<=", c)
    return "%s %s %s" % (name, "==" if h == "eq" else "!=", c)


def stmt_holds(s, v):
    """is the statement true of the value (exact)"""
    h = s[0]
    if h == "in":
        return LEVEL[v[0]] <= SETS.index(s[1])
    if h in ("lb", "ub"):
        if LEVEL[v[0]] > 2:
            return False
        sg = _cmp_real(v, num_fraction(s[1]))
        if h == "lb":
            return sg > 0 or (sg == 0 and not s[2])
        return sg < 0 or (sg == 0 and not s[2])
    q = val_gq(v)
    same = q is not None and q == num_gq(s[1])
    return same if h == "eq" else not same


def region(stmts):
    """(level, lo, lo_strict, hi, hi_strict, excluded GQ points, eq point or None)"""
    level = 3
    lo = hi = None
    los = his = False
    ne = []
    eqp = None
    for s in stmts:
        h = s[0]
        if h == "in":
            level = min(level, SETS.index(s[1]))
        elif h == "lb":
            level = min(level, 2)
            c = num_fraction(s[1])
            if lo is None or c > lo or (c == lo and s[2]):
                lo, los = c, bool(s[2])
        elif h == "ub":
            level = min(level, 2)
            c = num_fraction(s[1])
            if hi is None or c < hi or (c == hi and s[2]):
                hi, his = c, bool(s[2])
        elif h == "eq":
            eqp = num_gq(s[1])
        elif h == "ne":
            ne.append(num_gq(s[1]))
    return level, lo, los, hi, his, ne, eqp


# ---------------------------------------------------------------------------------------------- generation
def _number_recipe(draw, c, allow_double=True):
    """spell the Fraction c as Integer / Rational, or as an (exact) double when it is dyadic"""
    c = Fraction(c)
    if allow_double and c.denominator in (1, 2, 4) and abs(c) < 64 and draw(st.integers(0, 5)) == 0:
        return ["real_double", float(c)]
    return real_recipe(c)


def _witness(draw, kind):
    smallq = st.builds(Fraction, st.integers(-9, 9), st.sampled_from([1, 1, 2, 3, 4]))
    if kind == "int":
        return ["int", draw(st.sampled_from([0, 0, 0, 1, 1, -1, -1, 2, -2, 3, -3, 4, 5, -6, 7, 12]))]
    if kind == "rat":
        d = draw(st.sampled_from([2, 2, 3, 4, 5, 7]))
        k = draw(st.integers(-12, 12))
        q = Fraction(k * d + draw(st.integers(1, d - 1)), d)
        return mk_q(q)          # numerator not divisible by d: never an integer
    if kind == "alg":
        b = draw(smallq.filter(bool))
        return ["alg", str(draw(smallq)), str(b), draw(st.sampled_from([2, 2, 3, 5]))]
    if kind == "tr":
        b = draw(smallq.filter(bool))
        return ["tr", str(draw(smallq)), str(b), draw(st.sampled_from(["pi", "pi", "E"]))]
    im = draw(smallq.filter(bool))
    return ["cx", str(draw(smallq)), str(im)]


def _inside(draw, lo, los, hi, his, w):
    """a rational point of the interval (lo, hi) (closed where not strict), constructed"""
    opts = []
    if lo is not None and not los:
        opts += [lo, lo]
    if hi is not None and not his:
        opts += [hi, hi]
    if lo is not None and hi is not None:
        if hi > lo:
            opts += [lo + (hi - lo) * f for f in (Fraction(1, 2), Fraction(1, 3), Fraction(3, 4), Fraction(1, 10))]
    elif lo is not None:
        opts += [lo + d for d in (Fraction(1, 3), Fraction(1), Fraction(5, 2), Fraction(7), Fraction(1, 100))]
    elif hi is not None:
        opts += [hi - d for d in (Fraction(1, 3), Fraction(1), Fraction(5, 2), Fraction(7), Fraction(1, 100))]
    else:
        opts += [Fraction(x) for x in (-3, -1, 0, 1, 2)] + [Fraction(-1, 2), Fraction(1, 3), Fraction(7, 2)]
    if w is not None:
        opts.append(w)
    return draw(st.sampled_from(opts))


def _room(t, lo, hi):
    up = None if hi is None else hi - t
    down = None if lo is None else t - lo
    return up, down


def _sample(draw, kind, reg, wv):
    """a value of (about) the requested kind inside the region; falls back to the witness"""
    level, lo, los, hi, his, ne, eqp = reg
    if eqp is not None:
        return wv
    wq = val_gq(wv)
    wrat = wq.re if (wq is not None and wq.im == 0) else None
    if kind == "cx":
        if level < 3 or lo is not None or hi is not None:
            kind = "rat"
        else:
            v = _witness(draw, "cx")
            return wv if val_gq(v) in ne else v
    if kind == "int":
        clo = None if lo is None else (math.floor(lo) + 1 if los else math.ceil(lo))
        fhi = None if hi is None else (math.ceil(hi) - 1 if his else math.floor(hi))
        if clo is not None and fhi is not None:
            cands = [clo, fhi, (clo + fhi) // 2] if clo <= fhi else []
        elif clo is not None:
            cands = [clo, clo, clo + 1, clo + 5]
        elif fhi is not None:
            cands = [fhi, fhi, fhi - 1, fhi - 5]
        else:
            cands = [-3, -1, 0, 0, 1, 2, 6]
        if cands:
            v = ["int", draw(st.sampled_from(cands))]
            return wv if val_gq(v) in ne else v
        kind = "rat"
    t = _inside(draw, lo, los, hi, his, wrat)
    up, down = _room(t, lo, hi)
    if kind == "rat":
        if t.denominator == 1:
            if up is None or up > 0:
                t = t + (Fraction(1, 3) if up is None else min(up, 1) * Fraction(1, 3))
            elif down is None or down > 0:
                t = t - (Fraction(1, 3) if down is None else min(down, 1) * Fraction(1, 3))
        v = mk_q(t)
        return wv if (val_gq(v) in ne or level < LEVEL[v[0]]) else v
    # irrational kinds need an interior point
    if level < 2:
        v = mk_q(t)
        return wv if (val_gq(v) in ne or level < LEVEL[v[0]]) else v
    if up is not None and up == 0 and down is not None and down == 0:
        return wv
    if up is not None and up == 0:
        t = t - (Fraction(1, 2) if down is None else min(down, 1) / 2)
    elif down is not None and down == 0:
        t = t + (Fraction(1, 2) if up is None else min(up, 1) / 2)
    up, down = _room(t, lo, hi)
    r = min([x for x in (up, down, Fraction(1)) if x is not None])
    b = r * Fraction(draw(st.sampled_from([1, 2, 3, 4, -1, -2, -4])), 4)
    if kind == "alg":
        n = draw(st.sampled_from([2, 3, 5]))
        return ["alg", str(t - b * SQ_APPROX[n]), str(b), n]
    c = draw(st.sampled_from(["pi", "E"]))
    return ["tr", str(t - b * TR_APPROX[c]), str(b), c]


KIND_WEIGHTS = ["int"] * 6 + ["rat"] * 3 + ["alg"] * 2 + ["tr"] * 2 + ["cx"] * 3


def _negate(v):
    k = v[0]
    if k == "int":
        return ["int", -v[1]]
    if k == "rat":
        return ["rat", str(-F(v[1]))]
    if k in ("alg", "tr"):
        return [k, str(-F(v[1])), str(-F(v[2])), v[3]]
    return ["cx", str(-F(v[1])), str(-F(v[2]))]


PROFILES = [None] * 5 + ["int", "int", "int", "pos", "pos", "pos", "neg", "neg", "real", "real", "rat", "nonneg", "nonpos", "intpos"]


@st.composite
def symbol_assumptions(draw, nvals=4, p_none=6, profile=None):
    """{"st": [statements true of the witness], "vals": [witness, further values of the region]}.
    profile biases the witness and forces one statement (all symbols integer / positive / real ...), so that
    expressions over several symbols meet the combination rules of the visitors"""
    kind = draw(st.sampled_from(KIND_WEIGHTS))
    if profile in ("int", "intpos"):
        kind = "int"
    elif profile == "rat":
        kind = draw(st.sampled_from(["int", "rat", "rat"]))
    elif profile is not None and kind == "cx":
        kind = draw(st.sampled_from(["int", "rat", "alg", "tr"]))
    w = _witness(draw, kind)
    stmts = []
    if profile in ("pos", "neg", "nonneg", "nonpos", "intpos"):
        sg = _cmp_real(w, Fraction(0))
        want = 1 if profile in ("pos", "nonneg", "intpos") else -1
        if sg == -want:
            w = _negate(w)
        elif sg == 0 and profile in ("pos", "neg", "intpos"):
            w = ["int", want]
        side = "lb" if want > 0 else "ub"
        opts = [(Fraction(0), profile in ("pos", "neg", "intpos"))] * 3
        if profile in ("pos", "neg", "intpos"):
            opts += [(Fraction(want) * c, False) for c in (Fraction(1, 2), Fraction(1), Fraction(2)) if want * _cmp_real(w, Fraction(want) * c) >= 0]
        c, strict = draw(st.sampled_from(opts))
        stmts.append([side, _number_recipe(draw, c), strict, draw(st.integers(0, 1))])
    lvl = LEVEL[kind]
    if profile in ("int", "intpos"):
        stmts.append(["in", "integers"])
    elif profile == "rat":
        stmts.append(["in", "rationals"])
    elif profile == "real":
        stmts.append(["in", draw(st.sampled_from(["reals", "reals", SETS[lvl]]))])
    if draw(st.integers(0, p_none)) != 0:
        # Contains(x, S) for a set S that holds the witness
        if draw(st.integers(0, 3)) != 0 and profile not in ("int", "intpos", "rat", "real"):
            stmts.append(["in", draw(st.sampled_from([SETS[lvl]] * 3 + SETS[lvl:]))])
        wq = val_gq(w)
        if lvl <= 2:
            fl = Fraction(math.floor(val_mp(w, 30)))
            wr = wq.re if wq is not None else None
            for side in ("lb", "ub"):
                if draw(st.integers(0, 2)) != 0:
                    continue
                pool = [Fraction(0)] * 6 + [Fraction(1), Fraction(-1), Fraction(1, 2), Fraction(-1, 2), Fraction(2),
                        Fraction(-3), Fraction(5, 2), fl, fl + 1, fl - 1, fl + 2]
                if wr is not None:
                    pool += [wr, wr, wr]
                if side == "lb":
                    ok = [c for c in pool if _cmp_real(w, c) >= 0] + [fl - 1]
                else:
                    ok = [c for c in pool if _cmp_real(w, c) <= 0] + [fl + 2]
                c = draw(st.sampled_from(ok))
                strict = False if _cmp_real(w, c) == 0 else draw(st.booleans())
                stmts.append([side, _number_recipe(draw, c), strict, draw(st.integers(0, 1))])
        if wq is not None and draw(st.integers(0, 9)) == 0:
            stmts.append(["eq", gq_recipe(wq), draw(st.integers(0, 1))])
        if draw(st.integers(0, 3)) == 0:
            pool = [GQ(0), GQ(0), GQ(0), GQ(1), GQ(-1), GQ(2), GQ(Fraction(1, 2)), GQ(0, 1), GQ(1, -1)]
            ok = [c for c in pool if wq is None or not (c == wq)] + [GQ(17)]
            c = draw(st.sampled_from(ok))
            rec = gq_recipe(c)
            if c.is_zero() and draw(st.integers(0, 4)) == 0:
                rec = ["real_double", 0.0]
            stmts.append(["ne", rec, draw(st.integers(0, 1))])
    reg = region(stmts)
    allowed = [k for k in ("int", "rat", "alg", "tr", "cx") if LEVEL[k] <= reg[0]]
    vals = [w]
    for _ in range(nvals - 1):
        k = draw(st.sampled_from(allowed + ["int"]))
        vals.append(_sample(draw, k, reg, w))
    return {"st": stmts, "vals": vals}


@st.composite
def free_value(draw):
    """a value of any class, no statements attached"""
    return _witness(draw, draw(st.sampled_from(KIND_WEIGHTS)))


def free_sets(names=("x", "y", "z"), nvals=2):
    return st.fixed_dictionaries({n: st.fixed_dictionaries({"vals": st.lists(free_value(), min_size=nvals, max_size=nvals)})
                                  for n in names})


@st.composite
def assumption_sets(draw, names=("x", "y", "z"), nvals=4):
    profile = draw(st.sampled_from(PROFILES))
    out = {}
    for n in names:
        p = profile if (profile is not None and draw(st.integers(0, 3)) != 0) else None
        out[n] = draw(symbol_assumptions(nvals, 6, p))
    return out


def check_case_syms(syms):
    """every listed value must satisfy every statement of its symbol (generator self-check; replay files are
    hand-editable).  Raises GeneratorDefect."""
    for name, sa in syms.items():
        for v in sa["vals"]:
            for s in sa["st"]:
                if not stmt_holds(s, v):
                    raise engine.GeneratorDefect("value %s of %s violates %s" % (val_str(v), name, stmt_str(name, s)))


def assignments(syms, names, extra=2, key="vals"):
    """joint assignments: the statements constrain each symbol separately, so every combination of per-symbol
    values satisfies the whole set; the aligned ones plus `extra` rotated combinations are used"""
    names = sorted(names)
    n = min([len(syms[s][key]) for s in names] or [1])
    combos = [(j, 0) for j in range(n)] + [(j, 1) for j in range(min(extra, n))]
    out, seen = [], set()
    for j, shift in combos:
        a = {s: syms[s][key][(j + shift * (i + 1)) % n] for i, s in enumerate(names)}
        k = json.dumps(a, sort_keys=True)
        if k not in seen:
            seen.add(k)
            out.append(a)
    return out


def split_env(assign):
    """exact part (name -> GQ) and numeric part (name -> mp value) of an assignment"""
    xenv, nenv = {}, {}
    for s, v in assign.items():
        q = val_gq(v)
        if q is not None:
            xenv[s] = q
        else:
            nenv[s] = val_mp(v)
    return xenv, nenv


def assign_str(assign):
    return "{" + ", ".join("%s=%s" % (s, val_str(v)) for s, v in sorted(assign.items())) + "}"


def asm_statements(syms, names=None):
    out = []
    for n in sorted(syms):
        if names is None or n in names:
            out += [stmt_recipe(n, s) for s in syms[n]["st"]]
    return out


def asm_str(syms, names=None):
    return "{" + "; ".join(stmt_str(n, s) for n in sorted(syms) if names is None or n in names for s in syms[n]["st"]) + "}"


# ---------------------------------------------------------------------------------------------- exact evaluation
class Undefined(Exception):
    """the expression has no finite value at the assignment (decided exactly)"""


def frac_root(r, k):
    """exact k-th root of a positive Fraction, or None"""
    def iroot(n):
        if n < 2:
            return n
        x = int(round(n ** (1.0 / k))) if n < 2 ** 900 else 1 << (n.bit_length() // k)
        for c in (x - 1, x, x + 1):
            if c >= 0 and c ** k == n:
                return c
        lo, hi = 0, 1 << (n.bit_length() // k + 1)
        while lo < hi:
            mid = (lo + hi) // 2
            if mid ** k < n:
                lo = mid + 1
            else:
                hi = mid
        return lo if lo ** k == n else None
    a, b = iroot(r.numerator), iroot(r.denominator)
    if a is None or b is None:
        return None
    return Fraction(a, b)


def q_pow(b, e):
    if e.im != 0:
        return None
    if e.re.denominator == 1:
        n = int(e.re)
        if b.is_zero():
            if n > 0:
                return GQ(0)
            if n == 0:
                return GQ(1)
            raise Undefined("0**negative")
        if abs(n) > 64 or max(abs(b.re.numerator), b.re.denominator, abs(b.im.numerator), b.im.denominator) > 10 ** 12:
            return None
        return b.pow(n)
    if b.im != 0:
        return None
    if b.re == 0:
        if e.re > 0:
            return GQ(0)
        raise Undefined("0**negative")
    p, k = e.re.numerator, e.re.denominator
    if abs(p) > 64 or k > 12:
        return None
    if b.re > 0:
        root = frac_root(b.re, k)
        return None if root is None else GQ(root).pow(p)
    if k == 2:
        root = frac_root(-b.re, 2)
        return None if root is None else GQ(0, root).pow(p)
    return None


def q_abs(z):
    if z.im == 0:
        return GQ(abs(z.re))
    r = frac_root(z.re * z.re + z.im * z.im, 2)
    return None if r is None else GQ(r)


def q_sign(z):
    if z.is_zero():
        return GQ(0)
    if z.im == 0:
        return GQ(1 if z.re > 0 else -1)
    r = q_abs(z)
    return None if r is None else z / r


def q_fun1(name, z):
    """exact value of a one-argument function at an exact point, None when it is not in Q(i)"""
    if name == "neg":
        return -z
    if name == "abs":
        return q_abs(z)
    if name == "sign":
        return q_sign(z)
    if name == "conjugate":
        return z.conj()
    if name in ("floor", "ceiling"):
        if z.im != 0:
            return None
        return GQ(math.floor(z.re) if name == "floor" else math.ceil(z.re))
    if name == "sqrt":
        return q_pow(z, GQ(Fraction(1, 2)))
    if name == "cbrt":
        return q_pow(z, GQ(Fraction(1, 3)))
    if name == "exp":
        return GQ(1) if z.is_zero() else None
    if name == "log":
        if z.is_zero():
            raise Undefined("log(0)")
        return GQ(0) if z == GQ(1) else None
    if name in ("sin", "tan", "sinh", "tanh", "asin", "atan", "asinh", "atanh"):
        return GQ(0) if z.is_zero() else None
    if name in ("cos", "cosh", "sec", "sech"):
        return GQ(1) if z.is_zero() else None
    if name in ("csc", "cot", "csch", "coth"):
        if z.is_zero():
            raise Undefined(name + "(0)")
        return None
    return None


NUM_LEAVES = ("integer", "rational", "complex", "Integer", "Rational", "Complex")
FLOAT_LEAVES = ("real_double", "complex_double", "RealDouble", "ComplexDouble", "RealMPFR", "ComplexMPC")
INF_LEAVES = ("Infty", "NaN", "oo", "noo", "zoo", "nan")


def _leaf_gq(d):
    t = d[0]
    if t in ("integer", "Integer"):
        return GQ(int(d[1]))
    if t in ("rational", "Rational"):
        return GQ(Fraction(int(d[1]), int(d[2])))
    a, b = _leaf_gq(d[1]), _leaf_gq(d[2])
    return GQ(a.re, b.re)


def reduce(d, xenv):
    """(node', q): node' = d with every exactly computable subtree (symbols bound in xenv: name -> GQ) replaced by
    a literal; q = the exact value of the whole node or None.  Works on recipes and raw dumps.  Raises Undefined
    when an exactly decided pole is met."""
    t = d[0]
    if t in NUM_LEAVES:
        return d, _leaf_gq(d)
    if t in FLOAT_LEAVES:
        return d, None
    if t in INF_LEAVES:
        raise Undefined("infinite_leaf")
    if t in ("symbol", "Symbol", "dummy", "Dummy"):
        q = xenv.get(d[1])
        return (d, None) if q is None else (gq_recipe(q), q)
    if t in ("constant", "Constant"):
        if d[1] == "I":
            return gq_recipe(GQ(0, 1)), GQ(0, 1)
        return d, None
    if t == "Add":
        c, cq = reduce(d[1], xenv)
        acc = cq
        pairs = []
        for term, coef in d[2]:
            tn, tq = reduce(term, xenv)
            kn, kq = reduce(coef, xenv)
            pairs.append([tn, kn])
            acc = None if (acc is None or tq is None or kq is None) else acc + tq * kq
        return (gq_recipe(acc), acc) if acc is not None else (["Add", c, pairs], None)
    if t == "Mul":
        c, cq = reduce(d[1], xenv)
        acc = cq
        pairs = []
        for base, ex in d[2]:
            bn, bq = reduce(base, xenv)
            en, eq_ = reduce(ex, xenv)
            pairs.append([bn, en])
            p = None if (bq is None or eq_ is None) else q_pow(bq, eq_)
            acc = None if (acc is None or p is None) else acc * p
        return (gq_recipe(acc), acc) if acc is not None else (["Mul", c, pairs], None)
    if t in ("Max", "Min", "max", "min"):
        items = d[1:] if t in ("Max", "Min") else d[1][1:]
        red = [reduce(x, xenv) for x in items]
        if all(q is not None and q.im == 0 for _, q in red):
            vals = [q.re for _, q in red]
            q = GQ(max(vals) if t in ("Max", "max") else min(vals))
            return gq_recipe(q), q
        nodes = [n for n, _ in red]
        return ([t] + nodes if t in ("Max", "Min") else [t, ["list"] + nodes]), None
    if t in ("add_vec", "mul_vec"):
        red = [reduce(x, xenv) for x in d[1][1:]]
        if all(q is not None for _, q in red):
            acc = GQ(0) if t == "add_vec" else GQ(1)
            for _, q in red:
                acc = acc + q if t == "add_vec" else acc * q
            return gq_recipe(acc), acc
        return [t, ["list"] + [n for n, _ in red]], None
    # generic node: children are the list-valued fields with a string head
    kids = [(i, reduce(x, xenv)) for i, x in enumerate(d) if i and isinstance(x, list) and x and isinstance(x[0], str)]
    new = list(d)
    for i, (n, _) in kids:
        new[i] = n
    qs = [q for _, (_, q) in kids]
    q = None
    if qs and all(x is not None for x in qs) and len(kids) == len(d) - 1:
        name = on.CLASS2NAME.get(t, t)
        if len(qs) == 2:
            a, b = qs
            if name == "add":
                q = a + b
            elif name == "sub":
                q = a - b
            elif name == "mul":
                q = a * b
            elif name == "div":
                if b.is_zero():
                    raise Undefined("division by zero")
                q = a / b
            elif name in ("pow", "Pow"):
                q = q_pow(a, b)
        elif len(qs) == 1:
            q = q_fun1(name, qs[0])
    if q is not None:
        return gq_recipe(q), q
    return new, None


def has_float(d):
    return on.has_float(d)


def numeric(node, nenv, margin=1e-15, cut_guard=True):
    """stable mpmath value (35/70 digits) of a reduced node; raises Unjudgeable"""
    mag = 100 if on.has_float(node) else 300
    return on.stable_value(node, nenv, margin=margin, cut_guard=cut_guard, mag=mag)


# ---------------------------------------------------------------------------------------------- class tracking
class Info:
    """what is known by construction about the value of a node: q exact value in Q(i) (or None);
    real: True / None;  alg, rat, irr: True / False / None  (rat: in Q; irr: in R \\ Q)"""
    __slots__ = ("node", "q", "real", "alg", "rat", "irr")

    def __init__(self, node, q=None, real=None, alg=None, rat=None, irr=None):
        self.node, self.q, self.real, self.alg, self.rat, self.irr = node, q, real, alg, rat, irr
        if q is not None:
            self.real = True if q.im == 0 else None
            self.alg = True
            self.rat = q.im == 0
            self.irr = False
        elif self.real and self.alg is False:
            self.rat, self.irr = False, True      # a real transcendental number is irrational
        if self.irr:
            self.rat = False
        if self.rat:
            self.irr = False


class Classifier:
    """bottom-up over a RECIPE at one assignment"""
    M = mpf(10) ** -20

    def __init__(self, assign):
        self.assign = assign
        self.xenv, self.nenv = split_env(assign)

    def num(self, info):
        try:
            return on.value(info.node, self.nenv, 50, None, 1e-15, True, 300)
        except Unjudgeable:
            return None

    def nonzero(self, info):
        if info.q is not None:
            return not info.q.is_zero()
        v = self.num(info)
        return v is not None and abs(v) > self.M

    def positive(self, info):
        if info.q is not None:
            return info.q.im == 0 and info.q.re > 0
        if not info.real:
            return False
        v = self.num(info)
        return v is not None and (v.real if isinstance(v, mpc) else v) > self.M

    def differs_from_one(self, info):
        if info.q is not None:
            return not (info.q == GQ(1))
        v = self.num(info)
        return v is not None and abs(v - 1) > self.M

    def run(self, d):
        node, q = reduce(d, self.xenv)
        if q is not None:
            return Info(node, q)
        t = d[0]
        if t == "symbol":
            v = self.assign.get(d[1])
            if v is None:
                return Info(node)
            if v[0] == "alg":
                return Info(node, real=True, alg=True, rat=False, irr=True)
            return Info(node, real=True, alg=False)
        if t == "constant":
            if d[1] in ("pi", "E"):
                return Info(node, real=True, alg=False)
            if d[1] == "GoldenRatio":
                return Info(node, real=True, alg=True, rat=False, irr=True)
            return Info(node, real=True)
        if t == "real_double":
            return Info(node, real=True)
        if t in ("complex_double",):
            return Info(node)
        if t in ("add", "sub"):
            a, b = self.run(d[1]), self.run(d[2])
            return self.add(node, a, b)
        if t == "mul":
            a, b = self.run(d[1]), self.run(d[2])
            return self.mul(node, a, b)
        if t == "div":
            a, b = self.run(d[1]), self.run(d[2])
            return self.mul(node, a, b)        # 1/b has the classes of b (b != 0 where the value exists)
        if t in ("add_vec", "mul_vec"):
            infos = [self.run(x) for x in d[1][1:]]
            acc = infos[0]
            for nxt in infos[1:]:
                acc = (self.add if t == "add_vec" else self.mul)(node, acc, nxt)
            acc.node = node
            return acc
        if t == "neg":
            a = self.run(d[1])
            return Info(node, None, a.real, a.alg, a.rat, a.irr)
        if t == "conjugate":
            a = self.run(d[1])
            return Info(node, None, a.real, a.alg, a.rat if a.real else None, a.irr if a.real else None)
        if t in ("pow", "sqrt", "cbrt"):
            b = self.run(d[1])
            e = self.run(d[2]) if t == "pow" else Info(None, GQ(Fraction(1, 2 if t == "sqrt" else 3)))
            return self.pow(node, b, e)
        if t == "exp":
            a = self.run(d[1])
            alg = False if (a.alg is True and self.nonzero(a)) else None
            return Info(node, real=a.real, alg=alg)
        if t == "log":
            a = self.run(d[1])
            alg = False if (a.alg is True and self.nonzero(a) and self.differs_from_one(a)) else None
            return Info(node, real=True if self.positive(a) else None, alg=alg)
        if t in ("sin", "cos", "tan", "sinh", "cosh", "tanh"):
            a = self.run(d[1])
            alg = False if (a.alg is True and self.nonzero(a)) else None
            return Info(node, real=a.real, alg=alg)
        if t == "abs":
            a = self.run(d[1])
            if a.real:
                return Info(node, None, True, a.alg, a.rat, a.irr)
            return Info(node, real=True, alg=True if a.alg is True else None)
        if t in ("sign", "floor", "ceiling"):
            a = self.run(d[1])
            if a.real:
                return Info(node, real=True, alg=True, rat=True, irr=False)
            return Info(node)
        if t in ("max", "min"):
            infos = [self.run(x) for x in d[1][1:]]
            return Info(node, real=True if all(i.real for i in infos) else None)
        for x in d[1:]:
            if isinstance(x, list) and x and isinstance(x[0], str) and x[0] != "list":
                self.run(x)
        return Info(node)

    @staticmethod
    def _alg_comb(a, b, nz_a=True, nz_b=True):
        if a.alg is True and b.alg is True:
            return True
        if a.alg is True and b.alg is False and nz_a:
            return False
        if a.alg is False and b.alg is True and nz_b:
            return False
        return None

    def add(self, node, a, b):
        real = True if (a.real and b.real) else None
        alg = self._alg_comb(a, b)
        rat = irr = None
        if real:
            if a.rat is True and b.rat is True:
                rat, irr = True, False
            elif (a.rat is True and b.irr is True) or (a.irr is True and b.rat is True):
                rat, irr = False, True
        return Info(node, None, real, alg, rat, irr)

    def mul(self, node, a, b):
        real = True if (a.real and b.real) else None
        alg = self._alg_comb(a, b, self.nonzero(a), self.nonzero(b))
        rat = irr = None
        if real:
            if a.rat is True and b.rat is True:
                rat, irr = True, False
            elif (a.rat is True and self.nonzero(a) and b.irr is True) or (a.irr is True and b.rat is True and self.nonzero(b)):
                rat, irr = False, True
        return Info(node, None, real, alg, rat, irr)

    def pow(self, node, b, e):
        if e.q is not None and e.q.im == 0 and e.q.re.denominator == 1:
            n = int(e.q.re)
            alg = True if b.alg is True else (False if (b.alg is False and n != 0) else None)
            rat = True if b.rat is True else None
            return Info(node, None, True if b.real else None, alg, rat, False if rat else None)
        if e.q is not None and e.q.im == 0:
            alg = True if b.alg is True else (False if b.alg is False else None)
            real = True if self.positive(b) else None
            rat = irr = None
            if b.q is not None and b.q.im == 0 and b.q.re > 0 and frac_root(b.q.re, e.q.re.denominator) is None:
                rat, irr = False, True       # r**(p/k), gcd(p,k)=1, r > 0 not a perfect k-th power: irrational
            return Info(node, None, real, alg, rat, irr)
        alg = None
        if b.node == ["constant", "E"] and e.alg is True and self.nonzero(e):
            alg = False                      # exp(nonzero algebraic) is transcendental
        real = True if (self.positive(b) and e.real) else None
        return Info(node, None, real, alg)


PROPS = ["zero", "positive", "negative", "nonnegative", "nonpositive", "integer", "real", "complex", "finite",
         "even", "odd", "rational", "irrational", "algebraic"]
FLOAT_OK = ("zero", "positive", "negative", "nonnegative", "nonpositive", "real", "complex", "finite")


def truth_table(info, v, m=None, floaty=False):
    """prop -> True / False / None (= not decidable here) for the finite value v (mpf/mpc, stable) whose
    construction classes are `info`.  m: numeric margin (1e-20 scaled); floaty: only the order / zero / real
    properties are decided (the library has rounded intermediate results to double)."""
    with mp.workdps(70):
        scale = max(1, abs(v))
        m = (mpf(10) ** -20 if m is None else mpf(m)) * scale
        re = v.real if isinstance(v, mpc) else v
        im = v.imag if isinstance(v, mpc) else mpf(0)
        q = None if floaty else info.q
        nonreal = abs(im) > m
        isreal = (q is not None and q.im == 0) or (bool(info.real) and not nonreal)
        if info.real and nonreal:
            raise Unjudgeable("oracle_inconsistent:class tracker says real, numeric value is not")
        if q is not None and abs(mpc(mpf(q.re.numerator) / q.re.denominator, mpf(q.im.numerator) / q.im.denominator) - v) > m:
            raise Unjudgeable("oracle_inconsistent:exact and numeric value disagree")
        T = {}
        if q is not None:
            rq = q.im == 0
            T["zero"] = q.is_zero()
            T["positive"] = rq and q.re > 0
            T["negative"] = rq and q.re < 0
            T["nonnegative"] = rq and q.re >= 0
            T["nonpositive"] = rq and q.re <= 0
            T["integer"] = rq and q.re.denominator == 1
            T["even"] = T["integer"] and int(q.re) % 2 == 0
            T["odd"] = T["integer"] and int(q.re) % 2 == 1
            T["real"] = rq
            T["rational"] = rq
            T["irrational"] = False
            T["algebraic"] = True
        else:
            T["zero"] = False if abs(v) > m else None
            for name, sgn in (("positive", 1), ("negative", -1)):
                if nonreal or sgn * re < -m:
                    T[name] = False
                elif isreal and sgn * re > m:
                    T[name] = True
                else:
                    T[name] = None
            for name, sgn in (("nonnegative", 1), ("nonpositive", -1)):
                if nonreal or sgn * re < -m:
                    T[name] = False
                elif isreal and sgn * re > m:
                    T[name] = True
                else:
                    T[name] = None
            T["real"] = False if nonreal else (True if isreal else None)
            if nonreal:
                T["integer"] = T["rational"] = T["irrational"] = False
            else:
                far = abs(re - mp.nint(re)) > m
                T["integer"] = False if (far or info.irr is True or info.rat is False) else None
                T["rational"] = info.rat if info.rat is not None else (False if info.irr is True else None)
                T["irrational"] = info.irr if info.irr is not None else (False if info.rat is True else None)
                if not isreal:
                    # not known to be real: only the negative verdicts above survive
                    T["rational"] = None if T["rational"] is True else T["rational"]
                    T["irrational"] = None if T["irrational"] is True else T["irrational"]
            T["even"] = False if T["integer"] is False else None
            T["odd"] = False if T["integer"] is False else None
            T["algebraic"] = info.alg
        T["complex"] = True
        T["finite"] = True
        if floaty:
            for k in list(T):
                if k not in FLOAT_OK:
                    T[k] = None
        return T


# query name -> (property, negated)
QUERIES = {
    "is_zero": ("zero", False), "is_nonzero": ("zero", True), "is_positive": ("positive", False),
    "is_negative": ("negative", False), "is_nonnegative": ("nonnegative", False), "is_nonpositive": ("nonpositive", False),
    "is_integer": ("integer", False), "is_real": ("real", False), "is_complex": ("complex", False),
    "is_finite": ("finite", False), "is_infinite": ("finite", True), "is_even": ("even", False), "is_odd": ("odd", False),
    "is_algebraic": ("algebraic", False), "is_transcendental": ("algebraic", True),
    "is_rational": ("rational", False), "is_irrational": ("irrational", False),
}
WITH_ASM = ["is_zero", "is_nonzero", "is_positive", "is_nonpositive", "is_negative", "is_nonnegative", "is_integer",
            "is_real", "is_complex", "is_finite", "is_infinite", "is_even", "is_odd", "is_algebraic", "is_transcendental"]
NO_ASM = ["is_rational", "is_irrational"]


def expected(query, T):
    """the truth of the queried property at the assignment: True / False / None"""
    prop, neg = QUERIES[query]
    t = T.get(prop)
    if t is None:
        return None
    return (not t) if neg else t


# ---------------------------------------------------------------------------------------------- polynomials
def _dump_has_var(d, V):
    if not isinstance(d, list) or not d:
        return False
    if d[0] == "Symbol":
        return (not V) or d[1] in V
    return any(_dump_has_var(x, V) for x in (d[1:] if isinstance(d[0], str) else d) if isinstance(x, list))


def dump_poly(d, V):
    """is the raw dump a polynomial in the variables V (all symbols when V is empty): sums / products /
    positive integer powers of polynomials, with variable-free coefficients of any shape"""
    if not _dump_has_var(d, V):
        return True
    t = d[0]
    if t == "Symbol":
        return True
    if t == "Add":
        return all(dump_poly(term, V) for term, _ in d[2])
    if t == "Mul":
        return all(_pow_ok(b, e, V) for b, e in d[2])
    if t == "Pow":
        return _pow_ok(d[1], d[2], V)
    return False


def _pow_ok(b, e, V):
    if _dump_has_var(e, V):
        return False
    if not _dump_has_var(b, V):
        return True
    return e[0] == "Integer" and int(e[1]) > 0 and dump_poly(b, V)


def _rec_has_var(r, V):
    if not isinstance(r, list) or not r:
        return False
    if r[0] == "symbol":
        return (not V) or r[1] in V
    return any(_rec_has_var(x, V) for x in (r[1:] if isinstance(r[0], str) else r) if isinstance(x, list))


def recipe_poly(r, V):
    """sufficient syntactic condition on the RECIPE: built from variable-free parts and variables by add sub neg
    mul, division by variable-free parts and positive integer powers (canonicalisation keeps such a recipe
    polynomial, so is_polynomial must answer true)"""
    if not _rec_has_var(r, V):
        return True
    h = r[0]
    if h == "symbol":
        return True
    if h in ("add", "sub", "mul"):
        return recipe_poly(r[1], V) and recipe_poly(r[2], V)
    if h == "neg":
        return recipe_poly(r[1], V)
    if h in ("add_vec", "mul_vec"):
        return all(recipe_poly(x, V) for x in r[1][1:])
    if h == "div":
        return recipe_poly(r[1], V) and not _rec_has_var(r[2], V)
    if h == "pow":
        return r[2][0] == "integer" and r[2][1] > 0 and recipe_poly(r[1], V)
    return False


def dump_has(d, heads):
    if isinstance(d, list) and d:
        if isinstance(d[0], str) and d[0] in heads:
            return True
        return any(dump_has(x, heads) for x in d[1:] if isinstance(x, list)) or \
            (isinstance(d[0], list) and any(dump_has(x, heads) for x in d))
    return False


# ---------------------------------------------------------------------------------------------- known findings (dev aid)
def activate_extra_findings(chk):
    """development aid: VERIF_EXTRA_FINDINGS=<json list of finding entries> activates the 'known' entries of this
    property whose reproducer still fails, exactly like engine.main does for known_findings.json (used before the
    entries are merged there; does nothing when the variable is unset)"""
    path = os.environ.get("VERIF_EXTRA_FINDINGS")
    if not path or getattr(chk, "_extra_done", False):
        return
    chk._extra_done = True
    with open(path) as f:
        entries = json.load(f)
    saved = list(chk.active_matchers)
    add = []
    for kf in entries:
        if kf.get("property") != chk.pid or kf.get("status") != "known":
            continue
        if any(n == kf["matcher"] for _, n in saved):
            continue
        with open(os.path.join(engine.VERIF, kf["reproducer"])) as f:
            rp = json.load(f)
        chk.active_matchers = []
        try:
            chk.guarded(rp["case"])
        except engine.Violation:
            add.append((kf["id"], kf["matcher"]))
    chk.active_matchers = saved + add
    chk.evals = 0
    chk.classes, chk.skipped, chk.samples = {}, {}, []
    chk.nontrivial = set()
    chk.nsamp = 0
