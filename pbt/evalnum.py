"""Helpers shared by C12 (eval_double family) and C13 (lambda double visitors).

* fvalue / repair: a cheap float evaluator over *recipes* and a deterministic
  "domain repair" pass that rewrites an arbitrary generated tree into one whose
  every function argument lies inside the function's domain for the evaluator
  under test (DESIGN 3.2: construct, don't filter).
* NodeEval / reference: high-precision value of a dump or recipe together with a
  first-order forward-error bound for an evaluator that rounds the value of
  *every* node to double (DESIGN 3.3): E = sum over rounding points t of
  |d result / d log v_t|, obtained by perturbing one value at a time by
  (1 +- 2^-30) and re-evaluating the path to the root.  kappa = E / |result|.
  Rounding points: every interior node, every leaf that is not an exactly
  representable double (constants, most rationals, big integers), every summand
  of an Add (partial sums), the argument of the reciprocal inverse functions
  (f(1/x)), and e*log(b) inside a complex pow.
"""
import cmath
import math
from fractions import Fraction

import mpmath
from mpmath import mp, mpf, mpc

from . import oracle_num as on
from .oracle_num import Unjudgeable

def weighted(pairs):
    """[(weight, strategy)] -> strategy.  Hypothesis de-duplicates identical strategy objects inside
    one_of, so every repetition is a distinct (identity-mapped) object."""
    from hypothesis import strategies as st
    pool = []
    for w, s in pairs:
        pool.append(s)
        pool += [s.map(lambda v: v) for _ in range(w - 1)]
    return st.one_of(pool)


# ----------------------------------------------------------------------------
# branch cuts of the functions as the library's complex evaluators compute them
# (std::complex principal branches; the reciprocal functions are f(1/z))
_RECIP = {"asec": "acos", "acsc": "asin", "acoth": "atanh", "asech": "acosh", "acsch": "asinh", "acot": "atan"}


def on_cut(name, z, tol):
    """is the complex value z within (relative) tol of a branch cut / branch point / pole of `name`"""
    if name in _RECIP:
        if abs(z) < tol:
            return True
        return on_cut(_RECIP[name], 1 / z, tol)
    re, im = (z.real, z.imag)
    s = tol * max(1, abs(z))
    if name in ("log", "sqrt", "cbrt", "powbase"):
        return abs(im) <= s and re <= s
    if name in ("asin", "acos", "atanh"):
        return abs(im) <= s and abs(re) >= 1 - s
    if name == "acosh":
        return abs(im) <= s and re <= 1 + s
    if name in ("atan", "asinh"):
        return abs(re) <= s and abs(im) >= 1 - s
    return False


CUT_FUNCS = ("log", "sqrt", "cbrt", "asin", "acos", "atanh", "acosh", "atan", "asinh") + tuple(_RECIP)

# ----------------------------------------------------------------------------
# float evaluator over recipes (generation time only; never used as an oracle)


class _Bad(Exception):
    pass


def _c(x):
    return x if isinstance(x, complex) else complex(x, 0.0)


def _mk(fr, fc):
    def f(x):
        try:
            if isinstance(x, complex):
                return fc(x)
            return fr(x)
        except (ValueError, OverflowError, ZeroDivisionError):
            raise _Bad()
    return f


def _cgamma(z):
    try:
        return complex(mpmath.gamma(z))
    except Exception:
        raise _Bad()


def _lgamma(x):
    if x <= 0:
        raise _Bad()
    return math.lgamma(x)


def _rgamma(x):
    if x <= 0 and x == math.floor(x):
        raise _Bad()
    return math.gamma(x)


_F1 = {
    "sin": _mk(math.sin, cmath.sin), "cos": _mk(math.cos, cmath.cos), "tan": _mk(math.tan, cmath.tan),
    "cot": _mk(lambda x: 1 / math.tan(x), lambda x: 1 / cmath.tan(x)),
    "csc": _mk(lambda x: 1 / math.sin(x), lambda x: 1 / cmath.sin(x)),
    "sec": _mk(lambda x: 1 / math.cos(x), lambda x: 1 / cmath.cos(x)),
    "asin": _mk(math.asin, cmath.asin), "acos": _mk(math.acos, cmath.acos), "atan": _mk(math.atan, cmath.atan),
    "acot": _mk(lambda x: math.atan(1 / x), lambda x: cmath.atan(1 / x)),
    "asec": _mk(lambda x: math.acos(1 / x), lambda x: cmath.acos(1 / x)),
    "acsc": _mk(lambda x: math.asin(1 / x), lambda x: cmath.asin(1 / x)),
    "sinh": _mk(math.sinh, cmath.sinh), "cosh": _mk(math.cosh, cmath.cosh), "tanh": _mk(math.tanh, cmath.tanh),
    "coth": _mk(lambda x: 1 / math.tanh(x), lambda x: 1 / cmath.tanh(x)),
    "csch": _mk(lambda x: 1 / math.sinh(x), lambda x: 1 / cmath.sinh(x)),
    "sech": _mk(lambda x: 1 / math.cosh(x), lambda x: 1 / cmath.cosh(x)),
    "asinh": _mk(math.asinh, cmath.asinh), "acosh": _mk(math.acosh, cmath.acosh), "atanh": _mk(math.atanh, cmath.atanh),
    "acoth": _mk(lambda x: math.atanh(1 / x), lambda x: cmath.atanh(1 / x)),
    "asech": _mk(lambda x: math.acosh(1 / x), lambda x: cmath.acosh(1 / x)),
    "acsch": _mk(lambda x: math.asinh(1 / x), lambda x: cmath.asinh(1 / x)),
    "log": _mk(math.log, cmath.log), "exp": _mk(math.exp, cmath.exp),
    "sqrt": _mk(math.sqrt, cmath.sqrt),
    "cbrt": _mk(lambda x: math.pow(x, 1 / 3), lambda x: cmath.exp(cmath.log(x) / 3)),
    "abs": _mk(abs, abs), "neg": _mk(lambda x: -x, lambda x: -x),
    "gamma": _mk(_rgamma, _cgamma), "loggamma": _mk(_lgamma, None),
    "erf": _mk(math.erf, None), "erfc": _mk(math.erfc, None),
    "sign": _mk(lambda x: (x > 0) - (x < 0), None), "floor": _mk(math.floor, None),
    "ceiling": _mk(math.ceil, None), "truncate": _mk(math.trunc, None),
    "unevaluated_expr": _mk(lambda x: x, lambda x: x),
}
_CONST = {"pi": math.pi, "E": math.e, "EulerGamma": 0.5772156649015329, "Catalan": 0.915965594177219,
          "GoldenRatio": 1.618033988749895, "I": 1j}
_RELS = {"Eq": lambda a, b: a == b, "Ne": lambda a, b: a != b, "Lt": lambda a, b: a < b, "Le": lambda a, b: a <= b,
         "Gt": lambda a, b: a > b, "Ge": lambda a, b: a >= b}
BOOL_HEADS = tuple(_RELS) + ("true", "false", "and", "or", "xor", "not", "contains")


def _fpow(b, e):
    try:
        if isinstance(b, complex) or isinstance(e, complex):
            b, e = _c(b), _c(e)
            if b == 0:
                raise _Bad()
            if e.imag == 0 and e.real == int(e.real) and abs(e.real) <= 64:
                return b ** int(e.real)
            return cmath.exp(e * cmath.log(b))
        if b == 0 and e <= 0:
            raise _Bad()
        r = math.pow(b, e)
        return r
    except (ValueError, OverflowError, ZeroDivisionError):
        raise _Bad()


def fvalue(d, env=None):
    """float/complex value of a recipe; raises _Bad outside the domain.  Booleans -> True/False"""
    t = d[0]
    if t == "integer":
        return float(d[1])
    if t == "rational":
        return d[1] / d[2]
    if t == "real_double":
        return float(d[1])
    if t == "complex":
        return complex(fvalue(d[1]), fvalue(d[2]))
    if t == "complex_double":
        return complex(d[1], d[2])
    if t == "constant":
        return _CONST[d[1]]
    if t == "symbol":
        return env[d[1]]
    if t in ("oo", "noo"):
        return math.inf if t == "oo" else -math.inf
    try:
        if t in _F1:
            return _F1[t](fvalue(d[1], env))
        if t in ("add", "sub", "mul", "div"):
            a, b = fvalue(d[1], env), fvalue(d[2], env)
            return a + b if t == "add" else a - b if t == "sub" else a * b if t == "mul" else a / b
        if t == "pow":
            return _fpow(fvalue(d[1], env), fvalue(d[2], env))
        if t == "atan2":
            y, x = fvalue(d[1], env), fvalue(d[2], env)
            if x == 0 and y == 0:
                raise _Bad()
            return math.atan2(y, x)
        if t in ("add_vec", "mul_vec"):
            acc = 0.0 if t == "add_vec" else 1.0
            for x in d[1][1:]:
                v = fvalue(x, env)
                acc = acc + v if t == "add_vec" else acc * v
            return acc
        if t in ("max", "min"):
            vs = [fvalue(x, env) for x in d[1][1:]]
            return max(vs) if t == "max" else min(vs)
        if t == "piecewise":
            for p in d[1][1:]:
                if fvalue(p[2], env):
                    return fvalue(p[1], env)
            raise _Bad()
        if t in _RELS:
            return _RELS[t](fvalue(d[1], env), fvalue(d[2], env))
        if t == "true":
            return True
        if t == "false":
            return False
        if t == "and":
            return all(bool(fvalue(x, env)) for x in d[1][1:])
        if t == "or":
            return any(bool(fvalue(x, env)) for x in d[1][1:])
        if t == "xor":
            return sum(1 for x in d[1][1:] if fvalue(x, env)) % 2 == 1
        if t == "not":
            return not fvalue(d[1], env)
        if t == "contains":
            v = fvalue(d[1], env)
            s = d[2]
            lo, hi = fvalue(s[1], env), fvalue(s[2], env)
            lopen = bool(s[3]) if len(s) > 3 else False
            ropen = bool(s[4]) if len(s) > 4 else False
            return (lo < v or (lo == v and not lopen)) and (v < hi or (v == hi and not ropen))
    except (TypeError, ValueError, OverflowError, ZeroDivisionError):
        raise _Bad()
    raise _Bad()


def _ok(v, lo=1e-9, hi=1e7):
    if isinstance(v, bool):
        return True
    if isinstance(v, complex):
        if v != v or math.isinf(v.real) or math.isinf(v.imag):
            return False
        a = abs(v)
    else:
        if v != v or math.isinf(v):
            return False
        a = abs(v)
    return a == 0 or lo <= a <= hi


THIRD = ["rational", 1, 3]


def _shift(x):
    """x -> |x| + 1/3   (a strictly positive quantity that keeps x as a sub-tree)"""
    return ["add", ["abs", x], THIRD]


# real-domain repair of the single argument of a unary function, given the argument's float value
def _fix_real(name, arg, v):
    if name in ("sqrt", "cbrt", "log"):
        return arg if v > 1e-6 else _shift(arg)
    if name in ("asin", "acos"):
        return arg if abs(v) <= 1 else ["sin", arg]
    if name == "atanh":
        return arg if abs(v) <= 0.999 else ["mul", ["rational", 9, 10], ["sin", arg]]
    if name in ("asec", "acsc"):
        return arg if abs(v) >= 1 else ["cosh", ["atan", arg]]
    if name == "acoth":
        return arg if 1.001 <= abs(v) else ["add", ["cosh", ["atan", arg]], ["rational", 1, 7]]
    if name == "acosh":
        return arg if v >= 1 else ["cosh", ["atan", arg]]
    if name == "asech":
        return arg if 1e-6 < v <= 1 else ["sech", ["atan", arg]]
    if name in ("acsch", "acot", "coth", "csch", "cot", "csc"):
        return arg if abs(v) >= 1e-3 else _shift(arg)
    if name in ("exp", "sinh", "cosh"):
        return arg if abs(v) <= 12 else ["mul", ["integer", 4], ["atan", arg]]
    if name == "gamma":
        if 0.05 <= v <= 12 or (-12 <= v < 0 and abs(v - round(v)) > 0.05):
            return arg
        return ["add", ["mul", ["integer", 4], ["abs", ["atan", arg]]], ["rational", 1, 4]]
    if name == "loggamma":
        if 0.05 <= v <= 1e4:
            return arg
        return ["add", ["mul", ["integer", 4], ["abs", ["atan", arg]]], ["rational", 1, 4]]
    if name in ("erf", "erfc"):
        return arg if abs(v) <= 4 else ["mul", ["integer", 2], ["atan", arg]]
    return arg


def _fix_complex(name, arg, v):
    v = _c(v)
    if name in CUT_FUNCS and on_cut(name, v, 1e-3):
        # move off the axis by a fixed generic offset
        return ["add", arg, ["complex", ["rational", 2, 7], ["rational", 3, 5]]]
    if name in ("coth", "csch", "cot", "csc") and abs(v) < 1e-3:
        return ["add", arg, ["complex", ["rational", 2, 7], ["rational", 3, 5]]]
    if name in ("exp", "sinh", "cosh", "sin", "cos", "tan", "sec", "csc", "cot", "tanh", "coth", "sech", "csch") \
            and (abs(v.real) > 12 or abs(v.imag) > 12):
        return ["atan", ["add", arg, ["complex", ["rational", 2, 7], ["rational", 3, 5]]]]
    return arg


def is_int_literal(e):
    return e[0] == "integer" and abs(e[1]) <= 8


def repair(d, cmode=False, env=None, lam=False):
    """returns (recipe', value) where recipe' is d with arguments moved into the evaluators' domain.
    cmode: complex evaluator (no real-domain restrictions; stay off branch cuts and poles).
    env: float values of symbols (C13).  lam: the lambda visitors' node list (sign/floor/... allowed)"""
    t = d[0]
    if t in ("integer", "rational", "real_double", "complex", "complex_double", "constant", "symbol", "true", "false",
             "oo", "noo"):
        return d, fvalue(d, env)
    fix = _fix_complex if cmode else _fix_real

    def fin(node, fallback):
        """value of node; if it is out of range replace it by something tame"""
        try:
            v = fvalue(node, env)
            if _ok(v):
                return node, v
            if not isinstance(v, bool) and v == v and not (isinstance(v, float) and math.isinf(v)) \
                    and not (isinstance(v, complex) and (math.isinf(v.real) or math.isinf(v.imag))):
                if abs(v) > 1:
                    n2 = ["atan", node]
                else:
                    n2 = ["add", node, THIRD]
                v2 = fvalue(n2, env)
                if _ok(v2):
                    return n2, v2
        except _Bad:
            pass
        return fallback

    if t in _F1:
        a, va = repair(d[1], cmode, env, lam)
        if isinstance(va, bool):
            a, va = ["integer", 1 if va else 0], float(va)
        a = fix(t, a, va)
        return fin([t, a], (a, fvalue(a, env)))
    if t in ("add", "sub", "mul", "div", "pow", "atan2") or t in _RELS:
        a, va = repair(d[1], cmode, env, lam)
        b, vb = repair(d[2], cmode, env, lam)
        if isinstance(va, bool):
            a, va = ["integer", 1 if va else 0], float(va)
        if isinstance(vb, bool):
            b, vb = ["integer", 1 if vb else 0], float(vb)
        if t == "div" and abs(vb) < 1e-3:
            b = ["add", b, ["complex", ["rational", 2, 7], ["rational", 3, 5]]] if cmode else _shift(b)
            vb = fvalue(b, env)
        if t == "pow":
            if not is_int_literal(b):
                if cmode:
                    if on_cut("powbase", _c(va), 1e-3):
                        a = ["add", a, ["complex", ["rational", 2, 7], ["rational", 3, 5]]]
                elif va <= 1e-6:
                    a = _shift(a)
                va = fvalue(a, env)
                if abs(vb) > 6:
                    b = ["mul", ["integer", 2], ["atan", b]]
                    vb = fvalue(b, env)
            elif abs(va) < 1e-3:
                a = ["add", a, ["complex", ["rational", 2, 7], ["rational", 3, 5]]] if cmode else _shift(a)
                va = fvalue(a, env)
            try:
                v = _fpow(va, vb)
                if not _ok(v):
                    raise _Bad()
            except _Bad:
                # tame the base: |atan| < pi/2 (+1/3 keeps it positive in real mode)
                a = ["atan", a] if (cmode or is_int_literal(b)) else _shift(["atan", a])
        if t == "atan2":
            if cmode:
                return a, va
            if abs(va) < 1e-6 and abs(vb) < 1e-6:
                b = _shift(b)
            elif vb < 0 and abs(va) <= 1e-6 * abs(vb):
                a = _shift(a)     # off the cut y = +-0, x < 0
        if t in _RELS and cmode:
            return a, va
        return fin([t, a, b], (a, va))
    if t in ("add_vec", "mul_vec", "max", "min"):
        items = []
        for x in d[1][1:]:
            a, va = repair(x, cmode, env, lam)
            if isinstance(va, bool):
                a, va = ["integer", 1 if va else 0], float(va)
            items.append((a, va))
        if cmode and t in ("max", "min"):
            return items[0]
        return fin([t, ["list"] + [a for a, _ in items]], items[0])
    if t == "piecewise":
        pairs = []
        first = None
        for p in d[1][1:]:
            e, ve = repair(p[1], cmode, env, lam)
            if isinstance(ve, bool):
                e, ve = ["integer", 1 if ve else 0], float(ve)
            c, vc = repair(p[2], cmode, env, lam)
            if not isinstance(vc, bool):
                c, vc = ["Lt", c, ["integer", 0]], bool(vc < 0)
            if first is None:
                first = (e, ve)
            pairs.append(["list", e, c])
        if cmode:
            return first
        return fin(["piecewise", ["list"] + pairs], first)
    if t in ("and", "or", "xor"):
        items = []
        for x in d[1][1:]:
            c, vc = repair(x, cmode, env, lam)
            if not isinstance(vc, bool):
                c, vc = ["Lt", c, ["integer", 0]], bool(vc < 0)
            items.append(c)
        n = [t, ["list"] + items]
        return n, fvalue(n, env)
    if t == "not":
        c, vc = repair(d[1], cmode, env, lam)
        if not isinstance(vc, bool):
            c, vc = ["Lt", c, ["integer", 0]], bool(vc < 0)
        return ["not", c], not vc
    if t == "contains":
        e, ve = repair(d[1], cmode, env, lam)
        if isinstance(ve, bool):
            e, ve = ["integer", 1 if ve else 0], float(ve)
        n = ["contains", e, d[2]]
        return n, fvalue(n, env)
    raise ValueError("repair: unknown head %r" % (t,))


def _has_symbol(d):
    if isinstance(d, list):
        if d and d[0] in ("symbol", "Symbol"):
            return True
        return any(_has_symbol(x) for x in d)
    return False


def gamma_half_integer_risk(d):
    """known crasher (C08/C40 finding, functions.cpp gamma_multiple_2: `int` product of odd numbers overflows
    from gamma(23/2) on): does the recipe apply gamma/loggamma to a symbol-free argument whose value is a
    half-integer of magnitude >= 10?  Such recipes are not sent to the driver (DESIGN section 4, item 4)."""
    if not isinstance(d, list) or not d:
        return False
    if d[0] in ("gamma", "loggamma") and not _has_symbol(d[1]):
        try:
            v = fvalue(d[1])
            if not isinstance(v, (bool, complex)) and abs(v) >= 10 and abs(2 * v - round(2 * v)) < 1e-9 \
                    and round(2 * v) % 2 == 1:
                return True
        except _Bad:
            pass
    return any(gamma_half_integer_risk(x) for x in d[1:])


# ----------------------------------------------------------------------------
# high-precision reference with per-node perturbation


class NodeEval(on.Evaluator):
    """Evaluator whose value() can (a) memoise node values by object identity, (b) perturb the value of
    one chosen node, (c) in real mode reject non-real node values, in complex mode reject arguments on
    branch cuts.  Every call of value() is a 'node' (what a machine evaluator rounds)."""

    def __init__(self, env=None, margin=None, cmode=False, cut_tol=None):
        on.Evaluator.__init__(self, env, None, margin, False, None)
        self.cmode = cmode
        self.cut_tol = cut_tol if cut_tol is not None else mpf(10) ** -9
        self.cache = {}
        self.order = []
        self.dirty = None
        self.target = None
        self.factor = None
        self.extra = {}      # pseudo nodes: key -> base value
        self.touched = None  # during a perturbation: id -> recomputed value of every node above the target

    # -- node hook
    def value(self, d):
        k = id(d)
        if self.dirty is None:
            v = self._node(d)
            if k not in self.cache:
                self.order.append(k)
            self.cache[k] = v
            return v
        if k == self.target:
            return self.cache[k] * self.factor
        if k not in self.dirty and k in self.cache:
            return self.cache[k]
        v = self._node(d)
        if self.touched is not None:
            self.touched[k] = v
        return v

    def _node(self, d):
        if d[0] in ("sqrt", "cbrt"):
            # recipe shorthand; no temporary exponent node (object identities must stay unique)
            v = self._powvals(self.value(d[1]), mpf(1) / (2 if d[0] == "sqrt" else 3), ("w", id(d[1]), id(d)))
        elif d[0] in ("ATan2", "atan2"):
            # atan2(+-0, x<0) = +-pi: the sign of a zero decides; stay off the cut
            y, x = self.value(d[1]), self.value(d[2])
            yr, xr = on._real(y, "atan2"), on._real(x, "atan2")
            if xr <= 0 and abs(yr) <= mpf(10) ** -9 * max(abs(xr), 1):
                raise Unjudgeable("on_branch_cut:atan2")
            v = on._guard_pole(on._atan2, "atan2")(yr, xr)
        elif d[0] == "Add":
            # dump Add = coef + sum coef_i*term_i; the evaluator adds the (rounded) products one by one in
            # an unspecified order, so every summand is a rounding point of magnitude |summand| even when
            # it is an exactly representable leaf (partial sums are rounded)
            acc = self.value(d[1])
            if acc != 0:
                acc = self.pseudo(("s", id(d[1])), acc)
            for pair in d[2]:
                acc = acc + self.pseudo(("s", id(pair)), self.value(pair[1]) * self.value(pair[0]))
            v = on._chk(acc, "Add")
        else:
            v = self._value(d)
        if isinstance(v, bool):
            return v
        if not self.cmode and isinstance(v, mpc):
            if v.imag != 0:
                raise Unjudgeable("non_real_in_real_context:" + str(d[0]))
            v = v.real
        return v

    def pseudo(self, key, v):
        """an internal rounding point that is not a tree node (complex pow = exp(e*log b))"""
        if self.dirty is None:
            if key not in self.extra:
                self.order.append(key)
            self.extra[key] = v
            return v
        if key == self.target:
            return v * self.factor
        return v

    # -- guards
    def call1(self, name, x, *rest, **kw):
        if self.cmode:
            if name in CUT_FUNCS and on_cut(name, mpc(x), self.cut_tol):
                raise Unjudgeable("on_branch_cut:" + name)
            if name in ("sign", "floor", "ceiling", "truncate", "erf", "erfc", "gamma", "loggamma"):
                raise Unjudgeable("not_in_complex_visitor:" + name)
        else:
            if name in ("acsch", "acot", "acoth", "asec", "acsc", "asech") and x == 0:
                raise Unjudgeable("pole:" + name)
        return on.Evaluator.call1(self, name, x, *rest, **kw)

    def powv(self, bnode, enode):
        return self._powvals(self.value(bnode), self.value(enode), ("w", id(bnode), id(enode)))

    def _powvals(self, b, e, key):
        if not self.cmode:
            return on._guard_pole(on._pow, "pow")(b, e)
        # std::pow(complex, complex) = exp(e * log(b)); the product e*log(b) is an internal rounding point
        b = mpc(b)
        if b == 0:
            raise Unjudgeable("pole:0**z")
        if on_cut("powbase", b, self.cut_tol):
            integral = (mpc(e).imag == 0 and mpc(e).real == mp.nint(mpc(e).real))
            if not integral:
                raise Unjudgeable("on_branch_cut:pow")
        er = mpc(e).real
        if abs(er * mp.log(abs(b), 2)) > 3.7 * on._MAG[0] or abs(e) > 10 ** 7:
            raise Unjudgeable("overflow:pow")
        w = self.pseudo(key, e * mp.log(b))
        return on._chk(mp.exp(w), "pow")


def _parents(root):
    """(parent ids by child id, list object by id) over all lists of the tree"""
    par = {}
    nodes = {id(root): root}
    stack = [root]
    seen = set()
    while stack:
        n = stack.pop()
        if id(n) in seen:
            continue
        seen.add(id(n))
        for x in n:
            if isinstance(x, list):
                par.setdefault(id(x), []).append(id(n))
                nodes[id(x)] = x
                stack.append(x)
    return par, nodes


RECIP_INV_HEADS = ("ASec", "ACsc", "ACot", "ACoth", "ASech", "ACsch", "asec", "acsc", "acot", "acoth", "asech", "acsch")


DISCONT_HEADS = ("Equality", "Unequality", "LessThan", "StrictLessThan", "Max", "Min", "Sign", "Floor", "Ceiling",
                 "Truncate", "ATan2", "Contains")


def exact_leaf(d):
    """is the node a leaf whose value the evaluators obtain without rounding (exactly representable double)"""
    t = d[0]
    try:
        if t in ("Integer", "integer"):
            n = int(d[1])
            return abs(n) < 2 ** 1000 and int(float(n)) == n
        if t in ("Rational", "rational"):
            p, q = int(d[1]), int(d[2])
            return Fraction(p / q) == Fraction(p, q)
        if t in ("RealDouble", "real_double", "ComplexDouble", "complex_double", "Symbol", "symbol"):
            return True
        if t in ("Complex", "complex"):
            return exact_leaf(d[1]) and exact_leaf(d[2])
    except (OverflowError, ValueError, ZeroDivisionError):
        return False
    return False


def _ancestors(par, k):
    out = set()
    stack = [k]
    while stack:
        n = stack.pop()
        for p in par.get(n, ()):
            if p not in out:
                out.add(p)
                stack.append(p)
    return out


DELTA_BITS = 30


class Ref:
    """reference value + first-order error mass of a node-wise rounding evaluator"""
    __slots__ = ("value", "E", "kappa", "nodes")

    def tol_abs(self, ulps=64):
        return ulps * mpf(2) ** -53 * self.E


def reference(node, env=None, cmode=False, margin=1e-9, dps=50, mag=280, kappa_max=1e4, two_sided=True):
    """Ref for `node` (dump or recipe).  Raises Unjudgeable (ill_conditioned, near_kink, pole...)"""
    old = on._MAG[0]
    on._MAG[0] = mag
    try:
        with mp.workdps(dps):
            ev = NodeEval(on.env_mp(env), mpf(margin) if margin is not None else None, cmode)
            base = ev.value(node)
            if isinstance(base, bool):
                base = mpf(1) if base else mpf(0)
            par, nodes = _parents(node)
            delta = mpf(2) ** -DELTA_BITS
            E = mpf(0)
            Enode = {}          # id -> first-order error mass of that node's own value
            root = id(node)
            ev.dirty = set()
            for k in ev.order:
                if isinstance(k, tuple):
                    # pseudo node: recompute everything above its owner (the pow node = parent of the base node)
                    dirty = _ancestors(par, k[1])
                    b0 = ev.extra[k]
                else:
                    b0 = ev.cache[k]
                    if isinstance(b0, bool):
                        continue
                    nd = nodes.get(k)
                    if k != root and nd is not None and exact_leaf(nd) and not any(
                            isinstance(nodes[q][0], str) and nodes[q][0] in RECIP_INV_HEADS for q in par.get(k, ())):
                        continue
                    dirty = _ancestors(par, k)
                if b0 == 0:
                    continue
                worst = mpf(0)
                local = {}
                for sgn in ((1, -1) if two_sided else (1,)):
                    ev.dirty = dirty
                    ev.target = k
                    ev.factor = 1 + sgn * delta
                    ev.touched = {}
                    try:
                        v = ev.value(node) if k != root else b0 * ev.factor
                    except Unjudgeable as u:
                        raise Unjudgeable("ill_conditioned:perturbation_hits_" + u.reason.split(":")[0])
                    if isinstance(v, bool):
                        v = mpf(1) if v else mpf(0)
                    worst = max(worst, abs(v - base))
                    for q, vq in ev.touched.items():
                        c0 = ev.cache.get(q)
                        if c0 is None or isinstance(vq, bool) or isinstance(c0, bool):
                            continue
                        local[q] = max(local.get(q, mpf(0)), abs(vq - c0))
                ev.touched = None
                E += worst / delta
                for q, dq in local.items():
                    Enode[q] = Enode.get(q, mpf(0)) + dq / delta
                if not isinstance(k, tuple):
                    Enode[k] = Enode.get(k, mpf(0)) + abs(b0)
            # a discontinuous consumer (relational, max/min, sign/floor/..., atan2, contains) is only judged when
            # the uncertainty 64u*E_a of each of its inputs is far below the kink margin (the kink guards of the
            # evaluator assume accurate inputs; e.g. cos(2**63+1) as an input of atan2(., 0) is pure noise)
            lim = (mpf(margin) if margin is not None else mpf(10) ** -9) / (1024 * mpf(2) ** -53)
            for q, eq_ in Enode.items():
                if eq_ > lim and any(isinstance(nodes[w][0], str) and nodes[w][0] in DISCONT_HEADS
                                     for w in par.get(q, ()) if w in nodes):
                    raise Unjudgeable("ill_conditioned:uncertain_input_of_discontinuous_node")
            # every node's own value must be well-conditioned: the single-point finite differences (step 2^-30)
            # are only a valid first-order model while no intermediate value is already noise at that scale
            # (cos(2**64+1) is; a bounded downstream function such as atan would hide it from E)
            for q, eq_ in Enode.items():
                vq = ev.cache.get(q)
                if vq is None or isinstance(vq, bool):
                    continue
                if eq_ > kappa_max * max(abs(vq), mpf(10) ** -3):
                    raise Unjudgeable("ill_conditioned:intermediate_node")
            r = Ref()
            r.value = +base
            r.E = +E
            r.nodes = len(ev.order)
            if base != 0:
                r.kappa = E / abs(base)
                if r.kappa > kappa_max:
                    raise Unjudgeable("ill_conditioned")
            else:
                r.kappa = mpf(0)
                if E != 0:
                    raise Unjudgeable("zero_result_nonzero_sensitivity")
            return r
    finally:
        on._MAG[0] = old


def plain_value(node, env=None, cmode=False, margin=None, dps=70, mag=280):
    """value by NodeEval (same guards as reference) without perturbation"""
    old = on._MAG[0]
    on._MAG[0] = mag
    try:
        with mp.workdps(dps):
            v = NodeEval(on.env_mp(env), mpf(margin) if margin is not None else None, cmode).value(node)
            if isinstance(v, bool):
                v = mpf(1) if v else mpf(0)
            return +v
    finally:
        on._MAG[0] = old


def stable_reference(node, env=None, cmode=False, margin=1e-9, mag=280, kappa_max=1e4):
    """reference() at 50 digits cross-checked against a 70-digit value (DESIGN 3.3)"""
    r = reference(node, env, cmode, margin, 50, mag, kappa_max)
    hi = plain_value(node, env, cmode, margin, 70, mag)
    with mp.workdps(70):
        if abs(r.value - hi) > mpf(10) ** -30 * max(1, abs(hi)):
            raise Unjudgeable("ill_conditioned:precisions_disagree")
    r.value = hi
    return r


def ulp_diff(a, b):
    """distance of two finite doubles in units of ulp(max(|a|,|b|))"""
    m = max(abs(a), abs(b))
    if m == 0:
        return 0.0
    return abs(a - b) / math.ulp(m)


def dump_heads(d, acc=None):
    """multiset of class names in a dump (Add/Mul pairs and Piecewise pairs are walked)"""
    acc = {} if acc is None else acc
    if isinstance(d, list):
        if d and isinstance(d[0], str):
            acc[d[0]] = acc.get(d[0], 0) + 1
            for x in d[1:]:
                dump_heads(x, acc)
        else:
            for x in d:
                dump_heads(x, acc)
    return acc
