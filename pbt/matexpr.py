"""C26 helper: dense Gaussian-rational reference model for matrix-expression
recipes and for the library's raw dumps, truth tables for the structural
predicates, recipe -> driver statements, and Hypothesis strategies that build
shape-consistent trees by construction.

Case tree (JSON):
  leaves   ["I", n]  ["Z", m, n]  ["D", [gq..]]  ["M", m, n, [gq..]]  ["S", "X23"]
           (n, m: int, or a string naming a symbolic dimension whose last
            character is its intended value, e.g. "n3";  matrix symbol "Xrc"
            has the intended shape r x c;  gq = [re_str, im_str])
  nodes    ["add", [t..]]  ["had", [t..]]  ["mul", [t or scalar ..]]
           ["T", t]  ["C", t]  ["tr", t] (a scalar)
  scalar   ["s", gq]   or ["tr", t]
"""
from fractions import Fraction
from hypothesis import strategies as st
from pbt.exact import GQ, gq_recipe, dump_to_gq

ZERO = GQ(0)
ONE = GQ(1)


class Mismatch(Exception):
    """dimensions do not match: the expression has no value"""


class Uneval(Exception):
    """outside the reference model (matrix symbol, unknown head)"""


class Mat:
    __slots__ = ("r", "c", "e")

    def __init__(self, r, c, e):
        self.r, self.c, self.e = r, c, e

    @staticmethod
    def zero(r, c):
        return Mat(r, c, [[ZERO] * c for _ in range(r)])

    @staticmethod
    def identity(n):
        return Mat(n, n, [[ONE if i == j else ZERO for j in range(n)] for i in range(n)])

    @staticmethod
    def diag(v):
        n = len(v)
        return Mat(n, n, [[v[i] if i == j else ZERO for j in range(n)] for i in range(n)])

    @staticmethod
    def dense(r, c, v):
        if len(v) != r * c:
            raise Mismatch("dense value count")
        return Mat(r, c, [list(v[i * c:(i + 1) * c]) for i in range(r)])

    def __eq__(self, o):
        return isinstance(o, Mat) and self.r == o.r and self.c == o.c and self.e == o.e

    def __ne__(self, o):
        return not self.__eq__(o)

    def add(self, o):
        if (self.r, self.c) != (o.r, o.c):
            raise Mismatch("add %dx%d + %dx%d" % (self.r, self.c, o.r, o.c))
        return Mat(self.r, self.c, [[a + b for a, b in zip(x, y)] for x, y in zip(self.e, o.e)])

    def had(self, o):
        if (self.r, self.c) != (o.r, o.c):
            raise Mismatch("hadamard %dx%d . %dx%d" % (self.r, self.c, o.r, o.c))
        return Mat(self.r, self.c, [[a * b for a, b in zip(x, y)] for x, y in zip(self.e, o.e)])

    def mul(self, o):
        if self.c != o.r:
            raise Mismatch("mul %dx%d * %dx%d" % (self.r, self.c, o.r, o.c))
        out = []
        for i in range(self.r):
            row = []
            for j in range(o.c):
                s = ZERO
                for k in range(self.c):
                    s = s + self.e[i][k] * o.e[k][j]
                row.append(s)
            out.append(row)
        return Mat(self.r, o.c, out)

    def scale(self, z):
        return Mat(self.r, self.c, [[z * a for a in x] for x in self.e])

    def T(self):
        return Mat(self.c, self.r, [[self.e[i][j] for i in range(self.r)] for j in range(self.c)])

    def conj(self):
        return Mat(self.r, self.c, [[a.conj() for a in x] for x in self.e])

    def trace(self):
        if self.r != self.c:
            raise Mismatch("trace of %dx%d" % (self.r, self.c))
        s = ZERO
        for i in range(self.r):
            s = s + self.e[i][i]
        return s

    def show(self):
        def f(z):
            if z.im == 0:
                return str(z.re)
            if z.re == 0:
                return "%sI" % z.im
            return "%s%s%sI" % (z.re, "+" if z.im > 0 else "-", abs(z.im))
        return "[" + "; ".join(" ".join(f(a) for a in row) for row in self.e) + "]"


def gq(p):
    return GQ(Fraction(p[0]), Fraction(p[1]))


def dimval(d):
    """intended value of a recipe dimension (int or symbolic name ending in a digit)"""
    if isinstance(d, int):
        return d
    return int(d[-1])


def has_symbolic(t):
    """recipe contains a matrix symbol or a symbolic dimension"""
    h = t[0]
    if h == "S":
        return True
    if h == "I":
        return not isinstance(t[1], int)
    if h == "Z":
        return not (isinstance(t[1], int) and isinstance(t[2], int))
    if h in ("D", "M", "s"):
        return False
    if h in ("add", "had", "mul"):
        return any(has_symbolic(k) for k in t[1])
    return has_symbolic(t[1])


# ------------------------------------------------------------------ recipe side
class Node:
    """one flattened recipe node"""
    __slots__ = ("t", "kids", "idx", "scalar", "shape", "val", "mismatch", "symbolic")


def flatten(tree):
    """post-order list of Nodes; node.kids are indices into the list"""
    out = []

    def go(t):
        n = Node()
        n.t = t
        h = t[0]
        if h in ("add", "had", "mul"):
            n.kids = [go(k) for k in t[1]]
        elif h in ("T", "C", "tr"):
            n.kids = [go(t[1])]
        else:
            n.kids = []
        n.idx = len(out)
        out.append(n)
        return n.idx
    go(tree)
    return out


def model(nodes):
    """fill shape / val / mismatch / symbolic for every node (intended assignment for
    symbolic dimensions and symbol shapes).  val is None for symbolic subtrees."""
    for n in nodes:
        h = n.t[0]
        n.scalar = h in ("s", "tr")
        n.mismatch = None
        n.val = None
        n.shape = None
        ks = [nodes[k] for k in n.kids]
        n.symbolic = any(k.symbolic for k in ks)
        if any(k.mismatch for k in ks):
            n.mismatch = "below"
            continue
        try:
            if h == "s":
                n.val = gq(n.t[1])
            elif h == "I":
                d = dimval(n.t[1])
                n.shape = (d, d)
                n.symbolic = not isinstance(n.t[1], int)
                n.val = None if n.symbolic else Mat.identity(d)
            elif h == "Z":
                n.shape = (dimval(n.t[1]), dimval(n.t[2]))
                n.symbolic = not (isinstance(n.t[1], int) and isinstance(n.t[2], int))
                n.val = None if n.symbolic else Mat.zero(*n.shape)
            elif h == "D":
                n.val = Mat.diag([gq(p) for p in n.t[1]])
                n.shape = (n.val.r, n.val.c)
            elif h == "M":
                n.val = Mat.dense(n.t[1], n.t[2], [gq(p) for p in n.t[3]])
                n.shape = (n.val.r, n.val.c)
            elif h == "S":
                n.symbolic = True
                n.shape = (int(n.t[1][-2]), int(n.t[1][-1]))
            elif h in ("add", "had"):
                sh = ks[0].shape
                for k in ks[1:]:
                    if k.shape != sh:
                        raise Mismatch("%s of %s and %s" % (h, sh, k.shape))
                n.shape = sh
                if not n.symbolic:
                    v = ks[0].val
                    for k in ks[1:]:
                        v = v.add(k.val) if h == "add" else v.had(k.val)
                    n.val = v
            elif h == "mul":
                mats = [k for k in ks if not k.scalar]
                sh = mats[0].shape
                for k in mats[1:]:
                    if sh[1] != k.shape[0]:
                        raise Mismatch("mul of %s and %s" % (sh, k.shape))
                    sh = (sh[0], k.shape[1])
                n.shape = sh
                if not n.symbolic:
                    z = ONE
                    for k in ks:
                        if k.scalar:
                            z = z * k.val
                    v = mats[0].val
                    for k in mats[1:]:
                        v = v.mul(k.val)
                    n.val = v.scale(z)
            elif h == "T":
                n.shape = (ks[0].shape[1], ks[0].shape[0])
                if not n.symbolic:
                    n.val = ks[0].val.T()
            elif h == "C":
                n.shape = ks[0].shape
                if not n.symbolic:
                    n.val = ks[0].val.conj()
            elif h == "tr":
                if ks[0].shape[0] != ks[0].shape[1]:
                    raise Mismatch("trace of %s" % (ks[0].shape,))
                if not n.symbolic:
                    n.val = ks[0].val.trace()
            else:
                raise ValueError("bad recipe head %r" % (h,))
        except Mismatch as e:
            n.mismatch = str(e)
    return nodes


def dim_recipe(d):
    if isinstance(d, int):
        return d
    return ["symbol", d]


def entry_text(p):
    """driver number text of a gq pair: "re" or "re,im" """
    return p[0] if Fraction(p[1]) == 0 else "%s,%s" % (p[0], p[1])


def statement(n, reg=None):
    """driver statement of a flattened node; reg maps a child index to its register"""
    t = n.t
    h = t[0]
    R = (lambda k: ["$", k]) if reg is None else (lambda k: ["$", reg[k]])
    if h == "s":
        return gq_recipe(gq(t[1]))
    if h == "I":
        return ["identity_matrix", dim_recipe(t[1])]
    if h == "Z":
        return ["zero_matrix", dim_recipe(t[1]), dim_recipe(t[2])]
    if h == "D":
        return ["diagonal_matrix", ["list"] + [entry_text(p) for p in t[1]]]
    if h == "M":
        return ["immutable_dense_matrix", t[1], t[2], ["list"] + [entry_text(p) for p in t[3]]]
    if h == "S":
        return ["matrix_symbol", t[1]]
    if h == "add":
        return ["matrix_add", ["list"] + [R(k) for k in n.kids]]
    if h == "had":
        return ["hadamard_product", ["list"] + [R(k) for k in n.kids]]
    if h == "mul":
        return ["matrix_mul", ["list"] + [R(k) for k in n.kids]]
    if h == "T":
        return ["mx_transpose", R(n.kids[0])]
    if h == "C":
        return ["mx_conjugate", R(n.kids[0])]
    if h == "tr":
        return ["mx_trace", R(n.kids[0])]
    raise ValueError(h)


# ------------------------------------------------------------------ dump side
def dump_dim(d):
    """dimension in a dump: Integer, or Symbol named with a trailing digit (intended value)"""
    if d[0] == "Integer":
        return int(d[1])
    if d[0] == "Symbol" and d[1][-1:].isdigit():
        return int(d[1][-1])
    raise Uneval("dimension %r" % (d,))


def eval_dump(d):
    """value of a library dump: Mat or GQ.  Raises Mismatch (the returned expression
    is dimensionally inconsistent) or Uneval."""
    h = d[0]
    if h in ("Integer", "Rational", "Complex"):
        z = dump_to_gq(d)
        if z is None:
            raise Uneval("number")
        return z
    if h == "IdentityMatrix":
        return Mat.identity(dump_dim(d[1]))
    if h == "ZeroMatrix":
        return Mat.zero(dump_dim(d[1]), dump_dim(d[2]))
    if h == "DiagonalMatrix":
        return Mat.diag([scalar_of(x) for x in d[1]])
    if h == "ImmutableDenseMatrix":
        return Mat.dense(d[1], d[2], [scalar_of(x) for x in d[3]])
    if h == "MatrixAdd":
        vs = [matrix_of(x) for x in d[1]]
        v = vs[0]
        for w in vs[1:]:
            v = v.add(w)
        return v
    if h == "HadamardProduct":
        vs = [matrix_of(x) for x in d[1]]
        v = vs[0]
        for w in vs[1:]:
            v = v.had(w)
        return v
    if h == "MatrixMul":
        z = scalar_of(d[1])
        v = None
        for x in d[2]:
            w = eval_dump(x)
            if isinstance(w, GQ):      # an unevaluated Trace kept among the factors
                z = z * w
            elif v is None:
                v = w
            else:
                v = v.mul(w)
        if v is None:
            raise Uneval("MatrixMul without matrix factor")
        return v.scale(z)
    if h == "Transpose":
        return matrix_of(d[1]).T()
    if h == "ConjugateMatrix":
        return matrix_of(d[1]).conj()
    if h == "Trace":
        return matrix_of(d[1]).trace()
    if h == "Add":
        s = scalar_of(d[1])
        for term, coef in d[2]:
            s = s + scalar_of(term) * scalar_of(coef)
        return s
    if h == "Mul":
        s = scalar_of(d[1])
        for base, ex in d[2]:
            if ex[0] != "Integer":
                raise Uneval("non-integer power")
            e = int(ex[1])
            b = scalar_of(base)
            if b.is_zero() and e <= 0:
                raise Uneval("0^nonpositive")
            s = s * b.pow(e)
        return s
    if h == "Pow":
        if d[2][0] != "Integer":
            raise Uneval("non-integer power")
        e = int(d[2][1])
        b = scalar_of(d[1])
        if b.is_zero() and e <= 0:
            raise Uneval("0^nonpositive")
        return b.pow(e)
    raise Uneval("head %s" % h)


def scalar_of(d):
    v = eval_dump(d)
    if not isinstance(v, GQ):
        raise Uneval("matrix where a scalar is expected")
    return v


def matrix_of(d):
    v = eval_dump(d)
    if not isinstance(v, Mat):
        raise Uneval("scalar where a matrix is expected")
    return v


def dump_heads(d, acc=None):
    acc = set() if acc is None else acc
    if isinstance(d, list) and d and isinstance(d[0], str):
        acc.add(d[0])
        for x in d[1:]:
            dump_heads(x, acc)
    elif isinstance(d, list):
        for x in d:
            dump_heads(x, acc)
    return acc


# ------------------------------------------------------------------ predicates
PREDICATES = ("zero", "diagonal", "symmetric", "lower", "upper", "real", "square", "toeplitz")


def admissible(v):
    """predicate -> set of answers not contradicted by the concrete matrix v.
    'U' is always admissible.  For a non-square matrix the literature has two
    conventions for diagonal/lower/upper (square only, or rectangular), so there
    'F' is always accepted and 'T' is rejected only when an entry that must
    vanish under either convention is non-zero."""
    r, c, e = v.r, v.c, v.e
    sq = r == c
    out = {}

    def two(truth):
        return {"U", "T"} if truth else {"U", "F"}

    out["zero"] = two(all(a.is_zero() for row in e for a in row))
    out["real"] = two(all(a.im == 0 for row in e for a in row))
    out["square"] = two(sq)
    out["symmetric"] = two(sq and all(e[i][j] == e[j][i] for i in range(r) for j in range(c)))
    out["toeplitz"] = two(all(e[i][j] == e[i - 1][j - 1] for i in range(1, r) for j in range(1, c)))
    shapes = {"diagonal": lambda i, j: i != j, "lower": lambda i, j: j > i, "upper": lambda i, j: j < i}
    for name, must_vanish in shapes.items():
        ok = all(e[i][j].is_zero() for i in range(r) for j in range(c) if must_vanish(i, j))
        if sq:
            out[name] = two(ok)
        else:
            out[name] = {"U", "F", "T"} if ok else {"U", "F"}
    return out


# ------------------------------------------------------------------ generation
RE_POOL = ["0", "0", "0", "1", "1", "-1", "2", "-2", "3", "1/2", "-3/2", "5", "7/3", "-4"]
IM_POOL = ["0", "0", "0", "0", "0", "1", "-1", "2", "1/2"]
entry = st.sampled_from([[a, b] for a in RE_POOL for b in IM_POOL])
Z0 = ["0", "0"]
O1 = ["1", "0"]


@st.composite
def dense_values(draw, r, c):
    """entries of an r x c dense matrix with a drawn structure (so that the
    constructor's canonicalisation and every predicate branch is exercised)"""
    kind = draw(st.sampled_from(["generic", "generic", "generic", "sparse", "symmetric", "lower", "upper",
                                 "diagonal", "identity", "zero", "toeplitz", "real", "hermitian"]))
    if kind == "zero":
        return [Z0] * (r * c)
    if kind == "identity":
        return [O1 if i == j else Z0 for i in range(r) for j in range(c)]
    if kind == "toeplitz":
        ds = draw(st.lists(entry, min_size=r + c - 1, max_size=r + c - 1))
        return [ds[i - j + c - 1] for i in range(r) for j in range(c)]
    n = r * c
    vals = draw(st.lists(entry, min_size=n, max_size=n))
    g = [[vals[i * c + j] for j in range(c)] for i in range(r)]
    for i in range(r):
        for j in range(c):
            if kind == "sparse" and (i * 7 + j * 3 + len(vals[0][0])) % 3:
                g[i][j] = Z0
            elif kind == "symmetric" and j < i and j < r and i < c:
                g[i][j] = g[j][i]
            elif kind == "hermitian" and j < i and j < r and i < c:
                g[i][j] = [g[j][i][0], str(-Fraction(g[j][i][1]))]
            elif kind == "lower" and j > i:
                g[i][j] = Z0
            elif kind == "upper" and j < i:
                g[i][j] = Z0
            elif kind == "diagonal" and i != j:
                g[i][j] = Z0
            elif kind == "real":
                g[i][j] = [g[i][j][0], "0"]
    return [g[i][j] for i in range(r) for j in range(c)]


@st.composite
def diag_values(draw, n):
    kind = draw(st.sampled_from(["generic", "generic", "generic", "identity", "zero", "constant"]))
    if kind == "identity":
        return [O1] * n
    if kind == "zero":
        return [Z0] * n
    if kind == "constant":
        return [draw(entry)] * n
    return draw(st.lists(entry, min_size=n, max_size=n))


DIM_NAMES = ["n", "k"]


def sym_dim(v):
    return st.sampled_from(DIM_NAMES).map(lambda s: "%s%d" % (s, v))


@st.composite
def leaf(draw, r, c, symbolic):
    kinds = ["M", "M", "M", "Z"]
    if r == c:
        kinds += ["I", "D", "D"]
    if symbolic:
        kinds += ["S", "S", "Zs"] + (["Is"] if r == c else [])
    k = draw(st.sampled_from(kinds))
    if k == "M":
        return ["M", r, c, draw(dense_values(r, c))]
    if k == "Z":
        return ["Z", r, c]
    if k == "I":
        return ["I", r]
    if k == "D":
        return ["D", draw(diag_values(r))]
    if k == "S":
        return ["S", "%s%d%d" % (draw(st.sampled_from(["X", "Y"])), r, c)]
    if k == "Is":
        return ["I", draw(sym_dim(r))]
    # zero matrix with one or two symbolic dimensions
    a = draw(st.one_of(st.just(r), sym_dim(r)))
    b = draw(st.one_of(st.just(c), sym_dim(c)))
    if isinstance(a, int) and isinstance(b, int):
        a = draw(sym_dim(r))
    return ["Z", a, b]


dims = st.integers(1, 4)
small_dims = st.sampled_from([1, 2, 2, 2, 3, 3, 4])
scalar = st.one_of(entry, st.sampled_from([["2", "0"], ["-1", "0"], ["0", "1"], ["1/2", "0"], ["0", "0"], ["1", "0"]])
                   ).map(lambda p: ["s", p])


def split(draw, total, k):
    """k positive integers summing to total (total >= k)"""
    cuts = sorted(draw(st.lists(st.integers(0, total - k), min_size=k - 1, max_size=k - 1)))
    parts = []
    prev = 0
    for x in cuts:
        parts.append(x - prev + 1)
        prev = x
    parts.append(total - k - prev + 1)
    return parts


@st.composite
def tree(draw, r, c, budget, symbolic=False, bad=0.0):
    """a matrix-expression recipe of shape r x c with at most `budget` matrix nodes
    (exactly that shape, unless a mismatch is injected with probability `bad` at
    one interior node)"""
    if budget <= 1:
        return draw(leaf(r, c, symbolic))
    ops = ["add", "add", "mul", "mul", "mul", "had", "had", "T", "C"]
    op = draw(st.sampled_from(ops))
    inject = bad > 0 and draw(st.integers(0, 99)) < bad * 100
    rest = budget - 1
    below = 0.0 if inject else bad

    def sub(rr, cc, b):
        return draw(tree(rr, cc, b, symbolic, below))
    if op in ("add", "had"):
        if rest < 2:
            return draw(leaf(r, c, symbolic))
        k = min(rest, draw(st.sampled_from([2, 2, 2, 3, 3, 4])))
        shapes = [(r, c)] * k
        if inject:
            j = draw(st.integers(0, k - 1))
            shapes[j] = draw(st.tuples(dims, dims).filter(lambda s: s != (r, c)))
        bs = split(draw, rest, k)
        return [op, [sub(s[0], s[1], b) for s, b in zip(shapes, bs)]]
    if op == "mul":
        k = min(rest, draw(st.sampled_from([1, 2, 2, 2, 3, 3, 4])))
        inner = [draw(small_dims) for _ in range(k - 1)]
        # square chains keep diagonal / identity factors frequent
        if r == c and draw(st.booleans()):
            inner = [r] * (k - 1)
        ds = [r] + inner + [c]
        shapes = [(ds[i], ds[i + 1]) for i in range(k)]
        if inject and k >= 2:
            j = draw(st.integers(0, k - 2))
            bump = draw(dims.filter(lambda v: v != shapes[j][1]))
            shapes[j] = (shapes[j][0], bump)
        bs = split(draw, rest, k)
        kids = [sub(s[0], s[1], b) for s, b in zip(shapes, bs)]
        nsc = draw(st.sampled_from([0, 0, 1, 1, 2])) if k > 1 else draw(st.sampled_from([1, 1, 2]))
        for _ in range(nsc):
            pos = draw(st.integers(0, len(kids)))
            if draw(st.integers(0, 7)) == 0:
                m = draw(st.integers(1, 3))
                sc = ["tr", draw(tree(m, m, draw(st.integers(1, 3)), symbolic, 0.0))]
            else:
                sc = draw(scalar)
            kids.insert(pos, sc)
        return ["mul", kids]
    if op == "T":
        return ["T", sub(c, r, rest)]
    return ["C", sub(r, c, rest)]


@st.composite
def case_tree(draw, symbolic=False, bad=0.0):
    if draw(st.integers(0, 3)) == 0:
        r = c = draw(small_dims)
    else:
        r, c = draw(small_dims), draw(small_dims)
    budget = draw(st.sampled_from([2, 3, 4, 5, 6, 7, 8, 9, 10]))
    wrap = draw(st.integers(0, 5)) == 0
    if wrap and bad == 0:
        c = r
    t = draw(tree(r, c, budget - (1 if wrap else 0), symbolic, bad))
    if wrap:
        t = ["tr", t]
    return t


def count_nodes(t):
    h = t[0]
    if h in ("add", "had", "mul"):
        return 1 + sum(count_nodes(k) for k in t[1])
    if h in ("T", "C", "tr"):
        return 1 + count_nodes(t[1])
    return 1


def signature(t, leaves=None, ops=None):
    """(leaf kinds, operations) used by a recipe"""
    leaves = set() if leaves is None else leaves
    ops = set() if ops is None else ops
    h = t[0]
    if h in ("add", "had", "mul"):
        ops.add(h)
        for k in t[1]:
            signature(k, leaves, ops)
    elif h in ("T", "C", "tr"):
        ops.add(h)
        signature(t[1], leaves, ops)
    elif h != "s":
        leaves.add(h)
    return leaves, ops
