"""Reference arithmetic in GF(p)[x] for C23: plain Python lists of ints in
[0, p), coefficient order low -> high, no trailing zeros ([] is the zero
polynomial).  Nothing here touches SymEngine.  sympy.polys.galoistools is used
only as a second opinion (functions sy_*)."""
import functools
import itertools

PRIMES = [2, 3, 5, 7, 11, 13, 17, 19, 23, 29, 31, 37, 41, 43, 47, 53, 59, 61, 67, 71, 73, 79, 83, 89, 97]


def strip(f):
    f = list(f)
    while f and f[-1] == 0:
        f.pop()
    return f


def norm(cs, p):
    return strip([c % p for c in cs])


def deg(f):
    return len(f) - 1  # -1 for zero


def add(f, g, p):
    n = max(len(f), len(g))
    return strip([((f[i] if i < len(f) else 0) + (g[i] if i < len(g) else 0)) % p for i in range(n)])


def neg(f, p):
    return [(-c) % p for c in f]


def sub(f, g, p):
    n = max(len(f), len(g))
    return strip([((f[i] if i < len(f) else 0) - (g[i] if i < len(g) else 0)) % p for i in range(n)])


def scal(f, c, p):
    return strip([(x * c) % p for x in f])


def mul(f, g, p):
    if not f or not g:
        return []
    r = [0] * (len(f) + len(g) - 1)
    for i, x in enumerate(f):
        if x:
            for j, y in enumerate(g):
                r[i + j] += x * y
    return strip([c % p for c in r])


def inv(c, p):
    c %= p
    if c == 0:
        raise ZeroDivisionError
    return pow(c, p - 2, p) if p > 2 else 1


def divmod_(f, g, p):
    """(q, r) with f = q g + r, deg r < deg g; g != 0"""
    if not g:
        raise ZeroDivisionError
    r = list(f)
    dg = len(g) - 1
    if len(r) - 1 < dg:
        return [], strip(r)
    il = inv(g[-1], p)
    q = [0] * (len(r) - dg)
    for k in range(len(r) - 1 - dg, -1, -1):
        c = (r[k + dg] * il) % p
        q[k] = c
        if c:
            for j in range(dg + 1):
                r[k + j] = (r[k + j] - c * g[j]) % p
    return strip(q), strip(r[:dg])


def rem(f, g, p):
    return divmod_(f, g, p)[1]


def quo(f, g, p):
    return divmod_(f, g, p)[0]


def monic(f, p):
    if not f:
        return 0, []
    lc = f[-1]
    return lc, scal(f, inv(lc, p), p)


def gcd(f, g, p):
    f, g = list(f), list(g)
    while g:
        f, g = g, rem(f, g, p)
    return monic(f, p)[1]


def lcm(f, g, p):
    if not f or not g:
        return []
    return monic(quo(mul(f, g, p), gcd(f, g, p), p), p)[1]


def diff(f, p):
    return strip([(i * f[i]) % p for i in range(1, len(f))])


def ev(f, a, p):
    r = 0
    for c in reversed(f):
        r = (r * a + c) % p
    return r


def pw(f, n, p):
    r = [1]
    b = list(f)
    while n:
        if n & 1:
            r = mul(r, b, p)
        n >>= 1
        if n:
            b = mul(b, b, p)
    return r


def pow_naive(f, n, p):
    r = [1]
    for _ in range(n):
        r = mul(r, f, p)
    return r


def pow_mod(g, n, f, p):
    """g**n mod f (deg f >= 1)"""
    r = rem([1], f, p)
    b = rem(g, f, p)
    while n:
        if n & 1:
            r = rem(mul(r, b, p), f, p)
        n >>= 1
        if n:
            b = rem(mul(b, b, p), f, p)
    return r


def compose(g, h, p):
    r = []
    for c in reversed(g):
        r = add(mul(r, h, p), [c % p] if c % p else [], p)
    return r


def compose_mod(g, h, f, p):
    r = []
    for c in reversed(g):
        r = rem(add(mul(r, h, p), [c % p] if c % p else [], p), f, p)
    return r


def compose_hits_zero_plus_const(g, h, f, p):
    """True when Horner evaluation of g(h) mod f passes through an intermediate
    product that is the zero polynomial to which a non-zero coefficient of g is
    then added (the situation in which GaloisFieldDict::operator+=(integer_class)
    drops the constant; finding KF-C23-01)."""
    if not g:
        return False
    out = [g[-1]]
    for c in reversed(g[:-1]):
        prod = mul(out, h, p)
        if not prod and c % p:
            return True
        out = rem(add(prod, [c % p] if c % p else [], p), f, p)
    return False


def lshift(f, n):
    return ([0] * n + list(f)) if f else []


def rshift(f, n):
    return strip(f[n:]), strip(f[:n])


def prod(fs, p):
    r = [1]
    for f in fs:
        r = mul(r, f, p)
    return r


X = [0, 1]


def frob_x(f, p, k=1):
    """x**(p**k) mod f"""
    h = rem(X, f, p)
    for _ in range(k):
        h = pow_mod(h, p, f, p)
    return h


# ---------------------------------------------------------------- irreducibility
def all_monic(p, d):
    """all monic polynomials of degree d"""
    for cs in itertools.product(range(p), repeat=d):
        yield list(cs) + [1]


def all_polys(p, maxdeg):
    """all polynomials of degree <= maxdeg including zero, in a fixed order"""
    yield []
    for d in range(0, maxdeg + 1):
        for cs in itertools.product(range(p), repeat=d):
            for lc in range(1, p):
                yield list(cs) + [lc]


def irreducible_brute(f, p):
    """trial division by every monic polynomial of degree 1..deg/2"""
    n = deg(f)
    if n < 1:
        return False
    for d in range(1, n // 2 + 1):
        for g in all_monic(p, d):
            if not rem(f, g, p):
                return False
    return True


def _prime_divisors(n):
    out, q = [], 2
    while q * q <= n:
        if n % q == 0:
            out.append(q)
            while n % q == 0:
                n //= q
        q += 1
    if n > 1:
        out.append(n)
    return out


def irreducible_rabin(f, p):
    """Rabin's test (f of degree n >= 1): x^(p^n) = x mod f and
    gcd(x^(p^(n/q)) - x, f) = 1 for every prime q | n."""
    n = deg(f)
    if n < 1:
        return False
    f = monic(f, p)[1]
    if n == 1:
        return True
    want = {n // q for q in _prime_divisors(n)}
    h = rem(X, f, p)
    for k in range(1, n + 1):
        h = pow_mod(h, p, f, p)
        if k in want:
            if gcd(sub(h, X, p), f, p) != [1]:
                return False
    return sub(h, rem(X, f, p), p) == []


def irreducible(f, p):
    n = deg(f)
    if n < 1:
        return False
    if p ** (n // 2) <= 700:
        return irreducible_brute(f, p)
    return irreducible_rabin(f, p)


@functools.lru_cache(maxsize=None)
def irreducibles(p, d):
    """all monic irreducibles of degree d (small p**d only)"""
    if p ** d > 200000:
        raise ValueError("table too large")
    return tuple(tuple(f) for f in all_monic(p, d) if irreducible_brute(f, p))


def next_irreducible(p, low):
    """the first monic irreducible of degree len(low) at or after x^d + low(x) in
    the base-p counting order of the low coefficients (wraps around)."""
    d = len(low)
    if d < 1:
        raise ValueError
    v = 0
    for c in reversed(low):
        v = v * p + (c % p)
    m = p ** d
    for _ in range(m):
        cs, w = [], v
        for _i in range(d):
            cs.append(w % p)
            w //= p
        f = cs + [1]
        if irreducible(f, p):
            return f
        v = (v + 1) % m
    raise ValueError("no irreducible")


# ---------------------------------------------------------------- factorisation (reference)
def factor_small(f, p):
    """(lc, {factor tuple: multiplicity}) by trial division with the table of
    irreducibles; only for small p**deg."""
    lc, g = monic(f, p)
    out = {}
    if deg(g) < 1:
        return lc, out
    d = 1
    while deg(g) >= 1:
        if 2 * d > deg(g):
            out[tuple(g)] = out.get(tuple(g), 0) + 1
            break
        for h in irreducibles(p, d):
            h = list(h)
            while deg(g) >= d:
                q, r = divmod_(g, h, p)
                if r:
                    break
                out[tuple(h)] = out.get(tuple(h), 0) + 1
                g = q
        d += 1
    return lc, out


def is_sqf(f, p):
    """non-zero f: no repeated irreducible factor"""
    return deg(gcd(f, diff(f, p), p)) == 0


def ddf(f, p):
    """distinct degree factorisation of a monic square-free f: {d: product of the
    irreducible factors of degree d}"""
    out = {}
    g = list(f)
    d = 0
    h = rem(X, g, p) if deg(g) >= 1 else []
    while deg(g) >= 1:
        d += 1
        if 2 * d > deg(g):
            out[deg(g)] = g
            break
        h = pow_mod(h, p, g, p)
        t = gcd(g, sub(h, X, p), p)
        if t != [1]:
            out[d] = t
            g = quo(g, t, p)
            h = rem(h, g, p) if deg(g) >= 1 else []
    return out


def check_factor_list(facs, p):
    """facs: list of coefficient lists.  Returns None or a complaint."""
    seen = set()
    for f in facs:
        if deg(f) < 1:
            return "factor %s has degree < 1" % (f,)
        if f[-1] != 1:
            return "factor %s is not monic" % (f,)
        if any((not isinstance(c, int)) or c < 0 or c >= p for c in f):
            return "factor %s has non-canonical coefficients" % (f,)
        if tuple(f) in seen:
            return "factor %s listed twice" % (f,)
        seen.add(tuple(f))
        if not irreducible(f, p):
            return "factor %s is reducible" % (f,)
    return None


# ---------------------------------------------------------------- sympy second opinion
def _sy():
    from sympy.polys import galoistools as gt
    from sympy.polys.domains import ZZ
    return gt, ZZ


def sy_factor(f, p):
    """sympy gf_factor as (lc, {factor tuple low->high: multiplicity})"""
    gt, ZZ = _sy()
    lc, fs = gt.gf_factor([ZZ(c) for c in reversed(f)], p, ZZ)
    return int(lc), {tuple(int(c) for c in reversed(g)): int(m) for g, m in fs}


def sy_irreducible(f, p):
    gt, ZZ = _sy()
    return bool(gt.gf_irred_p_rabin([ZZ(c) for c in reversed(f)], p, ZZ))


def sy_gcd(f, g, p):
    gt, ZZ = _sy()
    return [int(c) for c in reversed(gt.gf_gcd([ZZ(c) for c in reversed(f)], [ZZ(c) for c in reversed(g)], p, ZZ))]


def sy_compose_mod(g, h, f, p):
    gt, ZZ = _sy()
    r = gt.gf_compose_mod([ZZ(c) for c in reversed(g)], [ZZ(c) for c in reversed(h)], [ZZ(c) for c in reversed(f)], p, ZZ)
    return [int(c) for c in reversed(r)]


def sy_pow_mod(g, n, f, p):
    gt, ZZ = _sy()
    r = gt.gf_pow_mod([ZZ(c) for c in reversed(g)], n, [ZZ(c) for c in reversed(f)], p, ZZ)
    return [int(c) for c in reversed(r)]


def selftest():
    """cross-check the reference against itself and sympy (run by hand)"""
    import random
    rng = random.Random(7)
    for p in (2, 3, 5, 7, 13, 97):
        for _ in range(300):
            f = norm([rng.randrange(p) for _ in range(rng.randrange(0, 9))], p)
            g = norm([rng.randrange(p) for _ in range(rng.randrange(0, 9))], p)
            h = norm([rng.randrange(p) for _ in range(rng.randrange(0, 9))], p)
            assert sy_gcd(f, g, p) == gcd(f, g, p)
            if g:
                q, r = divmod_(f, g, p)
                assert add(mul(q, g, p), r, p) == f and deg(r) < deg(g)
            if deg(f) >= 1:
                assert sy_compose_mod(g, h, f, p) == compose_mod(g, h, f, p) == rem(compose(g, h, p), f, p)
                n = rng.randrange(0, 40)
                assert sy_pow_mod(g, n, f, p) == pow_mod(g, n, f, p) == rem(pow_naive(g, n, p), f, p)
                assert irreducible_rabin(f, p) == sy_irreducible(monic(f, p)[1], p), (f, p)
                if p ** (deg(f) // 2) <= 3000:
                    assert irreducible_rabin(f, p) == irreducible_brute(f, p), (f, p)
                lc, fs = sy_factor(f, p)
                assert check_factor_list([list(k) for k in fs], p) is None
                assert scal(prod([pw(list(k), m, p) for k, m in fs.items()], p), lc, p) == f
                if p ** deg(f) <= 200000:
                    assert factor_small(f, p) == (lc, fs), (f, p, factor_small(f, p), (lc, fs))
                if is_sqf(f, p):
                    d = ddf(monic(f, p)[1], p)
                    exp = {}
                    for k in fs:
                        exp.setdefault(len(k) - 1, []).append(list(k))
                    assert {k: prod(v, p) for k, v in exp.items()} == d, (f, p, d, exp)
    for p, d in ((2, 5), (3, 3), (5, 2), (97, 4), (89, 6)):
        for _ in range(20):
            f = next_irreducible(p, [rng.randrange(p) for _ in range(d)])
            assert sy_irreducible(f, p) and irreducible_rabin(f, p)
    return "ok"


if __name__ == "__main__":
    print(selftest())
