"""Exact truth-table oracle for boolean formulas (C28): evaluates formula *recipes* (what the check
asked the library to build) and raw *dumps* (what the library returned) under an assignment of exact
rational values to the symbols.  Three-valued: True / False / None (the model does not decide)."""
from fractions import Fraction

from pbt import setref
from pbt.setref import k_and, k_or, k_not


class Unjudgeable(Exception):
    pass


REL_RECIPE = {"Eq": "==", "Ne": "!=", "Lt": "<", "Le": "<=", "Gt": ">", "Ge": ">="}
REL_DUMP = {"Equality": "==", "Unequality": "!=", "LessThan": "<=", "StrictLessThan": "<"}


# ------------------------------------------------------------------ arithmetic values
def value(e, env):
    """exact rational value of an arithmetic recipe / dump"""
    h = e[0]
    if h in ("integer",):
        return Fraction(e[1])
    if h == "rational":
        return Fraction(e[1], e[2])
    if h == "Integer":
        return Fraction(int(e[1]))
    if h == "Rational":
        return Fraction(int(e[1]), int(e[2]))
    if h in ("symbol", "Symbol"):
        if e[1] not in env:
            raise Unjudgeable("unbound symbol " + str(e[1]))
        return env[e[1]]
    if h == "add":
        return value(e[1], env) + value(e[2], env)
    if h == "sub":
        return value(e[1], env) - value(e[2], env)
    if h == "mul":
        return value(e[1], env) * value(e[2], env)
    if h == "neg":
        return -value(e[1], env)
    if h == "Add":
        s = value(e[1], env)
        for term, coef in e[2]:
            s += value(term, env) * value(coef, env)
        return s
    if h == "Mul":
        s = value(e[1], env)
        for base, ex in e[2]:
            s *= _ipow(value(base, env), value(ex, env))
        return s
    if h in ("Pow", "pow"):
        return _ipow(value(e[1], env), value(e[2], env))
    raise Unjudgeable("value_unsupported:" + str(h))


def _ipow(b, ex):
    if ex.denominator != 1 or abs(ex) > 16:
        raise Unjudgeable("non-integer power")
    if b == 0 and ex < 0:
        raise Unjudgeable("division by zero")
    return b ** int(ex)


def _rel(op, a, b):
    if op == "==":
        return a == b
    if op == "!=":
        return a != b
    if op == "<":
        return a < b
    if op == "<=":
        return a <= b
    if op == ">":
        return a > b
    if op == ">=":
        return a >= b
    raise ValueError(op)


def _list(x):
    if isinstance(x, (list, tuple)) and x and x[0] == "list":
        return list(x[1:])
    raise Unjudgeable("want list")


# ------------------------------------------------------------------ truth
def truth(f, env):
    h = f[0]
    if h == "BooleanAtom":
        return bool(f[1])
    if h == "true":
        return True
    if h == "false":
        return False
    if h in REL_RECIPE:
        return _rel(REL_RECIPE[h], value(f[1], env), value(f[2], env))
    if h in REL_DUMP:
        return _rel(REL_DUMP[h], value(f[1], env), value(f[2], env))
    if h == "And":
        return k_and([truth(x, env) for x in f[1]])
    if h == "Or":
        return k_or([truth(x, env) for x in f[1]])
    if h == "Xor":
        return k_xor([truth(x, env) for x in f[1]])
    if h == "Not":
        return k_not(truth(f[1], env))
    if h == "and":
        return k_and([truth(x, env) for x in _list(f[1])])
    if h == "or":
        return k_or([truth(x, env) for x in _list(f[1])])
    if h == "nand":
        return k_not(k_and([truth(x, env) for x in _list(f[1])]))
    if h == "nor":
        return k_not(k_or([truth(x, env) for x in _list(f[1])]))
    if h == "xor":
        return k_xor([truth(x, env) for x in _list(f[1])])
    if h == "xnor":
        return k_not(k_xor([truth(x, env) for x in _list(f[1])]))
    if h == "not":
        return k_not(truth(f[1], env))
    if h in ("Contains", "contains"):
        term = bind(setref.term_of(f[2]), env)
        try:
            v = value(f[1], env)
        except Unjudgeable:
            p = setref.point_of(f[1])
            if p[0] not in ("q", "c", "d"):
                raise
            return setref.member(term, p)
        return setref.member(term, ("q", v))
    raise Unjudgeable("truth_unsupported:" + str(h))


def bind(t, env):
    """replace symbolic elements / endpoints of a set term by their values"""
    def pt(p):
        if p[0] == "sym" and p[1] in env:
            return ("q", env[p[1]])
        return p
    h = t[0]
    if h == "finite":
        return ("finite", [pt(p) for p in t[1]])
    if h == "interval":
        return ("interval", pt(t[1]), pt(t[2]), t[3], t[4])
    if h in ("union", "inter"):
        return (h, [bind(x, env) for x in t[1]])
    if h == "compl":
        return ("compl", bind(t[1], env), bind(t[2], env))
    return t


def k_xor(xs):
    n = 0
    for x in xs:
        if x is None:
            return None
        if x:
            n += 1
    return n % 2 == 1


# ------------------------------------------------------------------ piecewise
UNDEF = ("undef",)


def pw_value(e, env):
    """value of a piecewise recipe / Piecewise dump / plain expression: ("val", Fraction) or UNDEF.
    Conditions are tried in order; the first true one selects the branch."""
    h = e[0]
    if h == "piecewise":
        branches = [(_list(b)[0], _list(b)[1]) for b in _list(e[1])]
    elif h == "Piecewise":
        branches = [(b[0], b[1]) for b in e[1]]
    else:
        return ("val", value(e, env))
    for ex, cond in branches:
        t = truth(cond, env)
        if t is None:
            raise Unjudgeable("undecided condition")
        if t:
            return ("val", value(ex, env))
    return UNDEF


# ------------------------------------------------------------------ analysis helpers
def atoms(f, acc=None):
    """list of atom occurrences (relational / contains recipes) of a formula recipe, in order"""
    acc = [] if acc is None else acc
    h = f[0]
    if h in REL_RECIPE or h == "contains":
        acc.append(f)
    elif h in ("and", "or", "nand", "nor", "xor", "xnor"):
        for x in _list(f[1]):
            atoms(x, acc)
    elif h == "not":
        atoms(f[1], acc)
    elif h == "piecewise":
        for b in _list(f[1]):
            atoms(_list(b)[1], acc)
    return acc


def numbers_in(x, acc):
    """exact numeric literals occurring anywhere in a recipe (critical points)"""
    if isinstance(x, (list, tuple)) and x:
        if x[0] == "integer":
            acc.add(Fraction(x[1]))
            return
        if x[0] == "rational":
            acc.add(Fraction(x[1], x[2]))
            return
        for y in x[1:]:
            numbers_in(y, acc)


def symbols_in(x, acc):
    if isinstance(x, (list, tuple)) and x:
        if x[0] == "symbol" and len(x) == 2:
            acc.add(x[1])
            return
        for y in x[1:]:
            symbols_in(y, acc)
