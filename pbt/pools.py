"""Pools of expressions of every kind, with re-constructions of the same value along
different API paths (DESIGN.md C01/C02/C16).  A pool case is
  {"base": [recipe, ...], "order": [ints]}
and `program(case)` turns it into driver statements ending with (collect ...)."""
import random
from hypothesis import strategies as st
from . import gen
from .engine import R

INF = float("inf")
NANF = float("nan")

FUN1 = ["sin", "cos", "tan", "cot", "csc", "sec", "asin", "acos", "asec", "acsc", "atan", "acot", "sinh", "csch",
        "cosh", "sech", "tanh", "coth", "asinh", "acsch", "acosh", "atanh", "acoth", "asech", "log", "lambertw",
        "zeta", "dirichlet_eta", "erf", "erfc", "gamma", "loggamma", "digamma", "trigamma", "abs", "sign", "floor",
        "ceiling", "truncate", "conjugate", "exp", "sqrt", "cbrt", "primepi", "unevaluated_expr", "neg"]
FUN2 = ["log2", "zeta2", "lowergamma", "uppergamma", "beta", "polygamma", "atan2", "kronecker_delta",
        "add", "sub", "mul", "div", "pow"]
NARY = ["add_vec", "mul_vec", "max", "min", "levi_civita"]
SYMS = ["x", "y", "z", "t", "x0", "_xi_1", "ü"]


def numbers(special=True):
    collide = st.builds(lambda n, k: n + k * 2 ** 64, st.integers(-5, 5), st.integers(-2, 2)).map(lambda n: ["integer", n])
    opts = [(6, gen.integer()), (2, collide), (4, gen.rational()), (3, gen.gaussian()),
            (4, gen.real_double(special=special)), (2, gen.complex_double()),
            (2, st.sampled_from([0.0, -0.0, 1.0, -1.0, 0.5, 2.0]).map(lambda f: ["real_double", f])),
            (1, st.sampled_from([["oo"], ["noo"], ["zoo"], ["nan"]]))]
    if special:
        opts.append((1, st.sampled_from([["complex_double", 0.0, -0.0], ["complex_double", -0.0, 0.0],
                                         ["complex_double", NANF, 1.0], ["complex_double", INF, 0.0],
                                         ["real_double", NANF], ["real_double", INF]])))
    return gen.weighted(opts)


def small_numbers(special=True):
    """numbers used *inside* compound expressions: small exact values, so that powers and expansions of generated
    trees stay cheap; multi-limb values enter the pools as standalone members (numbers())"""
    opts = [(6, st.integers(-12, 12).map(lambda n: ["integer", n])),
            (3, st.builds(gen._rat, st.integers(-12, 12), st.integers(1, 12))),
            (2, gen.gaussian(big=False).filter(lambda r: size_ok(r))),
            (3, st.sampled_from(gen.FLOAT_POOL + [0.0, -0.0]).map(lambda f: ["real_double", f])),
            (1, gen.complex_double()),
            (1, st.sampled_from([["oo"], ["noo"], ["zoo"], ["nan"]]))]
    if special:
        opts.append((1, st.sampled_from([["real_double", NANF], ["real_double", INF], ["complex_double", 0.0, -0.0]])))
    return gen.weighted(opts)


def size_ok(r):
    def ints(x):
        if isinstance(x, int) and not isinstance(x, bool):
            yield x
        elif isinstance(x, list):
            for y in x:
                yield from ints(y)
    return all(abs(n) <= 1000 for n in ints(r))


def atoms(special=True):
    return gen.weighted([(6, small_numbers(special)), (6, gen.sym(SYMS)),
                         (2, gen.constant(("pi", "E", "I", "EulerGamma", "Catalan", "GoldenRatio"))),
                         (1, st.sampled_from([["true"], ["false"], ["emptyset"], ["universalset"], ["reals"], ["rationals"],
                                              ["integers"], ["naturals"], ["naturals0"], ["complexes"]])),
                         (1, st.sampled_from(["d", "x"]).map(lambda n: ["dummy", n]))])


def expr(max_leaves=8, special=True):
    """broad grammar over every kind of object the core ops can build; many combinations are declined or throw --
    those registers are dropped by (collect ...)"""
    def ext(ch):
        lst = lambda lo, hi: st.lists(ch, min_size=lo, max_size=hi).map(lambda xs: ["list"] + xs)
        real = st.one_of(gen.integer(big=False), gen.rational(big=False), st.sampled_from([["oo"], ["noo"]]),
                         st.sampled_from([0.0, -0.0, 0.5, 2.0, -1.5]).map(lambda f: ["real_double", f]))
        return st.one_of(
            st.builds(lambda o, a: [o, a], st.sampled_from(FUN1), ch),
            st.builds(lambda o, a: [o, a], st.sampled_from(FUN1), ch),
            st.builds(lambda o, a, b: [o, a, b], st.sampled_from(FUN2), ch, ch),
            st.builds(lambda o, a, b: [o, a, b], st.sampled_from(["add", "mul", "pow", "sub", "div"]), ch, ch),
            st.builds(lambda o, xs: [o, xs], st.sampled_from(NARY), lst(2, 4)),
            st.builds(lambda n, xs: ["function_symbol", n, xs], st.sampled_from(["f", "g", "add", "pow"]), lst(1, 3)),
            st.builds(lambda o, a, b: [o, a, b], st.sampled_from(["Eq", "Ne", "Lt", "Le", "Gt", "Ge"]), ch, ch),
            st.builds(lambda o, xs: [o, xs], st.sampled_from(["and", "or", "xor", "nand", "nor", "xnor"]), lst(2, 3)),
            st.builds(lambda a: ["not", a], ch),
            st.builds(lambda a, b: ["contains", a, b], ch, ch),
            st.builds(lambda a, c1, b: ["piecewise", ["list", ["list", a, c1], ["list", b, ["true"]]]], ch, ch, ch),
            st.builds(lambda a, b, lo, ro: ["interval", a, b, lo, ro], real, real, st.booleans(), st.booleans()),
            st.builds(lambda xs: ["finiteset", xs], lst(1, 4)),
            st.builds(lambda o, xs: [o, xs], st.sampled_from(["set_union", "set_intersection"]), lst(2, 3)),
            st.builds(lambda a, b: ["set_complement", a, b], ch, ch),
            st.builds(lambda s, c: ["conditionset", ["symbol", s], c], st.sampled_from(["x", "y"]), ch),
            st.builds(lambda s, e, b: ["imageset", ["symbol", s], e, b], st.sampled_from(["x", "y"]), ch, ch),
            st.builds(lambda e, s: ["diff", e, ["symbol", s]], ch, st.sampled_from(["x", "y"])),
            st.builds(lambda e, s, v: ["subs", e, ["list", ["list", ["symbol", s], v]]], ch, st.sampled_from(["x", "y"]), ch),
            st.builds(lambda e: ["expand", e], ch),
        )
    return st.recursive(atoms(special), ext, max_leaves=max_leaves)


COMMUTE = {"add", "mul", "add_vec", "mul_vec", "and", "or", "xor", "nand", "nor", "xnor", "max", "min", "finiteset",
           "set_union", "set_intersection", "Eq", "Ne", "kronecker_delta", "beta"}


def commute(r):
    """the same value with every commutative node's operands reversed"""
    if not isinstance(r, list) or not r or not isinstance(r[0], str):
        return r
    h = r[0]
    args = [commute(x) for x in r[1:]]
    if h == "list":
        return ["list"] + args
    if h in COMMUTE:
        if len(args) == 2 and h in ("add", "mul", "Eq", "Ne", "kronecker_delta", "beta"):
            args = [args[1], args[0]]
        elif len(args) == 1 and isinstance(args[0], list) and args[0] and args[0][0] == "list":
            args = [["list"] + list(reversed(args[0][1:]))]
    return [h] + args


def flipzero(r):
    """the same value with the sign of every floating zero leaf flipped"""
    if isinstance(r, float):
        return -r if r == 0 else r
    if isinstance(r, list):
        return [flipzero(x) for x in r]
    return r


def regroup(r):
    """binary add/mul chains re-associated: (a+b)+c -> a+(b+c)"""
    if not isinstance(r, list) or not r or not isinstance(r[0], str):
        return r
    h = r[0]
    args = [regroup(x) for x in r[1:]]
    if h in ("add", "mul") and len(args) == 2 and isinstance(args[0], list) and args[0][:1] == [h] and len(args[0]) == 3:
        return [h, args[0][1], [h, args[0][2], args[1]]]
    if h in ("add_vec", "mul_vec") and len(args[0]) > 3:
        b = "add" if h == "add_vec" else "mul"
        items = args[0][1:]
        acc = items[0]
        for x in items[1:]:
            acc = [b, acc, x]
        return acc
    return [h] + args


def flipbool(r):
    """near miss: every boolean literal flipped (interval open/closed flags ...)"""
    if isinstance(r, bool):
        return not r
    if isinstance(r, list):
        return [flipbool(x) for x in r]
    return r


def bump(r):
    """near miss: the last integer literal of the recipe increased by one"""
    done = [False]

    def walk(x):
        if isinstance(x, list):
            out = [None] * len(x)
            for i in range(len(x) - 1, -1, -1):
                out[i] = walk(x[i])
            return out
        if isinstance(x, int) and not isinstance(x, bool) and not done[0]:
            done[0] = True
            return x + 1
        return x
    return walk(r)


def program(case, extra_variants=True):
    """statements building the pool; returns (stmts, index of the collect statement, origin list)
    origin[k] = (base index, variant name) for the k-th collected operand position"""
    stmts = []
    regs = []   # register numbers handed to collect, in order
    origin = []
    for bi, r in enumerate(case["base"]):
        k = len(stmts)
        stmts.append(["let", r])
        regs.append(k)
        origin.append((bi, "base"))
        if not extra_variants:
            continue
        var = []
        c = commute(r)
        if c != r:
            var.append(("commute", c))
        g = regroup(r)
        if g != r:
            var.append(("regroup", g))
        z = flipzero(r)
        if z != r:
            var.append(("flipzero", z))
        fb = flipbool(r)
        if fb != r:
            var.append(("flipbool", fb))
        bp = bump(r)
        if bp != r:
            var.append(("bump", bp))
        var += [("loads_dumps", ["loads", ["dumps", R(k)]]), ("parse_str", ["parse", ["str", R(k)]]),
                ("subs_id", ["subs", R(k), ["list"]]), ("xreplace_id", ["xreplace", R(k), ["list"]]),
                ("plus0", ["add", R(k), ["integer", 0]]), ("times1", ["mul", ["integer", 1], R(k)]),
                ("pow1", ["pow", R(k), ["integer", 1]]), ("negneg", ["neg", ["neg", R(k)]]),
                ("plus0.0", ["add", R(k), ["real_double", 0.0]]), ("minus-0.0", ["sub", R(k), ["real_double", -0.0]]),
                ("expand", ["expand", R(k)])]
        sel = case.get("variants")
        for name, v in var:
            if sel is not None and name not in sel:
                continue
            stmts.append(["let", v])
            regs.append(len(stmts) - 1)
            origin.append((bi, name))
    stmts.append(["let", ["collect"] + [R(k) for k in regs]])
    return stmts, len(stmts) - 1, origin


VARIANT_NAMES = ["commute", "regroup", "flipzero", "flipbool", "bump", "loads_dumps", "parse_str", "subs_id", "xreplace_id", "plus0",
                 "times1", "pow1", "negneg", "plus0.0", "minus-0.0", "expand"]


def blocked(r):
    """recipes with an astronomically large intermediate value are not built at all"""
    from . import oracle_num as on
    env = {k: 1.3 for k in SYMS + ["d"]}
    return on.resource_blocked(r, env, 300)


def pool_cases(nbase=(6, 14), max_leaves=8, special=True):
    member = st.one_of(expr(max_leaves, special), expr(max_leaves, special), expr(max_leaves, special),
                       numbers(special)).filter(lambda r: not blocked(r))
    return st.fixed_dictionaries({
        "base": st.lists(member, min_size=nbase[0], max_size=nbase[1]),
        "variants": st.lists(st.sampled_from(VARIANT_NAMES), min_size=3, max_size=8, unique=True),
        "order": st.integers(0, 2 ** 32),
    })


def permutation(n, seedval):
    """deterministic permutation of range(n) derived from the generated integer (kept inside the case)"""
    idx = list(range(n))
    random.Random(seedval).shuffle(idx)
    return idx


def structured_pools():
    """small universes enumerated exhaustively (no variants): every pool holds many pairwise different
    members of the same class, so that the per-class compare/__eq__/__hash__ code is exercised on all pairs"""
    I = lambda n: ["integer", n]
    Q = lambda a, b: ["rational", a, b]
    x, y, z = ["symbol", "x"], ["symbol", "y"], ["symbol", "z"]
    L = lambda *xs: ["list"] + list(xs)
    out = []
    ends = [["noo"], I(-1), I(0), Q(1, 2), I(1), ["real_double", 1.0], I(2), ["oo"]]
    iv = []
    for i in range(len(ends)):
        for j in range(i + 1, len(ends)):
            for lo in (False, True):
                for ro in (False, True):
                    iv.append(["interval", ends[i], ends[j], lo, ro])
    out.append(iv)
    els = [I(1), I(2), x, Q(1, 2), ["real_double", 1.0]]
    fs = []
    for m in range(1, 2 ** len(els)):
        fs.append(["finiteset", L(*[els[k] for k in range(len(els)) if m >> k & 1])])
    sets = [["interval", I(0), I(1), False, False], ["interval", I(1), I(2), True, False], ["interval", I(0), I(2), True, True],
            ["finiteset", L(I(1), I(2))], ["finiteset", L(I(0), x)], ["reals"], ["integers"], ["rationals"], ["naturals"],
            ["naturals0"], ["complexes"], ["emptyset"], ["universalset"]]
    comb = []
    for a in sets:
        for b in sets:
            comb += [["set_union", L(a, b)], ["set_intersection", L(a, b)], ["set_complement", a, b]]
    out.append(fs + sets)
    out.append(comb[:len(comb) // 2])
    out.append(comb[len(comb) // 2:])
    ops = [x, y, I(0), I(1), ["add", x, I(1)], ["real_double", 1.0]]
    rel = [[o, a, b] for o in ("Eq", "Ne", "Lt", "Le", "Gt", "Ge") for a in ops for b in ops]
    out.append(rel)
    atoms_b = [["Lt", x, y], ["Le", x, I(1)], ["Eq", x, y], ["contains", x, ["interval", I(0), I(1), False, False]], ["true"], ["false"],
               ["not", ["Lt", x, y]], ["Ne", y, I(0)]]
    lg = [["not", a] for a in atoms_b]
    for o in ("and", "or", "xor", "nand", "nor", "xnor"):
        for a in atoms_b:
            for b in atoms_b:
                lg.append([o, L(a, b)])
    for a in atoms_b[:5]:
        for b in atoms_b[:5]:
            lg.append(["and", L(a, b, ["Le", y, I(2)])])
            lg.append(["piecewise", L(L(x, a), L(y, b), L(I(0), ["true"]))])
    out.append(lg[:200])
    out.append(lg[200:400])
    args = [x, y, ["mul", I(2), x], ["add", x, I(1)], ["neg", x], Q(1, 3)]
    f1 = [[f, a] for f in FUN1 for a in args]
    for k in range(0, len(f1), 180):
        out.append(f1[k:k + 180])
    f2 = [[f, a, b] for f in FUN2 + ["function_symbol_2"] for a in args[:5] for b in args[:5] if f != "function_symbol_2"]
    f2 += [["function_symbol", n, L(a, b)] for n in ("f", "g") for a in args[:4] for b in args[:4]]
    f2 += [["function_symbol", n, L(a)] for n in ("f", "g") for a in args]
    f2 += [[o, L(a, b)] for o in ("max", "min") for a in args for b in args]
    f2 += [["levi_civita", L(a, b, c)] for a in (x, y, I(1)) for b in (x, y, I(2)) for c in (z, I(3), x)]
    for k in range(0, len(f2), 180):
        out.append(f2[k:k + 180])
    ar = [x, y, I(2), I(-1), Q(1, 2), ["sqrt", I(2)], ["constant", "I"], ["constant", "pi"], ["real_double", 0.5],
          ["add", x, y], ["mul", x, y], ["pow", x, I(2)]]
    arith = [[o, a, b] for o in ("add", "mul", "pow") for a in ar for b in ar]
    for k in range(0, len(arith), 150):
        out.append(arith[k:k + 150])
    fxy = ["function_symbol", "f", L(x, y)]
    gx = ["function_symbol", "g", L(x)]
    der = [["diff", fxy, x], ["diff", fxy, y], ["diff", ["diff", fxy, x], y], ["diff", ["diff", fxy, y], x],
           ["diff", ["diff", fxy, x], x], ["diff", gx, x], ["diff", ["function_symbol", "g", L(["mul", I(2), x])], x],
           ["diff", ["function_symbol", "g", L(["pow", x, I(2)])], x], ["diff", ["function_symbol", "f", L(["mul", x, y], x)], x],
           ["subs", ["diff", gx, x], L(L(x, I(0)))], ["subs", ["diff", gx, x], L(L(x, y))],
           ["subs", ["diff", fxy, x], L(L(x, I(1)))], ["subs", ["diff", fxy, x], L(L(y, I(1)))],
           ["diff", ["abs", x], x], ["diff", ["zeta2", x, y], x], ["diff", ["polygamma", x, y], x],
           ["diff", ["kronecker_delta", x, y], x], ["diff", ["lowergamma", x, y], x], ["diff", ["uppergamma", x, y], x],
           ["diff", ["levi_civita", L(x, y, I(2))], x], ["diff", ["dirichlet_eta", x], x]]
    nums = []
    from .checks_shared_numbers import REPS
    for k in REPS:
        nums += REPS[k]
    out.append(der + nums)
    return [{"base": p, "variants": [], "order": 12345 + 7 * i} for i, p in enumerate(out)]
