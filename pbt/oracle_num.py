"""Numeric value oracle over raw dumps and recipes (DESIGN.md 5.2, 3.3, 3.5).

value(node, env, dps) evaluates a *dump* (class-name heads, e.g. ["Add", ...])
or a *recipe* (op-name heads, e.g. ["add", a, b]) with mpmath, independently of
the library's own evaluators.  Anything the oracle cannot or must not judge
raises Unjudgeable(reason) -- callers count and skip, never report."""
from fractions import Fraction
import mpmath
from mpmath import mp, mpf, mpc

from .engine import hexf


class Unjudgeable(Exception):
    def __init__(self, reason):
        Exception.__init__(self, reason)
        self.reason = reason


def _real(x, what):
    """x as mpf when it is (numerically) real, else Unjudgeable"""
    if isinstance(x, mpc):
        if x.imag == 0 or abs(x.imag) <= mpf(10) ** (-(mp.dps - 8)) * max(1, abs(x.real)):
            return x.real
        raise Unjudgeable("non_real_in_real_context:" + what)
    return mpf(x)


def _finite(x):
    if isinstance(x, mpc):
        return mpmath.isfinite(x.real) and mpmath.isfinite(x.imag)
    return mpmath.isfinite(x)


_MAG = [300]  # decimal exponent bound on every intermediate value (set by value(..., mag=))


def _chk(x, what):
    if not _finite(x):
        raise Unjudgeable("non_finite:" + what)
    if abs(x) > mpf(10) ** _MAG[0]:
        raise Unjudgeable("overflow")
    if x != 0 and abs(x) < mpf(10) ** -_MAG[0]:
        raise Unjudgeable("overflow:underflow")
    return x


def _pow(b, e):
    if b == 0:
        if e == 0:
            return mpf(1)
        er = e.real if isinstance(e, mpc) else e
        if er > 0:
            return mpf(0)
        raise Unjudgeable("pole:0**nonpositive")
    er = e.real if isinstance(e, mpc) else e
    # magnitude guard: |b**e| far outside double range is neither evaluated nor sent to the library
    lb = mp.log(abs(b), 2)
    if abs(er * lb) > 3.7 * _MAG[0] or abs(e) > 10 ** 7:
        raise Unjudgeable("overflow:pow")
    if isinstance(e, mpf) and e == int(e) and abs(e) < 10 ** 6:
        return mp.power(b, int(e))
    return mp.exp(e * mp.log(b))


def _sign(x):
    if x == 0:
        return mpf(0)
    if isinstance(x, mpc) and x.imag != 0:
        return x / abs(x)
    xr = x.real if isinstance(x, mpc) else x
    return mpf(1) if xr > 0 else mpf(-1)


def _floor(x):
    if isinstance(x, mpc) and x.imag != 0:
        raise Unjudgeable("floor_of_complex")
    return mp.floor(_real(x, "floor"))


def _ceil(x):
    if isinstance(x, mpc) and x.imag != 0:
        raise Unjudgeable("ceiling_of_complex")
    return mp.ceil(_real(x, "ceiling"))


def _trunc(x):
    r = _real(x, "truncate")
    return mp.floor(r) if r >= 0 else mp.ceil(r)


def _atan2(y, x):
    y = _real(y, "atan2")
    x = _real(x, "atan2")
    if x == 0 and y == 0:
        raise Unjudgeable("atan2(0,0)")
    return mp.atan2(y, x)


def _guard_pole(f, name):
    def g(*a):
        try:
            r = f(*a)
        except (ZeroDivisionError, ValueError, OverflowError, mpmath.libmp.NoConvergence) as e:
            raise Unjudgeable("pole_or_domain:" + name)
        except (TypeError, NotImplementedError):
            raise Unjudgeable("oracle_unsupported:" + name)
        except Unjudgeable:
            raise
        except (RecursionError, ArithmeticError, AssertionError, IndexError, KeyError, AttributeError):
            raise Unjudgeable("oracle_failed:" + name)  # mpmath itself gave up (e.g. gammainc recursion)
        return _chk(r, name)
    return g


def _primepi(x):
    r = _real(x, "primepi")
    if r > 10 ** 6:
        raise Unjudgeable("primepi_large")
    n = int(mp.floor(r))
    if n < 2:
        return mpf(0)
    sieve = bytearray([1]) * (n + 1)
    sieve[0:2] = b"\0\0"
    for i in range(2, int(n ** 0.5) + 1):
        if sieve[i]:
            sieve[i * i::i] = bytearray(len(sieve[i * i::i]))
    return mpf(sum(sieve))


def _primorial(x):
    r = _real(x, "primorial")
    if r > 5000:
        raise Unjudgeable("primorial_large")
    if r < 1:
        # SymEngine: primorial defined for positive arguments
        raise Unjudgeable("primorial_domain")
    n = int(mp.floor(r))
    out = 1
    for p in range(2, n + 1):
        if all(p % q for q in range(2, int(p ** 0.5) + 1)):
            out *= p
    return mpf(out)


def _zeta2(s, a):
    return mp.zeta(s, a)


def _polygamma(n, x):
    nr = _real(n, "polygamma order")
    if nr != int(nr) or nr < 0:
        raise Unjudgeable("polygamma_order")
    return mp.psi(int(nr), x)


def _lowergamma(s, x):
    return mp.gammainc(s, 0, x)


def _uppergamma(s, x):
    return mp.gammainc(s, x, mp.inf)


def _acot(x):
    if x == 0:
        return mp.pi / 2
    return mp.atan(1 / x)


# name -> (arity or None, function)
F1 = {
    "sin": mp.sin, "cos": mp.cos, "tan": mp.tan, "cot": mp.cot, "csc": mp.csc, "sec": mp.sec,
    "asin": mp.asin, "acos": mp.acos, "atan": mp.atan, "acot": _acot,
    "asec": lambda x: mp.acos(1 / x), "acsc": lambda x: mp.asin(1 / x),
    "sinh": mp.sinh, "cosh": mp.cosh, "tanh": mp.tanh, "coth": mp.coth, "csch": mp.csch, "sech": mp.sech,
    "asinh": mp.asinh, "acosh": mp.acosh, "atanh": mp.atanh,
    "acoth": lambda x: mp.atanh(1 / x), "asech": lambda x: mp.acosh(1 / x), "acsch": lambda x: mp.asinh(1 / x),
    "log": mp.log, "exp": mp.exp, "lambertw": mp.lambertw, "zeta": mp.zeta, "dirichlet_eta": mp.altzeta,
    "erf": mp.erf, "erfc": mp.erfc, "gamma": mp.gamma, "loggamma": mp.loggamma,
    "abs": lambda x: abs(x), "sign": _sign, "floor": _floor, "ceiling": _ceil, "truncate": _trunc,
    "conjugate": lambda x: mp.conj(x), "digamma": lambda x: mp.psi(0, x), "trigamma": lambda x: mp.psi(1, x),
    "primepi": _primepi, "primorial": _primorial, "sqrt": mp.sqrt, "cbrt": lambda x: _pow(x, mpf(1) / 3),
    "neg": lambda x: -x, "unevaluated_expr": lambda x: x,
}
F2 = {
    "zeta2": _zeta2, "lowergamma": _lowergamma, "uppergamma": _uppergamma, "beta": mp.beta,
    "polygamma": _polygamma, "atan2": _atan2, "log2": lambda x, b: mp.log(x) / mp.log(b),
    "add": lambda x, y: x + y, "sub": lambda x, y: x - y, "mul": lambda x, y: x * y,
    "pow": _pow,
}
CLASS2NAME = {
    "Sin": "sin", "Cos": "cos", "Tan": "tan", "Cot": "cot", "Csc": "csc", "Sec": "sec",
    "ASin": "asin", "ACos": "acos", "ATan": "atan", "ACot": "acot", "ASec": "asec", "ACsc": "acsc",
    "Sinh": "sinh", "Cosh": "cosh", "Tanh": "tanh", "Coth": "coth", "Csch": "csch", "Sech": "sech",
    "ASinh": "asinh", "ACosh": "acosh", "ATanh": "atanh", "ACoth": "acoth", "ASech": "asech", "ACsch": "acsch",
    "Log": "log", "LambertW": "lambertw", "Dirichlet_eta": "dirichlet_eta", "Erf": "erf", "Erfc": "erfc",
    "Gamma": "gamma", "LogGamma": "loggamma", "Abs": "abs", "Sign": "sign", "Floor": "floor",
    "Ceiling": "ceiling", "Truncate": "truncate", "Conjugate": "conjugate", "PrimePi": "primepi",
    "Primorial": "primorial", "UnevaluatedExpr": "unevaluated_expr",
    "LowerGamma": "lowergamma", "UpperGamma": "uppergamma", "Beta": "beta", "PolyGamma": "polygamma",
    "ATan2": "atan2", "Zeta": "zeta2",
}
CONSTS = {"pi": lambda: +mp.pi, "E": lambda: +mp.e, "EulerGamma": lambda: +mp.euler,
          "Catalan": lambda: +mp.catalan, "GoldenRatio": lambda: +mp.phi}
REL = {"Equality": "==", "Unequality": "!=", "LessThan": "<=", "StrictLessThan": "<",
       "Eq": "==", "Ne": "!=", "Le": "<=", "Lt": "<", "Ge": ">=", "Gt": ">"}


def frac_to_mp(q):
    return mpf(q.numerator) / mpf(q.denominator)


def double_exact(s):
    """hexfloat string -> mpf exactly"""
    f = hexf(s)
    if f != f or f in (float("inf"), float("-inf")):
        raise Unjudgeable("non_finite_leaf")
    return mpf(f)


class Evaluator:
    """env: symbol name -> number; funcs: FunctionSymbol name -> python callable on mp values"""

    def __init__(self, env=None, funcs=None, real_margin=None, cut_guard=False, pert=None):
        self.pert = pert  # bit pattern: every float-tainted node's value is scaled by (1 +- 2^-52)
        self.pcount = 0
        self.env = env or {}
        self.funcs = funcs or {}
        self.margin = real_margin  # minimal distance from kinks for real-only piecewise ops
        self.cut_guard = cut_guard  # skip non-literal bases on/near the negative real axis

    LITERALS = ("Integer", "Rational", "Complex", "RealDouble", "ComplexDouble", "RealMPFR", "ComplexMPC",
                "integer", "rational", "complex", "real_double", "complex_double")

    def powv(self, bnode, enode):
        b = self.value(bnode)
        e = self.value(enode)
        if self.cut_guard and bnode[0] not in self.LITERALS:
            integral = (not isinstance(e, mpc) or e.imag == 0) and _real(e, "exp") == mp.nint(_real(e, "exp"))
            if not integral:
                br = b.real if isinstance(b, mpc) else b
                bi = b.imag if isinstance(b, mpc) else mpf(0)
                if abs(b) < mpf(10) ** -12 or (br < 0 and abs(bi) <= mpf(10) ** -9 * abs(br)):
                    raise Unjudgeable("on_branch_cut:pow")
        return _guard_pole(_pow, "pow")(b, e)

    # ---- helpers
    def _kink(self, x, what):
        """discontinuity guard for floor/sign/relationals: value must be >= margin away from the jump"""
        if self.margin is not None and abs(x) < self.margin:
            raise Unjudgeable("near_kink:" + what)

    def rel(self, op, l, r):
        l = _real(l, "relational")
        r = _real(r, "relational")
        self._kink(l - r, "relational")
        return {"==": l == r, "!=": l != r, "<": l < r, "<=": l <= r, ">": l > r, ">=": l >= r}[op]

    def on_cut(self, name, x, argnode=None):
        """is x on (or within 1e-9 relative of) a branch cut of the named function?  (C99/mpmath cuts)"""
        re = x.real if isinstance(x, mpc) else mpf(x)
        im = x.imag if isinstance(x, mpc) else mpf(0)
        eps = mpf(10) ** -9 * max(1, abs(x))
        real_axis = abs(im) <= eps
        imag_axis = abs(re) <= eps
        if name in ("asin", "acos", "atanh"):
            return real_axis and abs(re) >= 1 - eps
        if name in ("asec", "acsc", "acoth"):
            return real_axis and abs(re) <= 1 + eps
        if name in ("atan", "asinh"):
            return imag_axis and abs(im) >= 1 - eps
        if name in ("acot", "acsch"):
            return imag_axis and abs(im) <= 1 + eps
        if name == "acosh":
            return real_axis and re <= 1 + eps
        if name == "asech":
            return real_axis and (re <= eps or re >= 1 - eps)
        if name == "log":
            if argnode is not None and argnode[0] in self.LITERALS and argnode[0] not in ("RealDouble", "ComplexDouble", "real_double", "complex_double"):
                return False  # log of an exact negative number: log|x| + I*pi is the universal convention
            return real_axis and re <= eps
        if name == "loggamma":
            return real_axis and re <= eps
        if name == "lambertw":
            return real_axis and re <= -mp.exp(-1) + eps
        return False

    def call1(self, name, x, argnode=None):
        if self.cut_guard and self.on_cut(name, x, argnode):
            raise Unjudgeable("on_branch_cut:" + name)
        if name in ("floor", "ceiling", "truncate"):
            xr = _real(x, name)
            if self.margin is not None:
                self._kink(xr - mp.nint(xr), name)
        if name == "sign" and self.margin is not None and not (isinstance(x, mpc) and x.imag != 0):
            self._kink(_real(x, "sign"), "sign")
        if name == "abs" and self.margin is not None:
            # not a jump; fine
            pass
        return _guard_pole(F1[name], name)(x)

    def truth(self, d):
        """boolean value of a Boolean dump/recipe"""
        t = d[0]
        if t == "BooleanAtom":
            return bool(d[1])
        if t in ("true", "false"):
            return t == "true"
        if t in REL:
            return self.rel(REL[t], self.value(d[1]), self.value(d[2]))
        if t in ("And", "and"):
            items = d[1] if t == "And" else d[1][1:]
            return all(self.truth(x) for x in items)
        if t in ("Or", "or"):
            items = d[1] if t == "Or" else d[1][1:]
            return any(self.truth(x) for x in items)
        if t in ("Xor", "xor"):
            items = d[1] if t == "Xor" else d[1][1:]
            return sum(1 for x in items if self.truth(x)) % 2 == 1
        if t in ("nand",):
            return not all(self.truth(x) for x in d[1][1:])
        if t in ("nor",):
            return not any(self.truth(x) for x in d[1][1:])
        if t in ("xnor",):
            return sum(1 for x in d[1][1:] if self.truth(x)) % 2 == 0
        if t in ("Not", "not"):
            return not self.truth(d[1])
        if t in ("Contains", "contains"):
            return self.member(self.value(d[1]), d[2])
        raise Unjudgeable("truth_unsupported:" + t)

    def member(self, v, s):
        t = s[0]
        if t in ("Interval", "interval"):
            lo_inf = s[1][0] in ("Infty", "noo", "oo")
            hi_inf = s[2][0] in ("Infty", "noo", "oo")
            vr = _real(v, "contains")
            lopen = bool(s[3]) if len(s) > 3 else False
            ropen = bool(s[4]) if len(s) > 4 else False
            ok = True
            if not lo_inf:
                lo = _real(self.value(s[1]), "interval")
                self._kink(vr - lo, "interval_endpoint")
                ok = ok and (vr > lo or (vr == lo and not lopen))
            if not hi_inf:
                hi = _real(self.value(s[2]), "interval")
                self._kink(vr - hi, "interval_endpoint")
                ok = ok and (vr < hi or (vr == hi and not ropen))
            return ok
        if t in ("Reals", "reals"):
            return not (isinstance(v, mpc) and v.imag != 0)
        if t in ("Complexes", "complexes", "UniversalSet", "universalset"):
            return True
        if t in ("EmptySet", "emptyset"):
            return False
        raise Unjudgeable("member_unsupported:" + t)

    @staticmethod
    def fleaf(x):
        if isinstance(x, (float, int)):
            if x != x or x in (float("inf"), float("-inf")):
                raise Unjudgeable("non_finite_leaf")
            return mpf(x)
        if x[0] == "__exactfloat__":
            return frac_to_mp(x[1])
        return double_exact(x[1])

    # ---- main
    def value(self, d):
        if self.pert is None:
            return self._value(d)
        v = self._value(d)
        if has_float(d):
            k = self.pcount
            self.pcount += 1
            sgn = 1 if (self.pert >> (k % 61)) & 1 else -1
            v = v * (1 + mpf(sgn) * mpf(2) ** -52)
        return v

    def _value(self, d):
        t = d[0]
        # ---------------- leaves (dump)
        if t == "Integer":
            return mpf(int(d[1]))
        if t == "Rational":
            return mpf(int(d[1])) / mpf(int(d[2]))
        if t == "Complex":
            return mpc(self.value(d[1]), self.value(d[2]))
        if t == "RealDouble":
            return double_exact(d[1])
        if t == "__exactfloat__":
            return frac_to_mp(d[1])
        if t == "ComplexDouble":
            return mpc(double_exact(d[1]), double_exact(d[2]))
        if t == "RealMPFR":
            return mpfr_exact(d[1])
        if t == "ComplexMPC":
            return mpc(mpfr_exact(d[1]), mpfr_exact(d[2]))
        if t in ("Symbol", "Dummy"):
            if d[1] not in self.env:
                raise Unjudgeable("unbound_symbol:" + d[1])
            return self.env[d[1]]
        if t == "Constant":
            return CONSTS[d[1]]()
        if t in ("Infty", "NaN", "oo", "noo", "zoo", "nan"):
            raise Unjudgeable("infinite_or_nan_leaf")
        # ---------------- leaves (recipe)
        if t == "integer":
            return mpf(int(d[1]))
        if t == "rational":
            return mpf(int(d[1])) / mpf(int(d[2]))
        if t == "complex":
            return mpc(self.value(d[1]), self.value(d[2]))
        if t == "__exactfloat__":
            return frac_to_mp(d[1])
        if t == "real_double":
            return self.fleaf(d[1])
        if t == "complex_double":
            return mpc(self.fleaf(d[1]), self.fleaf(d[2]))
        if t in ("symbol", "dummy"):
            if d[1] not in self.env:
                raise Unjudgeable("unbound_symbol:" + d[1])
            return self.env[d[1]]
        if t == "constant":
            if d[1] == "I":
                return mpc(0, 1)
            return CONSTS[d[1]]()
        # ---------------- dump interior
        if t == "Add":
            acc = self.value(d[1])
            for term, coef in d[2]:
                acc = acc + self.value(coef) * self.value(term)
            return _chk(acc, "Add")
        if t == "Mul":
            acc = self.value(d[1])
            for base, ex in d[2]:
                acc = acc * self.powv(base, ex)
            return _chk(acc, "Mul")
        if t in ("Pow", "pow"):
            return self.powv(d[1], d[2])
        if t == "sqrt":
            return self.powv(d[1], ["rational", 1, 2])
        if t == "cbrt":
            return self.powv(d[1], ["rational", 1, 3])
        if t in CLASS2NAME:
            n = CLASS2NAME[t]
            if n in F1:
                return self.call1(n, self.value(d[1]), d[1])
            return _guard_pole(F2[n], n)(self.value(d[1]), self.value(d[2]))
        if t in ("Max", "Min", "max", "min"):
            items = d[1:] if t in ("Max", "Min") else d[1][1:]
            vals = [_real(self.value(x), t) for x in items]
            if self.margin is not None:
                for i in range(len(vals)):
                    for j in range(i):
                        if vals[i] != vals[j]:
                            self._kink(vals[i] - vals[j], "maxmin")
            return max(vals) if t in ("Max", "max") else min(vals)
        if t in ("KroneckerDelta", "kronecker_delta"):
            x, y = self.value(d[1]), self.value(d[2])
            self._kink(x - y, "kronecker")
            return mpf(1) if x == y else mpf(0)
        if t in ("LeviCivita", "levi_civita"):
            items = d[1:] if t == "LeviCivita" else d[1][1:]
            vals = [self.value(x) for x in items]
            n = len(vals)
            num = mpf(1)
            for i in range(n):
                for j in range(i + 1, n):
                    num = num * (vals[j] - vals[i])
            den = 1
            for k in range(1, n):
                f = 1
                for m in range(1, k + 1):
                    f *= m
                den *= f
            return num / den
        if t in ("Piecewise", "piecewise"):
            pairs = d[1] if t == "Piecewise" else [p[1:] for p in d[1][1:]]
            for ex, cond in pairs:
                if self.truth(cond):
                    return self.value(ex)
            raise Unjudgeable("piecewise_no_branch")
        if t in REL or t in ("BooleanAtom", "And", "Or", "Not", "Xor", "Contains", "and", "or", "not",
                             "xor", "nand", "nor", "xnor", "contains", "true", "false"):
            return mpf(1) if self.truth(d) else mpf(0)
        if t == "FunctionSymbol":
            f = self.funcs.get(d[1])
            if f is None:
                raise Unjudgeable("unbound_function:" + d[1])
            return _chk(f(*[self.value(x) for x in d[2]]), "fsym")
        if t == "function_symbol":
            f = self.funcs.get(d[1])
            if f is None:
                raise Unjudgeable("unbound_function:" + d[1])
            return _chk(f(*[self.value(x) for x in d[2][1:]]), "fsym")
        if t == "Derivative":
            return self.derivative(d[1], d[2])
        if t == "Subs":
            return self.subs_node(d[1], d[2])
        # ---------------- recipe interior
        if t in F1:
            return self.call1(t, self.value(d[1]), d[1])
        if t in F2:
            return _guard_pole(F2[t], t)(self.value(d[1]), self.value(d[2]))
        if t == "div":
            den = self.value(d[2])
            if den == 0:
                raise Unjudgeable("pole:div")
            return _chk(self.value(d[1]) / den, "div")
        if t in ("add_vec", "mul_vec"):
            vals = [self.value(x) for x in d[1][1:]]
            acc = mpf(0) if t == "add_vec" else mpf(1)
            for v in vals:
                acc = acc + v if t == "add_vec" else acc * v
            return _chk(acc, t)
        raise Unjudgeable("oracle_unsupported:" + str(t))

    # ---- Derivative / Subs by high-precision numerical differentiation
    def derivative(self, expr, syms):
        names = []
        for s in syms:
            if s[0] not in ("Symbol", "Dummy"):
                raise Unjudgeable("derivative_wrt_nonsymbol")
            names.append(s[1])
        return self._nd(expr, names)

    def _nd(self, expr, names):
        if not names:
            return self.value(expr)
        name = names[0]
        if name not in self.env:
            raise Unjudgeable("unbound_symbol:" + name)
        x0 = self.env[name]
        outer = self

        def f(t):
            sub = Evaluator(dict(outer.env), outer.funcs, outer.margin, outer.cut_guard)
            sub.env[name] = t
            return sub._nd(expr, names[1:])
        try:
            with mp.extradps(mp.dps * (len(names))):
                r = mp.diff(f, x0, 1, h=mpf(10) ** (-(mp.dps // 2)))
        except (ZeroDivisionError, ValueError):
            raise Unjudgeable("nd_failed")
        return _chk(+r, "derivative")

    def subs_node(self, expr, pairs):
        env = dict(self.env)
        new = {}
        for var, point in pairs:
            if var[0] not in ("Symbol", "Dummy"):
                raise Unjudgeable("subs_nonsymbol")
            new[var[1]] = self.value(point)
        env.update(new)
        return Evaluator(env, self.funcs, self.margin, self.cut_guard).value(expr)


def mpfr_exact(d):
    prec, kind = d[0], d[1]
    if kind != "num":
        if kind in ("0", "-0"):
            return mpf(0)
        raise Unjudgeable("non_finite_leaf")
    return mpmath.ldexp(mpf(int(d[2])), int(d[3]))


def env_mp(env):
    """env values may be mp numbers, python numbers, Fractions or [re, im] pairs of Fraction strings"""
    out = {}
    for k, v in (env or {}).items():
        if isinstance(v, (list, tuple)):
            re, im = Fraction(v[0]), Fraction(v[1])
            out[k] = mpc(frac_to_mp(re), frac_to_mp(im)) if im != 0 else frac_to_mp(re)
        elif isinstance(v, Fraction):
            out[k] = frac_to_mp(v)
        elif isinstance(v, (complex, mpc)):
            out[k] = mpc(v)
        else:
            out[k] = mpf(v)
    return out


def value(node, env=None, dps=40, funcs=None, margin=None, cut_guard=False, mag=300, pert=None):
    old = _MAG[0]
    _MAG[0] = mag
    try:
        with mp.workdps(dps):
            return +Evaluator(env_mp(env), funcs, margin, cut_guard, pert).value(node)
    finally:
        _MAG[0] = old


def stable_value(node, env=None, funcs=None, margin=None, lo=35, hi=70, agree=None, cut_guard=False, mag=300):
    """Evaluate at two precisions; Unjudgeable('ill_conditioned') if they disagree."""
    a = value(node, env, lo, funcs, margin, cut_guard, mag)
    b = value(node, env, hi, funcs, margin, cut_guard, mag)
    with mp.workdps(hi):
        tol = mpf(10) ** (-(agree if agree is not None else lo - 10))
        if abs(a - b) > tol * max(1, abs(b)):
            raise Unjudgeable("ill_conditioned")
    return b


def close(a, b, rel, abs_=0, dps=70):
    with mp.workdps(dps):
        return abs(a - b) <= mpf(rel) * max(abs(a), abs(b)) + mpf(abs_)


def has_float(d):
    """does the dump/recipe contain an inexact leaf"""
    if isinstance(d, (list, tuple)):
        if d and d[0] in ("RealDouble", "ComplexDouble", "RealMPFR", "ComplexMPC", "real_double", "complex_double"):
            return True
        return any(has_float(x) for x in d)
    return isinstance(d, float)


def perturb_floats(node, bits):
    """copy of a recipe/dump with the k-th float leaf scaled by (1 +- 2^-52) according to bits"""
    counter = [0]

    def walk(d):
        if isinstance(d, float) and (d != d or d in (float("inf"), float("-inf"))):
            return d
        if isinstance(d, float):
            k = counter[0]
            counter[0] += 1
            sgn = 1 if (bits >> (k % 60)) & 1 else -1
            return ["__exactfloat__", Fraction(d) * (1 + Fraction(sgn, 2 ** 52))]
        if isinstance(d, (list, tuple)):
            if d and d[0] == "RealDouble":
                k = counter[0]
                counter[0] += 1
                sgn = 1 if (bits >> (k % 60)) & 1 else -1
                return ["__exactfloat__", Fraction(hexf(d[1])) * (1 + Fraction(sgn, 2 ** 52))]
            return [walk(x) for x in d]
        return d
    return walk(node)


def float_kappa(node, env, funcs=None, margin=None, cut_guard=False, dps=50, mag=300):
    """first-order forward-error amplification (DESIGN 3.3): the value of every node whose subtree
    contains an inexact leaf (the library rounds each such operation to double) is perturbed by
    +-1 ulp under four sign patterns; Unjudgeable if the amplification exceeds 1e4"""
    base = value(node, env, dps, funcs, margin, cut_guard, mag)
    worst = mpf(0)
    with mp.workdps(dps):
        for bits in (0x5555555555555555, 0x3333333333333333, 0x0f0f0f0f0f0f0f0f, 0xffffffffffffffff,
                     0x00ff00ff00ff00ff, 0x6996966996696996):
            v = value(node, env, dps, funcs, margin, cut_guard, mag, pert=bits)
            den = abs(base) if base != 0 else mpf(1)
            worst = max(worst, abs(v - base) / den / mpf(2) ** -52)
    if worst > 10 ** 4:
        raise Unjudgeable("ill_conditioned_float")
    return max(worst, mpf(1))


def float_abs_tol(node, env, funcs=None, margin=None, cut_guard=False, dps=50, mag=300, factor=64):
    """absolute tolerance for comparing a double-precision library result with the exact value of `node`:
    factor * 2^-53 * max(|value|, A) where A is the first-order absolute error amplification of one-ulp
    relative perturbations of every float-tainted node (six sign patterns).  Unjudgeable('ill_conditioned_float')
    when A exceeds 1e4*|value| for a non-zero value."""
    base = value(node, env, dps, funcs, margin, cut_guard, mag)
    worst = mpf(0)
    with mp.workdps(dps):
        for bits in (0x5555555555555555, 0x3333333333333333, 0x0f0f0f0f0f0f0f0f, 0xffffffffffffffff,
                     0x00ff00ff00ff00ff, 0x6996966996696996):
            v = value(node, env, dps, funcs, margin, cut_guard, mag, pert=bits)
            worst = max(worst, abs(v - base) / mpf(2) ** -52)
        if base != 0 and worst > 10 ** 4 * abs(base):
            raise Unjudgeable("ill_conditioned_float")
        return factor * mpf(2) ** -53 * max(worst, abs(base))


_ARITH = ("add", "mul", "sub", "div", "neg", "add_vec", "mul_vec", "list")
MAX_EXACT_BITS = 300000


def exact_bits(d, env=None, funcs=None):
    """estimated size in bits of the exact number a numbers-only arithmetic recipe denotes (None when the subtree
    holds anything but exact numbers and + - * / **): (1 - 10/(2**63+1))**388800 has magnitude 1 but 25 million bits"""
    if not isinstance(d, (list, tuple)) or not d or not isinstance(d[0], str):
        return None
    h = d[0]
    try:
        if h == "integer":
            return abs(int(d[1])).bit_length() + 1
        if h == "rational":
            return abs(int(d[1])).bit_length() + abs(int(d[2])).bit_length() + 1
    except Exception:
        return None
    if h in _ARITH:
        tot = 0
        for x in d[1:]:
            b = exact_bits(x, env, funcs)
            if b is None:
                return None
            tot += b + 1
        return tot
    if h == "pow" and len(d) == 3:
        b = exact_bits(d[1], env, funcs)
        e = exact_bits(d[2], env, funcs)
        if b is None or e is None:
            return None
        if e > 64:
            return 10 ** 9
        try:
            ev = abs(complex(value(d[2], env, 20, funcs, None, False, 400)))
        except Exception:
            return None
        return int(b * max(1.0, min(ev, 1e9)))
    return None


def resource_blocked(node, env=None, mag=300, funcs=None):
    """True when some subtree of the recipe, evaluated on its own, has a value outside
    10**+-mag (e.g. 4**(2**63)): such recipes are not sent to the library at all --
    exhausting memory/time on an astronomically large exact power is not a property violation.
    Every subtree is tried separately because an unrelated Unjudgeable (branch cut, pole)
    in a sibling must not hide the blow-up."""
    hit = [False]

    def walk(d):
        if hit[0] or not isinstance(d, (list, tuple)) or not d or not isinstance(d[0], str):
            return
        for x in d[1:]:
            walk(x)
        if d[0] == "pow":
            b = exact_bits(d, env, funcs)
            if b is not None and b > MAX_EXACT_BITS:
                hit[0] = True
                return
        if d[0] in ("pow", "Pow", "sqrt", "cbrt", "exp", "mul", "mul_vec", "Mul", "gamma", "Gamma"):
            try:
                value(d, env, 20, funcs, None, False, mag)
            except Unjudgeable as u:
                if u.reason.startswith("overflow"):
                    hit[0] = True
            except Exception:
                pass
    walk(node)
    return hit[0]
