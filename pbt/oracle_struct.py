"""Independent re-statement of canonical-form invariants over the raw dump (DESIGN.md 5.3, Appendix E; subset:
numbers, Add, Mul, Pow, a few containers).  check(dump) returns None or a string describing the first violated rule."""
from math import gcd

NUM = ("Integer", "Rational", "Complex", "RealDouble", "ComplexDouble", "RealMPFR", "ComplexMPC", "Infty", "NaN")
EXACT = ("Integer", "Rational", "Complex")


def is_num(d):
    return isinstance(d, list) and d and d[0] in NUM


def is_zero(d):
    return d == ["Integer", "0"] or (d[0] == "RealDouble" and d[1] in ("0x0p+0", "-0x0p+0"))


def check(d, path="root"):
    if not isinstance(d, list) or not d or not isinstance(d[0], str):
        if isinstance(d, list):
            for i, x in enumerate(d):
                r = check(x, path)
                if r:
                    return r
        return None
    t = d[0]
    if t == "Rational":
        n, q = int(d[1]), int(d[2])
        if q <= 1 or gcd(abs(n), q) != 1:
            return "%s: Rational %s/%s is not in lowest terms with denominator > 1" % (path, n, q)
        return None
    if t == "Complex":
        if d[2] == ["Integer", "0"]:
            return "%s: Complex with zero imaginary part" % path
        return check(d[1], path) or check(d[2], path)
    if t == "Add":
        coef, terms = d[1], d[2]
        if not is_num(coef):
            return "%s: Add coefficient is not a Number" % path
        if not terms:
            return "%s: Add with empty dictionary" % path
        if len(terms) == 1 and is_zero(coef):
            return "%s: Add with a single term and zero coefficient" % path
        for term, c in terms:
            if is_num(term):
                return "%s: Add has the numeric key %s" % (path, term)
            if not is_num(c):
                return "%s: Add term coefficient %s is not a Number" % (path, c)
            if is_zero(c):
                return "%s: Add stores a zero coefficient" % path
            if term[0] == "Mul" and term[1] != ["Integer", "1"]:
                return "%s: Add key is a Mul with coefficient %s (should be folded into the term coefficient)" % (path, term[1])
    if t == "Mul":
        coef, fac = d[1], d[2]
        if not is_num(coef):
            return "%s: Mul coefficient is not a Number" % path
        if is_zero(coef):
            return "%s: Mul with zero coefficient" % path
        if not fac:
            return "%s: Mul with empty dictionary" % path
        if len(fac) == 1 and coef == ["Integer", "1"] and fac[0][1] == ["Integer", "1"]:
            return "%s: Mul with coefficient 1 and a single factor to the power 1" % path
        for b, e in fac:
            if b[0] in ("Integer", "Rational") and e[0] == "Integer":
                return "%s: Mul holds (number %s)**(integer %s)" % (path, b, e)
            if b in (["Integer", "0"], ["Integer", "1"]):
                return "%s: Mul holds the base %s" % (path, b)
            if e == ["Integer", "0"]:
                return "%s: Mul holds an exponent 0" % path
            if b[0] == "Mul" and e[0] == "Integer":
                return "%s: Mul holds (product)**integer" % path
            if b[0] == "Pow" and e[0] == "Integer" and e != ["Integer", "1"]:
                return "%s: Mul holds (power)**integer" % path
    if t == "Pow":
        b, e = d[1], d[2]
        if b == ["Integer", "1"]:
            return "%s: Pow with base 1" % path
        if e in (["Integer", "0"], ["Integer", "1"]):
            return "%s: Pow with exponent %s" % (path, e[1])
        if b == ["Integer", "0"] and is_num(e):
            return "%s: Pow 0**number" % path
        if b[0] in ("Integer", "Rational") and e[0] == "Integer":
            return "%s: Pow (number)**(integer) left unevaluated" % path
        if b[0] in ("Mul", "Pow") and e[0] == "Integer":
            return "%s: Pow of a %s to an integer power" % (path, b[0])
        if b[0] in ("Integer", "Rational") and e[0] == "Rational" and not (0 < int(e[1]) < int(e[2])):
            return "%s: Pow (number)**(rational %s/%s) with exponent outside (0, 1)" % (path, e[1], e[2])
    if t == "FiniteSet" and not d[1]:
        return "%s: empty FiniteSet" % path
    if t in ("Union", "Intersection", "And", "Or") and isinstance(d[1], list) and len(d[1]) < 2:
        return "%s: %s with fewer than two members" % (path, t)
    if t == "Interval" and d[1] == d[2]:
        return "%s: Interval with equal endpoints" % path
    for i, x in enumerate(d[1:]):
        r = check(x, path + "/" + t)
        if r:
            return r
    return None
