"""The "fz" engine: runs a libFuzzer target (build variant `fuzz`) as a run-count-bounded campaign and
turns it into the same contract as pbt/engine.py `main` (DESIGN.md 2.1, 2.6, 2.7, 4):

    bin/check C18 --tier quick|thorough      env VERIF_SEED, VERIF_WORKERS
    bin/check C18 --replay <artifact | replay.json>

A check is a thin spec (dict) handed to `fuzz.main(spec)`:
    pid, target                 property id, fuzz target name (bin/build TARGETS)
    corpus                      committed seed corpus directory relative to /verif
    dict                        optional libFuzzer dictionary relative to /verif
    rule, assumptions           evidence texts
    tiers                       {"quick": {"workers": 8, "runs": N, "empty_workers": 1, "empty_runs": M,
                                           "max_len": L}, "thorough": {...}}
    hy_check                    optional engine.Check subclass run as a second, deterministic stage
                                (its counts are merged into the evidence)

Campaign: a FRESH work dir build/work/<pid>-<seed>/ ; every worker gets its own copy of the committed
corpus (some workers start from an empty corpus) and runs
    target -runs=N -seed=S -timeout=10 -rss_limit_mb=3000 -artifact_prefix=... -print_final_stats=1
Budgets are run counts.  A process that ends early because of load noise (timeout-/oom-/slow-unit-
artifact, resource exit 77, sanitizer allocation-size abort) is counted and restarted with the remaining
run budget and a new derived seed.  Only crash-* / leak-* artifacts are violation candidates; each is
re-run 3x in a fresh process (`target <file>`) and reported only if it fails all 3 times for a reason
that is not resource exhaustion.  evaluations = executed units summed over all processes (libFuzzer's
stat::number_of_executed_units); distinct_nontrivial = union of the hash sets the TARGET wrote to its
VERIF_FZ_STATS files (drv/fz_common.h).

Known findings (entries of known_findings.json whose property is this pid): the reproducer is an input
file; at start the target is run on it with no tag active.  `fixed` entry crashing -> VIOLATION.  `known`
entry still crashing -> `KNOWN-FINDING:` line and its tag goes to the target in VERIF_KNOWN_TAGS (the target
excludes that root cause by construction and counts the exclusions).
"""
import hashlib
import json
import os
import re
import resource
import shutil
import subprocess
import sys
import threading
import time

from . import engine

VERIF = engine.VERIF
BUILD = engine.BUILD

ASAN_OPTIONS = ("detect_leaks=1:abort_on_error=1:allocator_may_return_null=1:handle_abort=1:symbolize=1:"
                "malloc_context_size=5:alloc_dealloc_mismatch=0:detect_stack_use_after_return=0")
UBSAN_OPTIONS = "print_stacktrace=1:halt_on_error=1:symbolize=1"

# stderr signatures of process deaths that are resource exhaustion, not the property (DESIGN 3.4)
NOISE_SIGNATURES = [
    ("libFuzzer: timeout", "timeout"),
    ("libFuzzer: out-of-memory", "oom"),
    ("VERIF-RESOURCE-EXIT", "resource_exit"),
    ("AddressSanitizer: allocation-size-too-big", "asan_alloc_too_big"),
    ("AddressSanitizer: out of memory", "asan_out_of_memory"),
    ("AddressSanitizer: requested allocation size", "asan_alloc_too_big"),
    ("AddressSanitizer failed to allocate", "asan_out_of_memory"),
    ("GNU MP: Cannot allocate memory", "gmp_alloc"),
    ("gmp: overflow in mpz type", "gmp_alloc"),
]


def target_path(target):
    return os.path.join(BUILD, "fuzz" + os.environ.get("VERIF_BUILD_TAG", ""), "drv", target)


def child_env(extra=None):
    env = dict(os.environ)
    env["ASAN_OPTIONS"] = ASAN_OPTIONS
    env["UBSAN_OPTIONS"] = UBSAN_OPTIONS
    env["ASAN_SYMBOLIZER_PATH"] = "/usr/bin/llvm-symbolizer-14"
    for k in ("VERIF_FZ_STATS", "VERIF_KNOWN_TAGS", "VERIF_FZ_HISTDIR", "VERIF_FZ_HISTORY"):
        env.pop(k, None)
    if extra:
        env.update(extra)
    return env


def _preexec():
    # a deep but finite recursion must not look like a crash only because ASan frames are large
    try:
        soft, hard = resource.getrlimit(resource.RLIMIT_STACK)
        want = 1 << 30
        if hard != resource.RLIM_INFINITY:
            want = min(want, hard)
        resource.setrlimit(resource.RLIMIT_STACK, (want, hard))
    except Exception:
        pass
    os.setsid()


def classify(stderr, rc):
    """-> (kind, signature).  kind: 'ok' | 'noise:<why>' | 'crash'"""
    if rc == 0:
        return "ok", ""
    for sig, why in NOISE_SIGNATURES:
        if sig in stderr:
            return "noise:" + why, sig
    if rc == 77:
        return "noise:resource_exit", "exit 77"
    return "crash", signature(stderr)


def signature(stderr):
    lines = stderr.splitlines()
    for ln in lines:
        if "VERIF-ORACLE-VIOLATION:" in ln:
            return ln.strip()[:600]
    for ln in lines:
        if "runtime error:" in ln:
            return ln.strip()[-400:]
    for ln in lines:
        if "ERROR: AddressSanitizer" in ln or "ERROR: LeakSanitizer" in ln:
            fr = [l.strip() for l in lines if "/repo/symengine" in l or "SymEngine::" in l]
            return (ln.strip() + " @ " + (fr[0] if fr else ""))[:500]
    for ln in lines:
        if "terminate called" in ln or "ERROR: libFuzzer" in ln:
            return ln.strip()[:300]
    return (lines[-1].strip() if lines else "no stderr")[:300]


def run_one(target, path, tags=(), history=None, timeout=120):
    """run the target on one input file in a fresh process -> (kind, signature, stderr tail)"""
    extra = {}
    if tags:
        extra["VERIF_KNOWN_TAGS"] = ",".join(tags)
    if history:
        extra["VERIF_FZ_HISTORY"] = history
    cmd = [target_path(target), "-timeout=10", "-rss_limit_mb=3000", "-runs=1",
           "-artifact_prefix=" + os.path.join(engine.WORK, "rerun-%d-" % os.getpid()), path]
    os.makedirs(engine.WORK, exist_ok=True)
    try:
        p = subprocess.run(cmd, stdout=subprocess.PIPE, stderr=subprocess.STDOUT, env=child_env(extra),
                           timeout=timeout, preexec_fn=_preexec)
        out = p.stdout.decode("utf-8", "replace")
        rc = p.returncode
    except subprocess.TimeoutExpired as e:
        out = (e.stdout or b"").decode("utf-8", "replace") + "\nlibFuzzer: timeout (outer)"
        rc = -9
    # the re-run writes its own artifact copy; remove it
    for f in os.listdir(engine.WORK):
        if f.startswith("rerun-%d-" % os.getpid()):
            try:
                os.unlink(os.path.join(engine.WORK, f))
            except OSError:
                pass
    kind, sig = classify(out, rc)
    return kind, sig, out[-5000:]


class Campaign:
    def __init__(self, spec, tier, seed, tags, nworkers):
        self.spec = spec
        self.tier = tier
        self.seed = seed
        self.tags = list(tags)
        self.cfg = dict(spec["tiers"][tier])
        self.nworkers = nworkers
        self.work = os.path.join(engine.WORK, "%s-%d" % (spec["pid"], seed))
        self.stop = threading.Event()
        self.lock = threading.Lock()
        self.executed = 0
        self.noise = {}
        self.flaky = []
        self.confirmed = None   # (artifact path, signature, stderr, history path or None)
        self.launches = 0
        self.unspent = 0
        self.corpus_out = 0
        self.procs = {}

    def prepare(self):
        if os.path.exists(self.work):
            shutil.rmtree(self.work)
        for d in ("art", "stats", "log", "hist"):
            os.makedirs(os.path.join(self.work, d))
        self.seed_corpus = os.path.join(VERIF, self.spec["corpus"])
        self.seed_files = sorted(os.listdir(self.seed_corpus)) if os.path.isdir(self.seed_corpus) else []

    def worker(self, w, empty):
        cfg = self.cfg
        runs = cfg["empty_runs"] if empty else cfg["runs"]
        cdir = os.path.join(self.work, "w%d" % w, "corpus")
        os.makedirs(cdir)
        if not empty:
            for f in self.seed_files:
                shutil.copy(os.path.join(self.seed_corpus, f), os.path.join(cdir, f))
        base_seed = self.seed or 1
        remaining = runs
        launch = 0
        while remaining > 0 and not self.stop.is_set():
            if launch >= cfg.get("max_launches", 40):
                with self.lock:
                    self.unspent += remaining
                break
            s = int.from_bytes(hashlib.blake2b(("%d/%s/%d/%d" % (base_seed, self.spec["pid"], w, launch)).encode(),
                                               digest_size=4).digest(), "big") or 1
            if w == 0 and launch == 0:
                s = base_seed        # worker 0 runs with libFuzzer -seed=(VERIF_SEED or 1) itself
            prefix = os.path.join(self.work, "art", "w%d-" % w)
            log = os.path.join(self.work, "log", "w%d.%d.log" % (w, launch))
            statf = os.path.join(self.work, "stats", "w%d.%d.txt" % (w, launch))
            cmd = [target_path(self.spec["target"]), "-runs=%d" % remaining, "-seed=%d" % s, "-timeout=10",
                   "-rss_limit_mb=3000", "-artifact_prefix=" + prefix, "-print_final_stats=1",
                   "-max_len=%d" % cfg.get("max_len", 256), "-verbosity=0", "-len_control=0"]
            if self.spec.get("dict") and not empty:
                cmd.append("-dict=" + os.path.join(VERIF, self.spec["dict"]))
            cmd.append(cdir)
            before = set(os.listdir(os.path.join(self.work, "art")))
            env = child_env({"VERIF_FZ_STATS": statf, "VERIF_FZ_HISTDIR": os.path.join(self.work, "hist")})
            if self.tags:
                env["VERIF_KNOWN_TAGS"] = ",".join(self.tags)
            with open(log, "wb") as lf:
                p = subprocess.Popen(cmd, stdout=lf, stderr=subprocess.STDOUT, env=env, preexec_fn=_preexec)
                with self.lock:
                    self.procs[w] = p
                    self.launches += 1
                rc = p.wait()
                with self.lock:
                    self.procs.pop(w, None)
            with open(log, "rb") as lf:
                text = lf.read().decode("utf-8", "replace")
            m = re.search(r"stat::number_of_executed_units:\s*(\d+)", text)
            done = int(m.group(1)) if m else self._execs_from_stats(statf)
            with self.lock:
                self.executed += done
            remaining -= max(done, 1)
            launch += 1
            if self.stop.is_set():
                break
            if rc == 0:
                break
            new = sorted(set(os.listdir(os.path.join(self.work, "art"))) - before)
            new = [f for f in new if f.startswith("w%d-" % w)]
            kind, sig = classify(text, rc)
            cands = [f for f in new if f.startswith("w%d-crash-" % w) or f.startswith("w%d-leak-" % w)]
            for f in new:
                if f not in cands:
                    why = f[len("w%d-" % w):].split("-")[0]
                    if why == "slow":
                        why = "slow_unit"
                    with self.lock:
                        self.noise[why] = self.noise.get(why, 0) + 1
            if not cands:
                if not new:
                    why = kind[6:] if kind.startswith("noise:") else "died_without_artifact"
                    with self.lock:
                        self.noise[why] = self.noise.get(why, 0) + 1
                continue
            for f in cands:
                self.triage(os.path.join(self.work, "art", f), text, p.pid)
                if self.stop.is_set():
                    break

    def triage(self, art, text, pid):
        """re-run a crash/leak artifact 3x in fresh processes"""
        target = self.spec["target"]
        res = [run_one(target, art, self.tags) for _ in range(3)]
        kinds = [r[0] for r in res]
        hist = os.path.join(self.work, "hist", "history-%d.bin" % pid)
        if all(k == "crash" for k in kinds):
            with self.lock:
                if self.confirmed is None:
                    self.confirmed = (art, res[0][1], res[0][2], None)
            self.stop_all()
            return
        if all(k.startswith("noise:") for k in kinds):
            why = kinds[0][6:]
            with self.lock:
                self.noise[why] = self.noise.get(why, 0) + 1
            return
        # not reproducible alone: a process-lifetime history effect?  replay with the dumped history
        if os.path.exists(hist) and "VERIF-HISTORY" in text:
            res2 = [run_one(target, art, self.tags, history=hist) for _ in range(3)]
            if all(r[0] == "crash" for r in res2):
                with self.lock:
                    if self.confirmed is None:
                        self.confirmed = (art, res2[0][1], res2[0][2], hist)
                self.stop_all()
                return
        with self.lock:
            with open(art, "rb") as f:
                data = f.read()
            self.flaky.append({"artifact": os.path.basename(art), "input_hex": data[:400].hex(),
                               "reruns": kinds, "first_signature": signature(text)})

    def stop_all(self):
        self.stop.set()
        with self.lock:
            for p in list(self.procs.values()):
                try:
                    os.killpg(p.pid, 9)
                except Exception:
                    pass

    @staticmethod
    def _execs_from_stats(statf):
        n = 0
        try:
            with open(statf) as f:
                for ln in f:
                    if ln.startswith("E "):
                        n += int(ln.split()[1])
        except OSError:
            pass
        return n

    def run(self, wall_limit):
        self.prepare()
        ne = min(self.cfg.get("empty_workers", 1), max(0, self.nworkers - 1))
        threads = []
        for w in range(self.nworkers):
            t = threading.Thread(target=self.worker, args=(w, w >= self.nworkers - ne), daemon=True)
            t.start()
            threads.append(t)
        t0 = time.time()
        self.inconclusive = False
        while any(t.is_alive() for t in threads):
            time.sleep(0.5)
            if time.time() - t0 > wall_limit and not self.stop.is_set():
                self.inconclusive = True
                self.stop_all()
        for t in threads:
            t.join()
        for w in range(self.nworkers):
            d = os.path.join(self.work, "w%d" % w, "corpus")
            if os.path.isdir(d):
                self.corpus_out += len(os.listdir(d))

    def merged_stats(self):
        hashes = set()
        classes, excl, samples = {}, {}, {}
        execs = 0
        sd = os.path.join(self.work, "stats")
        for fn in sorted(os.listdir(sd)):
            with open(os.path.join(sd, fn), errors="replace") as f:
                for ln in f:
                    parts = ln.split()
                    if not parts:
                        continue
                    try:
                        if parts[0] == "H":
                            hashes.update(parts[1:])
                        elif parts[0] == "C":
                            classes[parts[1]] = classes.get(parts[1], 0) + int(parts[2])
                        elif parts[0] == "X":
                            excl[parts[1]] = excl.get(parts[1], 0) + int(parts[2])
                        elif parts[0] == "E":
                            execs += int(parts[1])
                        elif parts[0] == "S":
                            samples.setdefault(parts[1], []).append(parts[2] if len(parts) > 2 else "")
                    except (ValueError, IndexError):
                        pass    # a line torn by a dying process
        return hashes, classes, excl, samples, execs


def hex_to_sample(h):
    b = bytes.fromhex(h)
    return {"hex": h, "text": "".join(chr(c) if 32 <= c < 127 and c != 92 else "\\x%02x" % c for c in b)}


class _Shim:
    level = "exploration"

    def __init__(self, spec):
        self.pid = spec["pid"]
        self.assumptions = spec.get("assumptions", [])
        self.rule = spec["rule"]


def load_known(pid):
    out = [k for k in engine.load_known() if k["property"] == pid]
    extra = os.environ.get("VERIF_EXTRA_FINDINGS")     # development aid: findings files not yet merged
    if extra:
        have = {k["id"] for k in out}
        for p in extra.split(":"):
            with open(p) as f:
                data = json.load(f)
            for k in (data["findings"] if isinstance(data, dict) else data):
                if k["property"] == pid and k["id"] not in have:
                    out.append(k)
    return out


def tag_of(kf):
    m = kf.get("matcher")
    if isinstance(m, dict):
        return m.get("name")
    return m


def raw_equivalent(spec, art, tags):
    """targets with structure-aware units (spec["raw_dump_env"]) can write the equivalent raw unit; use it as the replay
    when it fails the same way, so that the reproducer does not depend on the target's generator encoding"""
    env_name = spec.get("raw_dump_env")
    if not env_name:
        return None
    tmp = art + ".raw"
    extra = {env_name: tmp}
    if tags:
        extra["VERIF_KNOWN_TAGS"] = ",".join(tags)
    try:
        subprocess.run([target_path(spec["target"]), "-timeout=10", "-rss_limit_mb=3000", "-runs=1",
                        "-artifact_prefix=" + os.path.join(engine.WORK, "rerun-%d-" % os.getpid()), art],
                       stdout=subprocess.DEVNULL, stderr=subprocess.DEVNULL, env=child_env(extra), timeout=120,
                       preexec_fn=_preexec)
    except subprocess.TimeoutExpired:
        return None
    if not os.path.exists(tmp):
        return None
    with open(art, "rb") as f1, open(tmp, "rb") as f2:
        if f1.read() == f2.read():
            return None
    if all(run_one(spec["target"], tmp, tags)[0] == "crash" for _ in range(2)):
        return tmp
    return None


def write_replay(pid, seed, art, sig, stderr, hist):
    d = os.path.join(VERIF, "replays", "new")
    os.makedirs(d, exist_ok=True)
    with open(art, "rb") as f:
        data = f.read()
    h = hashlib.blake2b(data, digest_size=6).hexdigest()
    if hist is None:
        path = os.path.join(d, "%s-%s.bin" % (pid, h))
        shutil.copy(art, path)
    else:
        # a history-dependent failure: package input + history
        path = os.path.join(d, "%s-%s.json" % (pid, h))
        with open(hist, "rb") as f:
            hb = f.read()
        with open(path, "w") as f:
            json.dump({"property": pid, "seed": seed, "input_hex": data.hex(), "history_hex": hb.hex(), "msg": sig}, f, indent=1)
    with open(path + ".txt", "w") as f:
        f.write("property %s seed %d\n%s\n\n%s\n" % (pid, seed, sig, stderr))
    return path


def replay_file(spec, path, tags=()):
    """-> (kind, sig, stderr) for an artifact file or a packaged json replay"""
    if path.endswith(".json"):
        with open(path) as f:
            rp = json.load(f)
        if "input_hex" in rp:
            os.makedirs(engine.WORK, exist_ok=True)
            tmp = os.path.join(engine.WORK, "replay-%d.bin" % os.getpid())
            with open(tmp, "wb") as f:
                f.write(bytes.fromhex(rp["input_hex"]))
            hist = None
            if rp.get("history_hex"):
                hist = tmp + ".hist"
                with open(hist, "wb") as f:
                    f.write(bytes.fromhex(rp["history_hex"]))
            try:
                return run_one(spec["target"], tmp, tags, history=hist)
            finally:
                for p in (tmp, hist):
                    if p and os.path.exists(p):
                        os.unlink(p)
        return None     # a hy-stage replay ({"case": ...})
    return run_one(spec["target"], path, tags)


def run_hy_stage(check_cls, tier, seed, nworkers, active):
    """run an engine.Check programmatically (same worker code as engine.main) -> merged result dict"""
    import multiprocessing
    for var, tg in getattr(check_cls, "builds", [(check_cls.variant, ())]):
        engine.ensure_built(var, tg)
    args = [(check_cls, tier, seed, w, nworkers, active) for w in range(nworkers)]
    if nworkers == 1:
        results = [engine._worker_main(args[0])]
    else:
        ctx = multiprocessing.get_context("fork")
        with ctx.Pool(nworkers) as pool:
            results = pool.map(engine._worker_main, args, chunksize=1)
    out = {"evals": sum(r["evals"] for r in results), "nontrivial": set(), "classes": {}, "skipped": {},
           "samples": [], "errors": [r["error"] for r in results if r["error"]], "violation": None, "flaky": []}
    for r in results:
        out["nontrivial"].update(r["nontrivial"])
        for k, v in r["classes"].items():
            out["classes"][k] = out["classes"].get(k, 0) + v
        for k, v in r["skipped"].items():
            out["skipped"][k] = out["skipped"].get(k, 0) + v
        out["samples"].extend(r["samples"][:1])
    for r in results:
        v = r["violation"]
        if v and out["violation"] is None:
            rr = engine.replay_case(check_cls, v["case"], 3, active)
            if all(x is not None for x in rr):
                out["violation"] = (v["case"], rr[0])
            else:
                out["flaky"].append({"case": v["case"], "msg": v["msg"]})
    return out


def main(spec, argv=None):
    argv = list(sys.argv[1:] if argv is None else argv)
    tier = os.environ.get("VERIF_TIER", "quick")
    seed = int(os.environ.get("VERIF_SEED", "0") or 0)
    replay = None
    i = 0
    while i < len(argv):
        if argv[i] == "--tier":
            tier = argv[i + 1]
            i += 2
        elif argv[i] == "--replay":
            replay = argv[i + 1]
            i += 2
        elif argv[i] == "--seed":
            seed = int(argv[i + 1])
            i += 2
        else:
            i += 1
    pid = spec["pid"]
    target = spec["target"]
    hy = spec.get("hy_check")
    t0 = time.time()
    builds = {"fuzz": round(engine.ensure_built("fuzz", [target]), 1)}
    shim = _Shim(spec)

    if replay is not None:
        r = replay_file(spec, replay)
        if r is None and hy is not None:
            return engine.main(hy, ["--replay", replay])
        if r[0] == "crash":
            print("replay: still fails: %s" % r[1])
            print("VIOLATION property=%s replay=%s" % (pid, replay))
            return 1
        print("replay: passes (%s)" % r[0])
        return 0

    # ---- replay tier: fixed regressions and known findings
    tags, active_ids, hy_active = [], [], []
    for kf in load_known(pid):
        rp_path = os.path.join(VERIF, kf["reproducer"])
        r = replay_file(spec, rp_path)
        if r is None:
            # reproducer in the hy stage's case format
            with open(rp_path) as f:
                rp = json.load(f)
            rr = engine.replay_case(hy, rp["case"], 1)
            failed, sig = rr[0] is not None, (rr[0].msg if rr[0] is not None else "")
        else:
            # a reproducer is decided by a run that ends normally ('ok') or crashes; a run lost to load noise is repeated,
            # and an entry that stays undecided keeps its exclusion (a known finding must never be re-reported by accident)
            tries = 0
            while r[0].startswith("noise:") and tries < 3:
                tries += 1
                r = replay_file(spec, rp_path)
            failed, sig = r[0] == "crash", r[1]
            if r[0].startswith("noise:") and kf["status"] != "fixed":
                failed = True
                print("note: reproducer of %s undecided (%s); its exclusion stays active" % (kf["id"], r[0]))
        if kf["status"] == "fixed":
            if failed:
                print("regression of fixed finding %s: %s" % (kf["id"], sig))
                cov = {"evaluations": 1, "distinct_nontrivial": 0, "rule": spec["rule"],
                       "samples": [{"reproducer": kf["reproducer"]}], "violation": {"msg": sig, "replay": rp_path}}
                engine.write_evidence(shim, tier, seed, cov, time.time() - t0, 1, {"builds_s": builds})
                print("VIOLATION property=%s replay=%s" % (pid, rp_path))
                return 1
        elif failed:
            print("KNOWN-FINDING: property=%s %s" % (pid, kf["what_fails"]))
            tags.append(tag_of(kf))
            active_ids.append(kf["id"])
            hy_active.append((kf["id"], tag_of(kf)))

    nworkers = int(os.environ.get("VERIF_WORKERS", spec["tiers"][tier].get("workers", 8)))
    camp = Campaign(spec, tier, seed, tags, nworkers)
    camp.run(spec["tiers"][tier].get("wall_limit", 1800 if tier == "quick" else 7200))
    hashes, classes, excl, samples, stat_execs = camp.merged_stats()

    sample_list = []
    for c in sorted(samples):
        for h in samples[c][:2]:
            s = hex_to_sample(h)
            s["class"] = c
            sample_list.append(s)
    sample_list = sample_list[:16]
    evals = camp.executed
    cov = {"evaluations": evals, "distinct_nontrivial": len(hashes), "rule": spec["rule"], "samples": sample_list,
           "classes": dict(sorted(classes.items())), "excluded_by_construction": excl,
           "noise": dict(sorted(camp.noise.items())), "workers": nworkers, "process_launches": camp.launches,
           "runs_unspent_after_max_restarts": camp.unspent,
           "units_seen_by_target_stats": stat_execs,
           "corpus": {"seed_files": len(camp.seed_files), "final_units_all_workers": camp.corpus_out,
                      "empty_corpus_workers": min(camp.cfg.get("empty_workers", 1), max(0, nworkers - 1))},
           "libfuzzer": {"runs_per_worker": camp.cfg["runs"], "empty_corpus_runs": camp.cfg.get("empty_runs"),
                         "max_len": camp.cfg.get("max_len", 256), "timeout_s": 10, "rss_limit_mb": 3000}}
    if camp.flaky:
        cov["flaky_candidates"] = camp.flaky[:5]
    if camp.inconclusive:
        cov["inconclusive_timeout"] = True
    extra = {"builds_s": builds, "known_findings_active": active_ids}

    if camp.confirmed is not None:
        art, sig, stderr, hist = camp.confirmed
        if hist is None:
            raw = raw_equivalent(spec, art, tags)
            if raw is not None:
                art = raw
        path = write_replay(pid, seed, art, sig, stderr, hist)
        with open(art, "rb") as f:
            data = f.read()
        cov["violation"] = {"msg": sig, "replay": path, "input": hex_to_sample(data[:400].hex())}
        if not cov["samples"]:
            cov["samples"] = [cov["violation"]["input"]]
        engine.write_evidence(shim, tier, seed, cov, time.time() - t0, 1, extra)
        print("violation: %s" % sig[:2000])
        print("VIOLATION property=%s replay=%s" % (pid, path))
        return 1

    # ---- deterministic hy stage (optional)
    hy_skipped = {}
    if hy is not None and not camp.inconclusive:
        res = run_hy_stage(hy, tier, seed, nworkers, hy_active)
        cov["hy_stage"] = {"evaluations": res["evals"], "distinct_nontrivial": len(res["nontrivial"]),
                           "classes": dict(sorted(res["classes"].items())), "skipped": res["skipped"],
                           "rule": hy.rule, "samples": res["samples"][:4]}
        hy_skipped = res["skipped"]
        if res["flaky"]:
            cov["hy_stage"]["flaky_candidates"] = res["flaky"][:3]
        if res["errors"]:
            sys.stdout.write("INTERNAL ERROR in check %s hy stage (not a violation):\n%s\n" % (pid, res["errors"][0]))
            cov["internal_error"] = res["errors"][0][-2000:]
            engine.write_evidence(shim, tier, seed, cov, time.time() - t0, 0, extra)
            return 2
        cov["evaluations"] += res["evals"]
        hashes = set(hashes) | {"hy:" + h for h in res["nontrivial"]}
        cov["distinct_nontrivial"] = len(hashes)
        if res["violation"] is not None:
            case, vio = res["violation"]
            path = engine._write_replay(pid, seed, case, vio)
            cov["violation"] = {"msg": vio.msg, "replay": path}
            engine.write_evidence(shim, tier, seed, cov, time.time() - t0, 1, extra)
            print("violation: %s" % vio.msg[:2000])
            print("VIOLATION property=%s replay=%s" % (pid, path))
            return 1

    engine.write_evidence(shim, tier, seed, cov, time.time() - t0, 0, extra)
    if cov["distinct_nontrivial"] < 2 and not camp.inconclusive:
        print("INTERNAL ERROR in check %s: only %d non-trivial cases (generator defect)" % (pid, cov["distinct_nontrivial"]))
        return 2
    print("OK property=%s tier=%s seed=%d evaluations=%d distinct_nontrivial=%d noise=%s excluded_known=%s flaky=%d%s wall=%.1fs"
          % (pid, tier, seed, cov["evaluations"], cov["distinct_nontrivial"], json.dumps(cov["noise"]), json.dumps(excl),
             len(camp.flaky), " INCONCLUSIVE(wall limit)" if camp.inconclusive else "", time.time() - t0))
    return 0


def install_extra_findings():
    """development aid for hy checks of this area: let engine.load_known also read the findings files named in
    env VERIF_EXTRA_FINDINGS (entries not yet merged into known_findings.json)"""
    extra = os.environ.get("VERIF_EXTRA_FINDINGS")
    if not extra:
        return
    orig = engine.load_known

    def patched():
        out = list(orig())
        have = {k["id"] for k in out}
        for p in extra.split(":"):
            with open(p) as f:
                data = json.load(f)
            for k in (data["findings"] if isinstance(data, dict) else data):
                if k["id"] not in have:
                    out.append(k)
        return out
    engine.load_known = patched
