"""C43: generator of deterministic exact workloads and the dump normaliser used to compare the
three integer backends.  An *item* is a small JSON dict (family + operands); `compile_item`
turns it into driver statements whose operands satisfy every op's documented precondition by
construction (non-zero divisors, odd positive Jacobi moduli, prime Legendre moduli, ...).
Nothing here judges results: the oracle is the equality of the three drivers' answers."""
import json
import math
from fractions import Fraction

from hypothesis import strategies as st

from pbt.engine import R
from pbt import ntref

# ------------------------------------------------------------------ operands
LIMBS = []
for _k in (31, 32, 63, 64, 65, 96, 127, 128, 129, 192, 256, 320, 399):
    for _d in (-1, 0, 1):
        LIMBS += [2 ** _k + _d, -(2 ** _k + _d)]


def _ppow(b, k, d, s):
    return s * b ** k + d


perfectish = st.builds(_ppow, st.one_of(st.integers(2, 60), st.integers(2, 2 ** 33)), st.integers(2, 12),
                       st.sampled_from([0, 0, 0, 1, -1]), st.sampled_from([1, 1, -1]))
smooth = st.lists(st.sampled_from([2, 2, 3, 3, 5, 7, 11, 13, 4294967291, 4294967311, 18446744073709551557]),
                  min_size=1, max_size=10).map(lambda ps: math.prod(ps))

bigint = st.one_of(
    st.integers(-12, 12),
    st.sampled_from(LIMBS),
    st.integers(-2 ** 70, 2 ** 70),
    st.integers(-2 ** 200, 2 ** 200),
    st.integers(-2 ** 400, 2 ** 400),
    perfectish,
    smooth,
    smooth.map(lambda v: -v),
)
nonzero = bigint.map(lambda v: v if v != 0 else 1)
posint = bigint.map(lambda v: abs(v) + 1)
smallpos = st.one_of(st.integers(1, 200), st.integers(1, 10 ** 6), st.integers(1, 10 ** 8))


def _q(n, d):
    return [n, d]


ratpair = st.one_of(st.builds(_q, bigint, posint),
                    st.builds(_q, st.integers(-40, 40), st.integers(1, 40)),
                    st.builds(_q, perfectish, perfectish.map(lambda v: abs(v) + (v == 0))))

SYMS = ["x", "y", "z"]

# ------------------------------------------------------------------ item strategies


def _item(kind, **kw):
    return st.fixed_dictionaries(dict({"k": st.just(kind)}, **kw))


def _arith_tree():
    leaf = st.one_of(bigint.map(lambda v: ["integer", v]),
                     ratpair.map(lambda q: ["rational", q[0], q[1]]),
                     st.tuples(st.integers(-9, 9), st.integers(1, 9), st.integers(-9, 9), st.integers(1, 9)).map(
                         lambda t: ["complex", ["rational", t[0], t[1]], ["rational", t[2], t[3]]]))

    def ext(ch):
        return st.one_of(
            st.tuples(st.sampled_from(["add", "sub", "mul", "div"]), ch, ch).map(list),
            st.tuples(st.just("pow"), ch, st.integers(-5, 5).map(lambda e: ["integer", e])).map(list),
            st.tuples(st.just("neg"), ch).map(list))
    return st.recursive(leaf, ext, max_leaves=6)


def _poly_tree():
    coef = st.one_of(st.integers(-9, 9), bigint, st.integers(-2 ** 70, 2 ** 70)).map(lambda v: ["integer", v])
    rcoef = ratpair.map(lambda q: ["rational", q[0], q[1]])
    leaf = st.one_of(st.sampled_from(SYMS).map(lambda s: ["symbol", s]),
                     st.sampled_from(SYMS).map(lambda s: ["symbol", s]), coef, rcoef)

    def ext(ch):
        return st.one_of(
            st.tuples(st.sampled_from(["add", "sub", "mul"]), ch, ch).map(list),
            st.tuples(st.just("pow"), ch, st.integers(2, 4).map(lambda e: ["integer", e])).map(list))
    return st.recursive(leaf, ext, max_leaves=6)


_exps = st.lists(st.integers(0, 12), min_size=0, max_size=6, unique=True)


def _ipoly():
    return _exps.flatmap(lambda es: st.tuples(*[st.tuples(st.just(e), st.one_of(st.integers(-9, 9), nonzero)) for e in es])
                         .map(lambda t: [list(p) for p in t]))


def _qpoly():
    return _exps.flatmap(lambda es: st.tuples(*[st.tuples(st.just(e), ratpair) for e in es])
                         .map(lambda t: [list(p) for p in t]))


ITEMS = {
    "div2": _item("div2", a=bigint, b=nonzero),
    "gcd2": _item("gcd2", a=bigint, b=bigint),
    "sym2": _item("sym2", a=bigint, b=bigint, p=st.integers(0, 2 ** 90)),
    "un1": _item("un1", a=bigint, reps=st.integers(1, 30), flag=st.booleans(),
                 pp=st.builds(_ppow, st.integers(2, 2000), st.integers(2, 9), st.sampled_from([0, 0, 1, -1]),
                              st.sampled_from([1, 1, -1]))),
    "root": _item("root", a=bigint, n=st.one_of(st.integers(1, 13), st.integers(1, 70))),
    "powm": _item("powm", b=bigint, e=st.one_of(st.integers(-40, 40), st.integers(-2 ** 70, 2 ** 200)), m=posint),
    "seq": _item("seq", n=st.one_of(st.integers(0, 120), st.integers(0, 1500)), a=bigint, kb=st.integers(0, 30),
                 m=st.integers(-3, 4)),
    "smallnt": _item("smallnt", n=st.one_of(smallpos, smallpos, smooth.map(lambda v: v % (10 ** 11) + 1)), a=bigint,
                     big=bigint),
    "rat": _item("rat", x=ratpair, y=ratpair, e=st.integers(-8, 8)),
    "rpow": _item("rpow", x=ratpair, r=st.integers(1, 6), s=st.integers(-7, 7), t=st.integers(2, 7), y=ratpair,
                  raise_=st.booleans()),
    "arith": _item("arith", t=_arith_tree()),
    "expand": _item("expand", t=_poly_tree()),
    "ipoly": _item("ipoly", p=_ipoly(), q=_ipoly(), n=st.integers(1, 4), a=bigint),
    "qpoly": _item("qpoly", p=_qpoly(), q=_qpoly(), n=st.integers(1, 3), a=ratpair),
    "trig": _item("trig", f=st.sampled_from(["sin", "cos", "tan", "cot", "sec", "csc"]),
                  p=bigint, q=st.sampled_from([1, 2, 3, 4, 5, 6, 8, 10, 12]), sym=st.booleans()),
    "parse": _item("parse", a=bigint, b=bigint, q=ratpair, e=st.integers(0, 5)),
}
# weights: the backend-specific wrapper families get most of the budget
WEIGHTS = {"div2": 3, "gcd2": 3, "sym2": 2, "un1": 4, "root": 4, "powm": 2, "seq": 1, "smallnt": 1, "rat": 3,
           "rpow": 3, "arith": 2, "expand": 2, "ipoly": 2, "qpoly": 1, "trig": 1, "parse": 1}


def item_strategy():
    pool = []
    for k, w in WEIGHTS.items():
        pool += [ITEMS[k].map(lambda v: v) for _ in range(w)]
    return st.one_of(pool)


def case_strategy(max_items=5):
    return st.fixed_dictionaries({"items": st.lists(item_strategy(), min_size=1, max_size=max_items)})


# ------------------------------------------------------------------ compilation
# ops that reach a backend-specific implementation (mp_boost.cpp / #if SYMENGINE_INTEGER_CLASS code)
BACKEND_OPS = {
    "be_fdiv_qr", "be_fdiv_q", "be_fdiv_r", "be_fdiv_r_alias", "be_fdiv_qr_alias", "be_cdiv_q", "be_tdiv_qr",
    "be_tdiv_q", "be_divexact", "be_gcdext", "be_invert", "be_powm", "be_root", "be_rootrem", "be_sqrt",
    "be_sqrtrem", "be_perfect_power_p", "be_perfect_square_p", "be_probab_prime_p", "be_nextprime", "be_legendre",
    "be_jacobi", "be_kronecker", "be_scan1", "be_fib", "be_fib2", "be_lucnum", "be_lucnum2", "be_fac", "be_bin",
    "be_primorial", "be_q", "be_qarith", "be_qpow_ui", "be_hex", "be_fits", "be_i_nth_root", "be_isqrt",
    "be_perfect_power", "be_perfect_square", "be_rat_nth_root", "be_rat_is_perfect_power",
    "nt_mod_inverse", "nt_gcd_ext", "nt_mod_f", "nt_quotient_f", "nt_quotient_mod_f", "nt_crt", "nt_powermod",
    "nt_legendre", "nt_jacobi", "nt_kronecker", "nt_nextprime", "nt_probab_prime_p", "nt_perfect_power_p",
    "nt_perfect_square_p", "nt_perfect_power_decomposition", "nt_harmonic", "nt_fibonacci", "nt_lucas",
    "nt_binomial", "nt_factorial", "rational", "pow", "sqrt", "cbrt", "mul_upoly", "pow_upoly",
    "sin", "cos", "tan", "cot", "sec", "csc",
}


def bits(v):
    if isinstance(v, bool):
        return 0
    if isinstance(v, int):
        return abs(v).bit_length()
    if isinstance(v, (list, tuple)):
        return max([bits(x) for x in v] + [0])
    if isinstance(v, str) and v.lstrip("-").isdigit():
        return abs(int(v)).bit_length()
    return 0


def _rat(q):
    return ["rational", q[0], q[1]]


def compile_item(it, base, tags=()):
    """-> list of (stmt, label) ; `base` = index of the first statement (for register refs)"""
    k = it["k"]
    out = []

    only = it.get("only")  # reproducer files restrict an item to the named ops (families without register refs)

    def emit(stmt, label=None):
        lab = label if label is not None else (stmt[0] if stmt[0] != "let" else None)
        if only is not None and lab not in only:
            return None
        out.append((stmt, lab))
        return base + len(out) - 1

    if k == "div2":
        a, b = it["a"], it["b"] or 1
        for op in ("nt_mod", "nt_quotient", "nt_quotient_mod", "nt_mod_f", "nt_quotient_f", "nt_quotient_mod_f",
                   "nt_divides", "be_fdiv_qr", "be_fdiv_q", "be_fdiv_r", "be_fdiv_r_alias", "be_fdiv_qr_alias",
                   "be_cdiv_q", "be_tdiv_qr", "be_tdiv_q", "nt_mod_inverse", "be_invert"):
            emit([op, a, b])
        emit(["be_divexact", a * b, b])
    elif k == "gcd2":
        a, b = it["a"], it["b"]
        for op in ("nt_gcd", "nt_lcm", "be_gcd", "be_lcm", "be_divisible_p", "be_sign_abs_cmpabs"):
            emit([op, a, b])
        if (a, b) != (0, 0) or "gcdext_zero_zero" not in tags:
            emit(["nt_gcd_ext", a, b])
            emit(["be_gcdext", a, b])
        if b != 0 or "kronecker_zero" not in tags:
            emit(["be_kronecker", a, b])
            emit(["nt_kronecker", a, b])
        emit(["be_and", abs(a), abs(b)])
        emit(["be_addmul", a, b, a])
    elif k == "sym2":
        a = it["a"]
        n = abs(it["b"]) | 1
        emit(["be_jacobi", a, n])
        emit(["nt_jacobi", a, n])
        p = ntref.next_prime(max(it["p"], 2))
        emit(["be_legendre", a, p])
        emit(["nt_legendre", a, p])
        emit(["nt_is_quad_residue", a, p])
        emit(["be_powm", a, (p - 1) // 2, p])
    elif k == "un1":
        a = it["a"]
        pa = abs(a)
        # mp_perfect_power_p of the Boost backend costs 0.2 s at 100 bits, 13 s at 200 bits and 50 s at 260 bits
        # ("this is extremely slow!" in mp_boost.cpp): operands of the perfect-power tests stay below 2^100
        for pp in ((a if pa.bit_length() <= 100 else a % (2 ** 96)), it.get("pp", 64)):
            for op in ("be_perfect_power_p", "be_perfect_power"):
                emit([op, pp])
            emit(["nt_perfect_power_p", abs(pp)])
            emit(["nt_perfect_power_decomposition", abs(pp) + (pp == 0), it["flag"]])
        for op in ("be_perfect_square_p", "be_perfect_square", "be_nextprime", "nt_nextprime", "be_hex", "be_fits",
                   "be_iabs"):
            emit([op, a])
        for op in ("nt_perfect_square_p", "be_sqrt", "be_sqrtrem", "be_isqrt", "nt_probab_prime_p"):
            emit([op, pa])
        if a >= 0 or "probab_prime_negative" not in tags:
            emit(["be_probab_prime_p", a, it["reps"]])
        emit(["be_probab_prime_p", ntref.next_prime(pa % (2 ** 128)), it["reps"]])
        emit(["be_scan1", pa + (pa == 0)])
        emit(["be_set_str", str(a)])
        i = emit(["let", ["integer", a]], "integer")
        emit(["str", R(i)])
        emit(["parse", str(a)])
    elif k == "root":
        a, n = it["a"], it["n"]
        if a < 0 and n % 2 == 0:
            n += 1
        if abs(a).bit_length() > 260 and n > 13:
            n = n % 13 + 1
            if a < 0 and n % 2 == 0:
                n += 1
        for op in ("be_root", "be_rootrem", "be_i_nth_root"):
            emit([op, a, n])
    elif k == "powm":
        b, e, m = it["b"], it["e"], it["m"]
        if e < 0 and math.gcd(b, m) != 1:
            e = -e
        emit(["be_powm", b, e, m])
        emit(["nt_powermod", b, e, m])
        emit(["be_pow_ui", b % (2 ** 100) - 2 ** 99, abs(e) % 40])
    elif k == "seq":
        n, a, kk, m = it["n"], it["a"], it["kb"], it["m"]
        for op in ("be_fib", "be_lucnum", "nt_fibonacci", "nt_lucas"):
            emit([op, n])
        for op in ("be_fib2", "be_lucnum2", "nt_fibonacci2", "nt_lucas2"):
            emit([op, n + 1])
        emit(["be_fac", n % 300])
        emit(["nt_factorial", n % 300])
        emit(["be_bin", a, kk])
        emit(["nt_binomial", a, kk])
        emit(["be_primorial", n])
        emit(["nt_bernoulli", n % 60])
        emit(["nt_harmonic", n % 60, m])
    elif k == "smallnt":
        n, a = it["n"], it["a"]
        for op in ("nt_prime_factors", "nt_prime_factor_multiplicities", "nt_totient", "nt_carmichael",
                   "nt_primitive_root", "nt_factor_trial_division"):
            emit([op, n])
        emit(["nt_mobius", n])
        emit(["nt_multiplicative_order", a, n])
        emit(["nt_crt", ["list", a, it["big"]], ["list", n, n + 1]])
        emit(["nt_is_nth_residue", a, 3, n])
        # prime_factors sieves up to sqrt(N): either small N or N beyond the "too large" guard (2^64),
        # never the range in between (a 2^31 sieve only tests the machine)
        big = it["big"] or 1
        if 10 ** 12 < abs(big) < 2 ** 66:
            big = big % (10 ** 12) + 1
        emit(["nt_prime_factors", big])
    elif k == "rat":
        x, y, e = it["x"], it["y"], it["e"]
        ix = emit(["let", _rat(x)], "rational")
        iy = emit(["let", _rat(y)], "rational")
        emit(["rational", x[0], -x[1]])
        for op in ("add", "sub", "mul", "div", "eq", "cmp"):
            emit([op, R(ix), R(iy)])
        emit(["pow", R(ix), ["integer", e]])
        emit(["num_props", R(ix)])
        for op in ("add", "sub", "mul", "div", "cmp", "iadd", "imul"):
            if op == "div" and y[0] == 0:
                continue
            emit(["be_qarith", op, ["list"] + x, ["list"] + y], "be_qarith")
        emit(["be_q", ["list"] + x])
        emit(["be_qmisc", ["list"] + x])
        emit(["be_qpow_ui", ["list"] + x, abs(e)])
        i = emit(["let", ["div", R(ix), R(iy)]], "div")
        emit(["str", R(i)])
    elif k == "rpow":
        x, kk, s, t, y = it["x"], it["r"], it["s"], it["t"], it["y"]
        q = Fraction(x[0], x[1])
        if it["raise_"] and max(abs(q.numerator), q.denominator).bit_length() * kk <= 900:
            q = q ** kk  # a perfect k-th power of a rational
        xx = ["rational", q.numerator, q.denominator]
        ix = emit(["let", xx], "rational")
        ie = emit(["let", ["rational", s, t]], "rational")
        i1 = emit(["pow", R(ix), R(ie)])
        emit(["str", R(i1)])
        emit(["pow", R(ix), ["rational", 1, kk]])
        emit(["sqrt", R(ix)])
        emit(["cbrt", R(ix)])
        emit(["be_rat_nth_root", R(ix), kk if (q >= 0 or kk % 2) else kk + 1])
        # Rational::is_perfect_power runs mp_perfect_power_p on num*den: operands below 2^100 only (Boost cost)
        if q.numerator.bit_length() + q.denominator.bit_length() <= 96:
            emit(["be_rat_is_perfect_power", R(ix)])
        sq = Fraction(abs(x[0]) % 256 + 1, abs(x[1]) % 255 + 2) ** kk
        emit(["be_rat_is_perfect_power", ["rational", sq.numerator, sq.denominator], it["raise_"]])
        iy = emit(["let", ["pow", _rat(y), ["rational", 1, t]]], "pow")
        i2 = emit(["mul", R(i1), R(iy)])
        emit(["str", R(i2)])
        emit(["mul", R(i1), R(i1)])
    elif k == "arith":
        i = emit(it["t"], "arith")
        emit(["str", R(i)])
    elif k == "expand":
        i = emit(["let", it["t"]], "tree")
        j = emit(["expand", R(i)])
        emit(["str", R(j)])
    elif k in ("ipoly", "qpoly"):
        ctor = "uint_from_dict" if k == "ipoly" else "urat_from_dict"

        def lit(d):
            return ["list"] + [["list", e, (c if k == "ipoly" else ["list"] + c)] for e, c in d]
        ix = emit(["let", ["symbol", "x"]], None)
        ip = emit([ctor, R(ix), lit(it["p"])])
        iq = emit([ctor, R(ix), lit(it["q"])])
        for op in ("add_upoly", "sub_upoly"):
            emit([op, R(ip), R(iq)])
        im = emit(["mul_upoly", R(ip), R(iq)])
        emit(["pow_upoly", R(ip), it["n"]])
        emit(["divides_upoly", R(ip), R(im)])
        emit(["divides_upoly", R(iq), R(ip)])
        a = it["a"]
        emit(["upoly_eval", R(im), a if k == "ipoly" else ["list"] + a])
        emit(["upoly_get_lc", R(im)])
        j = emit(["upoly_as_symbolic", R(im)])
        emit(["str", R(j)])
    elif k == "trig":
        arg = ["mul", ["rational", it["p"], it["q"]], ["constant", "pi"]]
        if it["sym"]:
            arg = ["add", ["symbol", "x"], arg]
        i = emit([it["f"], arg])
        emit(["str", R(i)])
    elif k == "parse":
        a, b, q, e = it["a"], it["b"], it["q"], it["e"]
        text = "%d*x**%d + %d/%d*y - (%d)" % (a, e, q[0], q[1], b)
        i = emit(["parse", text])
        emit(["str", R(i)])
        j = emit(["parse", "(%d)**%d/(%d)" % (a % (10 ** 30), e, abs(b) + 1)])
        emit(["str", R(j)])
    else:
        raise ValueError(k)
    return out


# ------------------------------------------------------------------ normalisation
def norm_dump(d):
    """canonical form of a raw dump: the entries of the hash-ordered containers (Add / Mul
    dictionaries) are sorted, everything else is kept verbatim"""
    if isinstance(d, list):
        if d and d[0] in ("Add", "Mul") and len(d) == 3 and isinstance(d[2], list):
            ents = [norm_dump(e) for e in d[2]]
            ents.sort(key=lambda e: json.dumps(e, sort_keys=True))
            return [d[0], norm_dump(d[1]), ents]
        return [norm_dump(x) for x in d]
    if isinstance(d, dict):
        return {kk: norm_dump(v) for kk, v in d.items()}
    return d


def norm_result(r):
    if isinstance(r, dict):
        if "exc" in r:
            return {"exc": r["exc"]}
        if "B" in r:
            return {"B": norm_dump(r["B"])}
        return {kk: norm_result(v) for kk, v in r.items()}
    if isinstance(r, list):
        return [norm_result(x) for x in r]
    return r
