"""Shared Python engine: driver management, s-expression encoding, Hypothesis
runner with workers, evidence, replay and known-findings protocol.
See DESIGN.md sections 2 and 4."""
import hashlib
import json
import multiprocessing
import os
import random
import select
import signal
import subprocess
import sys
import time
import traceback

sys.set_int_max_str_digits(0)

VERIF = os.path.dirname(os.path.dirname(os.path.abspath(__file__)))
BUILD = os.path.join(VERIF, "build")
WORK = os.path.join(BUILD, "work")

ASAN_OPTIONS = "detect_leaks=0:abort_on_error=1:allocator_may_return_null=1:handle_abort=1:symbolize=1:malloc_context_size=5"
UBSAN_OPTIONS = "print_stacktrace=1:halt_on_error=1:symbolize=1"


class DriverCrash(Exception):
    def __init__(self, program, stderr, rc):
        Exception.__init__(self, "driver died rc=%s" % rc)
        self.program = program
        self.stderr = stderr
        self.rc = rc


class DriverTimeout(Exception):
    def __init__(self, program):
        Exception.__init__(self, "driver timeout")
        self.program = program


# ------------------------------------------------------------------ s-expr
def _qs(s):
    out = ['"']
    for ch in s:
        o = ord(ch)
        if ch == '"' or ch == "\\":
            out.append("\\" + ch)
        elif o < 0x20 or o >= 0x7f:
            if o > 0xff:
                for byte in ch.encode("utf-8"):
                    out.append("\\x%02x" % byte)
            else:
                out.append("\\x%02x" % o)
        else:
            out.append(ch)
    out.append('"')
    return "".join(out)


def sx(x):
    """Encode a JSON-like recipe as driver text.  list/tuple with a str head
    is a call; ["$", n] is a register; str is a string literal; int, float,
    bool, None are literals; ["list", ...] is a vector."""
    if isinstance(x, bool):
        return "#t" if x else "#f"
    if x is None:
        return "#n"
    if isinstance(x, int):
        return str(x)
    if isinstance(x, float):
        if x != x:
            return "d:nan"
        if x in (float("inf"), float("-inf")):
            return "d:inf" if x > 0 else "d:-inf"
        return "d:" + x.hex()
    if isinstance(x, str):
        return _qs(x)
    if isinstance(x, (list, tuple)):
        if len(x) == 2 and x[0] == "$":
            return "$%d" % x[1]
        if len(x) == 2 and x[0] == "d" and isinstance(x[1], str):
            return "d:" + x[1]
        head = x[0]
        if head == "list":
            return "[" + " ".join(sx(y) for y in x[1:]) + "]"
        return "(" + head + "".join(" " + sx(y) for y in x[1:]) + ")"
    raise TypeError("cannot encode %r" % (x,))


def prog(stmts):
    return " ".join(sx(s) for s in stmts)


def R(n):
    return ["$", n]


def is_exc(r, cls=None):
    return isinstance(r, dict) and "exc" in r and (cls is None or r["exc"] == cls)


def B(r):
    """payload of a Basic result (the dump) or None"""
    if isinstance(r, dict) and "B" in r:
        return r["B"]
    return None


def F(r):
    """payload of a double result as python float"""
    if isinstance(r, dict) and "f" in r:
        return hexf(r["f"])
    return None


def hexf(s):
    if s in ("nan", "-nan"):
        return float("nan")
    if s == "inf":
        return float("inf")
    if s == "-inf":
        return float("-inf")
    return float.fromhex(s)


# ------------------------------------------------------------------ driver
class Driver:
    def __init__(self, variant="main", exe="driver", timeout=60.0, env=None):
        self.path = os.path.join(BUILD, variant + os.environ.get("VERIF_BUILD_TAG", ""), "drv", exe)
        self.timeout = timeout
        self.env = dict(os.environ)
        self.env["ASAN_OPTIONS"] = ASAN_OPTIONS
        self.env["UBSAN_OPTIONS"] = UBSAN_OPTIONS
        self.env["ASAN_SYMBOLIZER_PATH"] = "/usr/bin/llvm-symbolizer-14"
        if env:
            self.env.update(env)
        self.p = None
        self.errf = None
        self.restarts = 0

    def start(self):
        os.makedirs(WORK, exist_ok=True)
        self.errpath = os.path.join(WORK, "stderr.%d.%d" % (os.getpid(), id(self)))
        self.errf = open(self.errpath, "wb")
        self.p = subprocess.Popen([self.path], stdin=subprocess.PIPE, stdout=subprocess.PIPE,
                                  stderr=self.errf, env=self.env, bufsize=0)
        self.buf = b""

    def stop(self):
        if self.p is not None:
            try:
                self.p.kill()
                self.p.wait()
            except Exception:
                pass
            self.p = None
        if self.errf is not None:
            self.errf.close()
            self.errf = None
            try:
                os.unlink(self.errpath)
            except OSError:
                pass

    def _stderr_tail(self):
        try:
            self.errf.flush()
            with open(self.errpath, "rb") as f:
                data = f.read()
            if len(data) > 7000:   # keep the head (the sanitizer's ERROR line) and the tail
                data = data[:2500] + b"\n...[cut]...\n" + data[-4500:]
            return data.decode("utf-8", "replace")
        except Exception:
            return ""

    def run(self, program, timeout=None):
        """program: text (or list of statements).  Returns the list of results."""
        if not isinstance(program, str):
            program = prog(program)
        if "\n" in program:
            raise ValueError("newline in program")
        if self.p is None:
            self.start()
        data = (program + "\n").encode("latin-1")
        try:
            self.p.stdin.write(data)
            self.p.stdin.flush()
        except (BrokenPipeError, OSError):
            rc = self.p.wait()
            err = self._stderr_tail()
            self.stop()
            self.restarts += 1
            raise DriverCrash(program, err, rc)
        deadline = time.time() + (timeout or self.timeout)
        fd = self.p.stdout.fileno()
        while b"\n" not in self.buf:
            left = deadline - time.time()
            if left <= 0:
                self.stop()
                self.restarts += 1
                raise DriverTimeout(program)
            r, _, _ = select.select([fd], [], [], min(left, 1.0))
            if r:
                chunk = os.read(fd, 1 << 20)
                if not chunk:
                    rc = self.p.wait()
                    err = self._stderr_tail()
                    self.stop()
                    self.restarts += 1
                    raise DriverCrash(program, err, rc)
                self.buf += chunk
        line, _, self.buf = self.buf.partition(b"\n")
        res = json.loads(line.decode("latin-1"))
        if isinstance(res, dict) and "protocol_error" in res:
            raise RuntimeError("protocol error: %s in %s" % (res["protocol_error"], program[:300]))
        return res


def value_proportional_recursion(stderr):
    """stack overflow whose symbolised frames are the direct self-recursion of lowergamma / uppergamma"""
    if "stack-overflow" not in stderr:
        return False
    frames = [l for l in stderr.splitlines() if l.lstrip().startswith("#") and " in " in l]
    if len(frames) < 20:
        return False
    rec = [l for l in frames if " in SymEngine::lowergamma(" in l or " in SymEngine::uppergamma(" in l]
    return len(rec) >= 0.8 * len(frames)


def crash_signature(stderr):
    """One-line description of a sanitizer / abort report."""
    lines = stderr.splitlines()
    for ln in lines:
        if "runtime error:" in ln:
            return ln.strip()[-300:]
    for ln in lines:
        if "ERROR: AddressSanitizer" in ln or "ERROR: LeakSanitizer" in ln:
            # add first symengine frame
            fr = [l.strip() for l in lines if "/repo/symengine" in l or "SymEngine::" in l]
            return (ln.strip() + " @ " + (fr[0] if fr else ""))[:400]
    for ln in lines:
        if "terminate called" in ln or "SYMENGINE_ASSERT" in ln or "Assertion" in ln:
            return ln.strip()[:300]
    return (lines[-1].strip() if lines else "no stderr")[:300]


# ------------------------------------------------------------------ known findings
def load_known():
    p = os.path.join(VERIF, "known_findings.json")
    if not os.path.exists(p):
        return []
    with open(p) as f:
        return json.load(f)["findings"]


class Violation(Exception):
    """raised by a judge when the property is violated on a case"""

    def __init__(self, msg, detail=None):
        Exception.__init__(self, msg)
        self.msg = msg
        self.detail = detail


class GeneratorDefect(Exception):
    pass


class CaseTimeout(BaseException):
    pass


# ------------------------------------------------------------------ check base
class Check:
    """One property.  Subclasses define:
      pid, variant, rule (text), tiers = {"quick": {...}, "thorough": {...}}
      strategy(tier)            -> hypothesis strategy producing JSON-like cases
      enumerate(tier)           -> optional iterable of deterministic cases
      judge(case)               -> None, or raise Violation; uses self.drv;
                                   calls self.count(...) for bookkeeping
      matchers                  -> {name: fn(case, violation_msg) -> bool}
    """
    pid = None
    variant = "main"
    exe = "driver"
    rule = ""
    assumptions = []
    level = "exploration"
    exhaustive = False
    timeout = 60.0
    workers = {"quick": 8, "thorough": 16}
    min_nontrivial = 2

    def __init__(self):
        self.drv = None
        self.evals = 0
        self.nontrivial = set()
        self.classes = {}
        self.skipped = {}
        self.excluded = {}
        self.samples = []
        self.active_matchers = []
        self.rng = random.Random(0)
        self.sample_budget = 6
        self.slow = []

    # -- bookkeeping helpers used by judges
    def count(self, n=1):
        self.evals += n

    def nontriv(self, descriptor):
        if len(self.nontrivial) < 400000:
            h = hashlib.blake2b(repr(descriptor).encode("utf-8", "replace"), digest_size=8).hexdigest()
            self.nontrivial.add(h)

    def cls(self, name, n=1):
        self.classes[name] = self.classes.get(name, 0) + n

    def skip(self, reason, n=1):
        self.skipped[reason] = self.skipped.get(reason, 0) + n

    def sample(self, s):
        # uniform reservoir over all offered samples (Hypothesis starts with the
        # simplest cases, so "the first few" would be uninformative)
        self.nsamp = getattr(self, "nsamp", 0) + 1
        if len(self.samples) < self.sample_budget:
            self.samples.append(s)
        else:
            j = self.rng.randrange(self.nsamp)
            if j < self.sample_budget:
                self.samples[j] = s

    def tag_active(self, name):
        """True when the known finding whose matcher/tag is `name` is listed as 'known' in
        known_findings.json AND its reproducer still fails on the current tree.  Checks use it to
        exclude a known defect by construction (and must count what they exclude); when the tag is
        not active the inputs are generated and judged normally."""
        return any(n == name for _, n in self.active_matchers)

    def run(self, stmts, timeout=None):
        if self.drv is None:
            self.drv = Driver(self.variant, self.exe, self.timeout)
        return self.drv.run(stmts, timeout)

    # -- hooks
    def strategy(self, tier):
        return None

    def enumerate(self, tier):
        return []

    def judge(self, case):
        raise NotImplementedError

    matchers = {}

    def setup_worker(self, tier):
        pass

    # -- guarded judge: applies known-finding matchers, crash handling
    case_timeout = 30

    def guarded(self, case):
        def on_alarm(signum, frame):
            raise CaseTimeout()
        old = signal.signal(signal.SIGALRM, on_alarm)
        signal.alarm(self.case_timeout)
        try:
            self._guarded(case)
        except CaseTimeout:
            # slowness is never a violation (DESIGN 3.4); restart the driver, remember the case
            self.skip("case_timeout")
            if len(self.slow) < 3:
                self.slow.append(case)
            if self.drv is not None:
                self.drv.stop()
        finally:
            signal.alarm(0)
            signal.signal(signal.SIGALRM, old)

    def _guarded(self, case):
        try:
            self.judge(case)
        except DriverTimeout:
            self.skip("timeout")
        except DriverCrash as e:
            if value_proportional_recursion(e.stderr):
                # lowergamma(n, x) / uppergamma(n, x) recurse n times for an integer or half-integer n: exhausting the
                # stack with n in the thousands is resource exhaustion like 2**10**12 (DESIGN 3.4), not a verdict
                self.skip("resource:gamma_recursion_depth")
                return
            sig = crash_signature(e.stderr)
            v = Violation("driver crashed: " + sig, {"stderr": e.stderr[-3000:], "program": e.program[:4000]})
            self._offer(case, v)
        except Violation as v:
            self._offer(case, v)

    def _offer(self, case, v):
        if os.environ.get("VERIF_SCAN"):
            # development aid: collect every violation instead of stopping at the first (never used by registered commands)
            self.scanned = getattr(self, "scanned", [])
            if len(self.scanned) < 400:
                self.scanned.append(v.msg[:400])
            return
        for kid, name in self.active_matchers:
            try:
                if name in self.matchers and self.matchers[name](case, v):
                    self.excluded[kid] = self.excluded.get(kid, 0) + 1
                    return
            except Exception:
                pass
        raise v


def derive_seed(seed, pid, worker):
    h = hashlib.blake2b(("%d/%s/%d" % (seed, pid, worker)).encode(), digest_size=8).digest()
    return int.from_bytes(h, "big") % (2 ** 62)


def _worker_main(args):
    (check_cls, tier, seed, worker, nworkers, active) = args
    signal.signal(signal.SIGINT, signal.SIG_IGN)
    chk = check_cls()
    chk.active_matchers = active
    chk.rng = random.Random(derive_seed(seed, chk.pid, worker) ^ 0x5bd1e995)
    res = {"violation": None, "error": None}
    t0 = time.time()
    try:
        chk.setup_worker(tier)
        # 1. deterministic enumeration (split round-robin)
        last_case = [None]
        viol = None
        try:
            for i, case in enumerate(chk.enumerate(tier)):
                if i % nworkers != worker:
                    continue
                last_case[0] = case
                chk.guarded(case)
        except Violation as v:
            viol = (last_case[0], v, False)
        # 2. hypothesis search
        strat = chk.strategy(tier) if viol is None else None
        if strat is not None:
            from hypothesis import given, settings, HealthCheck, Phase, seed as hseed
            n = chk.tiers[tier].get("examples", 100)
            per = max(1, n // nworkers)
            st = settings(max_examples=per, database=None, deadline=None, derandomize=False,
                          suppress_health_check=list(HealthCheck), report_multiple_bugs=False,
                          phases=[Phase.generate, Phase.shrink], print_blob=False)
            failing = [None]
            fail_keys = {}
            internal = [None]
            shrink_calls = [0]
            budget = chk.tiers[tier].get("shrink_calls", 250)

            @hseed(derive_seed(seed, chk.pid, worker))
            @settings(st)
            @given(strat)
            def test(case):
                chk.ncases = getattr(chk, "ncases", 0) + 1
                if internal[0] is not None:
                    return
                key = None
                if failing[0] is not None:
                    key = json.dumps(case, sort_keys=True, default=str)
                    if key in fail_keys:
                        raise fail_keys[key]
                    shrink_calls[0] += 1
                    if shrink_calls[0] > budget:
                        return  # shrink budget exhausted: pretend the candidate passes
                try:
                    chk.guarded(case)
                except Violation as v:
                    failing[0] = (case, v)
                    fail_keys[key or json.dumps(case, sort_keys=True, default=str)] = v
                    raise
                except (KeyboardInterrupt, SystemExit):
                    raise
                except Exception:
                    internal[0] = "while judging %s\n%s" % (json.dumps(case, default=str)[:3000], traceback.format_exc())

            try:
                test()
            except Violation as v:
                viol = (failing[0][0], failing[0][1], True)
            except Exception as e:  # e.g. hypothesis Flaky wrapping a Violation
                if failing[0] is not None:
                    viol = (failing[0][0], failing[0][1], True)
                else:
                    raise
            if internal[0] is not None:
                res["error"] = internal[0]
        if viol is not None:
            res["violation"] = {"case": viol[0], "msg": viol[1].msg, "detail": viol[1].detail, "shrunk": viol[2]}
    except GeneratorDefect as e:
        res["error"] = "generator defect: %s" % e
    except Exception:
        res["error"] = traceback.format_exc()
    finally:
        if chk.drv is not None:
            chk.drv.stop()
    res.update(evals=chk.evals, nontrivial=sorted(chk.nontrivial), classes=chk.classes,
               skipped=chk.skipped, excluded=chk.excluded, samples=chk.samples, slow=chk.slow,
               wall=time.time() - t0, restarts=(chk.drv.restarts if chk.drv else 0),
               ncases=getattr(chk, "ncases", 0), scanned=getattr(chk, "scanned", []))
    return res


def write_evidence(chk, tier, seed, cov, wall, violations, extra=None):
    os.makedirs(os.path.join(VERIF, "evidence"), exist_ok=True)
    ev = {"property_id": chk.pid, "tier": tier, "seed": seed, "level": chk.level,
          "coverage": cov, "assumptions": list(chk.assumptions), "wall_s": round(wall, 2),
          "violations": violations}
    if extra:
        ev.update(extra)
    p = os.path.join(VERIF, "evidence", chk.pid + ".json")
    if os.environ.get("VERIF_BUILD_TAG") or os.environ.get("VERIF_SCAN") or os.environ.get("VERIF_REPO"):
        # runs against scratch copies of the repository (mutants) or in scan mode never touch the real evidence
        os.makedirs(os.path.join(VERIF, "evidence", "_scratch"), exist_ok=True)
        p = os.path.join(VERIF, "evidence", "_scratch", chk.pid + ".json")
    with open(p + ".tmp", "w") as f:
        json.dump(ev, f, indent=1, default=str)
    os.replace(p + ".tmp", p)


def ensure_built(variant, targets=()):
    cmd = [os.path.join(VERIF, "bin", "build"), variant] + list(targets)
    t0 = time.time()
    p = subprocess.run(cmd, stdout=subprocess.PIPE, stderr=subprocess.STDOUT)
    if p.returncode != 0:
        sys.stdout.write(p.stdout.decode("utf-8", "replace")[-6000:])
        raise SystemExit(3)
    return time.time() - t0


def replay_case(check_cls, case, times=3, active=()):
    """Re-run a case in fresh drivers; returns list of violation messages (None when it passed)."""
    out = []
    for _ in range(times):
        chk = check_cls()
        chk.active_matchers = list(active)
        try:
            chk.setup_worker("quick")
            chk.guarded(case)
            out.append(None)
        except Violation as v:
            out.append(v)
        finally:
            if chk.drv is not None:
                chk.drv.stop()
    return out


def main(check_cls, argv=None):
    argv = list(sys.argv[1:] if argv is None else argv)
    tier = os.environ.get("VERIF_TIER", "quick")
    seed = int(os.environ.get("VERIF_SEED", "0") or 0)
    replay = None
    i = 0
    while i < len(argv):
        if argv[i] == "--tier":
            tier = argv[i + 1]
            i += 2
        elif argv[i] == "--replay":
            replay = argv[i + 1]
            i += 2
        elif argv[i] == "--seed":
            seed = int(argv[i + 1])
            i += 2
        else:
            i += 1
    pid = check_cls.pid
    t0 = time.time()
    builds = {}
    for var, tg in getattr(check_cls, "builds", [(check_cls.variant, ())]):
        builds[var] = round(ensure_built(var, tg), 1)

    if replay is not None:
        with open(replay) as f:
            rp = json.load(f)
        res = replay_case(check_cls, rp["case"], 1)
        if res[0] is not None:
            print("replay: still fails: %s" % res[0].msg)
            print("VIOLATION property=%s replay=%s" % (pid, replay))
            return 1
        print("replay: passes")
        return 0

    # ---- known findings / fixed regressions first
    active = []
    known_lines = []
    for kf in load_known():
        if kf["property"] != pid:
            continue
        rp_path = os.path.join(VERIF, kf["reproducer"])
        with open(rp_path) as f:
            rp = json.load(f)
        res = replay_case(check_cls, rp["case"], 1)
        if kf["status"] == "fixed":
            if res[0] is not None:
                print("regression of fixed finding %s: %s" % (kf["id"], res[0].msg))
                _finish_violation(check_cls, tier, seed, t0, rp["case"], res[0], builds, path=rp_path)
                return 1
        else:
            if res[0] is not None:
                known_lines.append("KNOWN-FINDING: property=%s %s" % (pid, kf["what_fails"]))
                active.append((kf["id"], kf["matcher"]))
    for ln in known_lines:
        print(ln)

    nworkers = check_cls.workers.get(tier, 8)
    nworkers = int(os.environ.get("VERIF_WORKERS", nworkers))
    args = [(check_cls, tier, seed, w, nworkers, active) for w in range(nworkers)]
    if nworkers == 1:
        results = [_worker_main(args[0])]
    else:
        ctx = multiprocessing.get_context("fork")
        with ctx.Pool(nworkers) as pool:
            results = pool.map(_worker_main, args, chunksize=1)

    evals = sum(r["evals"] for r in results)
    nontriv = set()
    classes, skipped, excluded, samples = {}, {}, {}, []
    for r in results:
        nontriv.update(r["nontrivial"])
        for k, v in r["classes"].items():
            classes[k] = classes.get(k, 0) + v
        for k, v in r["skipped"].items():
            skipped[k] = skipped.get(k, 0) + v
        for k, v in r["excluded"].items():
            excluded[k] = excluded.get(k, 0) + v
        samples.extend(r["samples"][:2])
    for r in results:
        samples.extend(r["samples"][2:3])
    samples = samples[:12]
    slow = []
    for r in results:
        slow.extend(r.get("slow", []))
    if os.environ.get("VERIF_SCAN"):
        allv = [m for r in results for m in r.get("scanned", [])]
        print("SCAN: %d violations collected" % len(allv))
        for m in sorted(set(allv))[:int(os.environ.get("VERIF_SCAN_MAX", "150"))]:
            print("  SCAN " + m[:int(os.environ.get("VERIF_SCAN_W", "230"))])
    errors = [r["error"] for r in results if r["error"]]
    viols = [r["violation"] for r in results if r["violation"]]
    chk = check_cls()
    cov = {"evaluations": evals, "distinct_nontrivial": len(nontriv), "rule": chk.rule,
           "samples": samples, "classes": dict(sorted(classes.items())), "skipped": skipped,
           "excluded_known": excluded, "workers": nworkers,
           "generated_cases": sum(r.get("ncases", 0) for r in results),
           "driver_restarts": sum(r["restarts"] for r in results)}
    if slow:
        cov["slow_cases"] = slow[:5]
    if check_cls.exhaustive:
        cov["exhaustive"] = True
    extra = {"builds_s": builds, "known_findings_active": [k for k, _ in active]}

    if errors:
        sys.stdout.write("INTERNAL ERROR in check %s (not a violation):\n%s\n" % (pid, errors[0]))
        cov["internal_error"] = errors[0][-2000:]
        write_evidence(chk, tier, seed, cov, time.time() - t0, 0, extra)
        return 2

    confirmed = None
    flaky = []
    for v in viols:
        rr = replay_case(check_cls, v["case"], 3, active)
        if all(x is not None for x in rr):
            confirmed = (v, rr[0])
            break
        flaky.append({"case": v["case"], "msg": v["msg"]})
    if flaky:
        cov["flaky_candidates"] = flaky[:5]
    if confirmed is not None:
        v, vio = confirmed
        path = _write_replay(pid, seed, v["case"], vio)
        cov["violation"] = {"msg": vio.msg, "replay": path}
        write_evidence(chk, tier, seed, cov, time.time() - t0, 1, extra)
        print("violation: %s" % vio.msg[:2000])
        print("VIOLATION property=%s replay=%s" % (pid, path))
        return 1

    write_evidence(chk, tier, seed, cov, time.time() - t0, 0, extra)
    if len(nontriv) < check_cls.min_nontrivial:
        print("INTERNAL ERROR in check %s: only %d non-trivial cases (generator defect)" % (pid, len(nontriv)))
        return 2
    print("OK property=%s tier=%s seed=%d evaluations=%d distinct_nontrivial=%d skipped=%s excluded_known=%s wall=%.1fs"
          % (pid, tier, seed, evals, len(nontriv), json.dumps(skipped), json.dumps(excluded), time.time() - t0))
    return 0


def _write_replay(pid, seed, case, vio):
    d = os.path.join(VERIF, "replays", "new")
    os.makedirs(d, exist_ok=True)
    body = {"property": pid, "seed": seed, "case": case, "msg": vio.msg, "detail": vio.detail}
    h = hashlib.blake2b(json.dumps(case, sort_keys=True, default=str).encode(), digest_size=6).hexdigest()
    path = os.path.join(d, "%s-%s.json" % (pid, h))
    with open(path, "w") as f:
        json.dump(body, f, indent=1, default=str)
    return path


def _finish_violation(check_cls, tier, seed, t0, case, vio, builds, path=None):
    chk = check_cls()
    cov = {"evaluations": 1, "distinct_nontrivial": 0, "rule": chk.rule,
           "samples": [case], "violation": {"msg": vio.msg, "replay": path}}
    write_evidence(chk, tier, seed, cov, time.time() - t0, 1, {"builds_s": builds})
    print("VIOLATION property=%s replay=%s" % (check_cls.pid, path))
