"""Reference side of C30: exact polynomial arithmetic over Q, reference roots, a numeric evaluator
for root expressions that refuses to guess at branch cuts, and three-valued membership of a point
in a returned set expression (FiniteSet / Union / Intersection / Complement / Interval / Reals /
ImageSet over the integers)."""
from fractions import Fraction
import mpmath
from mpmath import mp, mpf, mpc

from . import oracle_num as on
from .oracle_num import Unjudgeable


class Declined(Exception):
    """the answer is not an explicit set (ConditionSet, unknown set class ...)"""

    def __init__(self, why):
        Exception.__init__(self, why)
        self.why = why


# ------------------------------------------------------------------ polynomials over Q, low -> high
def p_trim(p):
    p = list(p)
    while p and p[-1] == 0:
        p.pop()
    return p


def p_add(a, b):
    n = max(len(a), len(b))
    return p_trim([(a[i] if i < len(a) else 0) + (b[i] if i < len(b) else 0) for i in range(n)])


def p_scale(a, c):
    return p_trim([x * c for x in a])


def p_sub(a, b):
    return p_add(a, p_scale(b, -1))


def p_mul(a, b):
    if not a or not b:
        return []
    out = [Fraction(0)] * (len(a) + len(b) - 1)
    for i, x in enumerate(a):
        for j, y in enumerate(b):
            out[i + j] += x * y
    return p_trim(out)


def p_deriv(a):
    return p_trim([a[i] * i for i in range(1, len(a))])


def p_divmod(a, b):
    a = p_trim(a)
    b = p_trim(b)
    if not b:
        raise ZeroDivisionError
    q = [Fraction(0)] * max(0, len(a) - len(b) + 1)
    r = list(a)
    while len(r) >= len(b) and r:
        c = r[-1] / b[-1]
        k = len(r) - len(b)
        q[k] = c
        for i, y in enumerate(b):
            r[i + k] -= c * y
        r = p_trim(r)
    return p_trim(q), r


def p_gcd(a, b):
    a, b = p_trim(a), p_trim(b)
    while b:
        a, b = b, p_divmod(a, b)[1]
    return p_scale(a, 1 / a[-1]) if a else []


def p_eval(p, x):
    acc = x * 0
    for c in reversed(p):
        acc = acc * x + (c if not isinstance(c, Fraction) or isinstance(x, Fraction) else on.frac_to_mp(c))
    return acc


def p_eval_mp(p, x):
    acc = mpf(0)
    for c in reversed(p):
        acc = acc * x + on.frac_to_mp(Fraction(c))
    return acc


def p_scale_at(p, x):
    """sum |c_i| |x|^i : the natural scale of a residual"""
    ax = abs(x)
    acc = mpf(0)
    for c in reversed(p):
        acc = acc * ax + abs(on.frac_to_mp(Fraction(c)))
    return acc


def p_squarefree(p):
    p = p_trim(p)
    if len(p) <= 1:
        return p
    g = p_gcd(p, p_deriv(p))
    return p_divmod(p, g)[0] if len(g) > 1 else p


def _sign_at_inf(p, plus):
    if not p:
        return 0
    s = 1 if p[-1] > 0 else -1
    if not plus and (len(p) - 1) % 2:
        s = -s
    return s


def sturm_real_count(p):
    """number of distinct real roots of p (exact)"""
    p = p_squarefree(p)
    if len(p) <= 1:
        return 0
    seq = [p, p_deriv(p)]
    while seq[-1]:
        r = p_divmod(seq[-2], seq[-1])[1]
        seq.append(p_scale(r, -1))
    seq.pop()

    def var(plus):
        signs = [s for s in (_sign_at_inf(q, plus) for q in seq) if s]
        return sum(1 for i in range(len(signs) - 1) if signs[i] != signs[i + 1])
    return var(False) - var(True)


class Root:
    __slots__ = ("v", "real", "mult", "kind")

    def __init__(self, v, real, mult=1, kind="num"):
        self.v, self.real, self.mult, self.kind = v, real, mult, kind


def numeric_roots(p, dps=70):
    """distinct roots of p (list of Root) with exact real/non-real classification, or Unjudgeable"""
    sf = p_squarefree(p)
    if len(sf) <= 1:
        return []
    nreal = sturm_real_count(sf)
    with mp.workdps(dps):
        coeffs = [on.frac_to_mp(c) for c in reversed(sf)]
        try:
            rs = mp.polyroots(coeffs, maxsteps=400, extraprec=dps * 4)
        except mpmath.libmp.NoConvergence:
            raise Unjudgeable("polyroots_no_convergence")
        out = []
        tol = mpf(10) ** -(dps - 15)
        for r in rs:
            im = r.imag if isinstance(r, mpc) else mpf(0)
            re = r.real if isinstance(r, mpc) else r
            if abs(im) <= tol * max(1, abs(re)):
                out.append(Root(mpf(re), True))
            elif abs(im) < mpf(10) ** -12:
                raise Unjudgeable("ambiguous_realness")
            else:
                out.append(Root(mpc(re, im), False))
        if sum(1 for r in out if r.real) != nreal:
            raise Unjudgeable("sturm_mismatch")
        # multiplicities (exact): r is a root of gcd chain; count by repeated division numerically is
        # fragile, use exact: mult(r) = number of derivatives of p sharing the squarefree factor
        return out


# ------------------------------------------------------------------ root specs -> factors / roots
def spec_factor(s):
    """rational-coefficient factor (low->high) of a root spec"""
    k = s[0]
    if k == "q":
        return [-Fraction(s[1], s[2]), Fraction(1)]
    a, b, c = Fraction(s[1], s[2]), Fraction(s[3], s[4]), s[5]
    if k == "s":
        return [a * a - b * b * c, -2 * a, Fraction(1)]
    if k == "c":
        return [a * a + b * b * c, -2 * a, Fraction(1)]
    raise ValueError(k)


def spec_roots(s):
    """roots of a spec as Root objects (call under the working precision)"""
    k = s[0]
    if k == "q":
        return [Root(on.frac_to_mp(Fraction(s[1], s[2])), True, kind="q")]
    a, b, c = on.frac_to_mp(Fraction(s[1], s[2])), on.frac_to_mp(Fraction(s[3], s[4])), s[5]
    if k == "s":
        d = b * mp.sqrt(c)
        return [Root(a + d, True, kind="s"), Root(a - d, True, kind="s")]
    d = b * mp.sqrt(c)
    return [Root(mpc(a, d), False, kind="c"), Root(mpc(a, -d), False, kind="c")]


def spec_degree(s):
    return 1 if s[0] == "q" else 2


def roots_of_specs(specs):
    """distinct roots with multiplicities"""
    out = []
    for s in specs:
        for r in spec_roots(s):
            for o in out:
                if abs(o.v - r.v) <= mpf(10) ** -(mp.dps - 10):
                    o.mult += 1
                    break
            else:
                out.append(r)
    return out


# ------------------------------------------------------------------ evaluation of root expressions
class RootEval(on.Evaluator):
    """oracle_num evaluator that refuses (Unjudgeable) to take a non-integer power, a logarithm or an
    atan2 of a value that is *numerically* on the negative real axis but was computed through complex
    arithmetic: the principal branch of the exact expression cannot be read off such a value."""

    @staticmethod
    def _on_cut(b):
        if isinstance(b, mpc) and b.imag != 0 and b.real < 0:
            if abs(b.imag) <= mpf(10) ** -(mp.dps // 2) * abs(b.real):
                return True
        return False

    def powv(self, bnode, enode):
        b = self.value(bnode)
        e = self.value(enode)
        integral = (not isinstance(e, mpc) or e.imag == 0) and on._real(e, "exp") == mp.nint(on._real(e, "exp"))
        if not integral:
            if self._on_cut(b):
                raise Unjudgeable("on_branch_cut:pow")
            if b != 0 and abs(b) < mpf(10) ** -(mp.dps // 2):
                raise Unjudgeable("near_zero_base")
        return on._guard_pole(on._pow, "pow")(b, e)

    def call1(self, name, x, *rest):
        if name == "log":
            if self._on_cut(x):
                raise Unjudgeable("on_branch_cut:log")
            if x != 0 and abs(x) < mpf(10) ** -(mp.dps // 2):
                raise Unjudgeable("near_zero_log")
        return on.Evaluator.call1(self, name, x, *rest)

    def _value(self, d):
        if d[0] in ("ATan2", "atan2"):
            y = self.value(d[1])
            x = self.value(d[2])
            yr, xr = on._real(y, "atan2"), on._real(x, "atan2")
            eps = mpf(10) ** -(mp.dps // 2)
            if xr < 0 and yr != 0 and abs(yr) <= eps * abs(xr):
                raise Unjudgeable("on_branch_cut:atan2")
            if abs(xr) <= eps and abs(yr) <= eps:
                raise Unjudgeable("atan2(0,0)")
            return mp.atan2(yr, xr)
        return on.Evaluator._value(self, d)


def value_of(d, env=None, dps=80):
    with mp.workdps(dps):
        return +RootEval(on.env_mp(env or {})).value(d)


# ------------------------------------------------------------------ three-valued set membership
T, F, A = "T", "F", "A"
NEAR = 30      # |x - y| <= 10**-NEAR * scale  : the same point
FAR = 12       # |x - y| >  10**-FAR * scale   : different points; in between: ambiguous


def _and(vals):
    vals = list(vals)
    if any(v == F for v in vals):
        return F
    if any(v == A for v in vals):
        return A
    return T


def _or(vals):
    vals = list(vals)
    if any(v == T for v in vals):
        return T
    if any(v == A for v in vals):
        return A
    return F


def _not(v):
    return {T: F, F: T, A: A}[v]


def same_point(x, y):
    sc = max(1, abs(x), abs(y))
    d = abs(x - y)
    if d <= mpf(10) ** -NEAR * sc:
        return T
    if d > mpf(10) ** -FAR * sc:
        return F
    return A


def is_real(v):
    im = v.imag if isinstance(v, mpc) else mpf(0)
    sc = max(1, abs(v))
    if abs(im) <= mpf(10) ** -NEAR * sc:
        return T
    if abs(im) > mpf(10) ** -FAR * sc:
        return F
    return A


def _endpoint(d, ev):
    if d[0] == "Infty":
        s = int(d[1][1])
        return mp.inf if s > 0 else -mp.inf
    return on._real(ev(d), "interval")


def in_interval(v, lo, hi, lopen, ropen):
    r = is_real(v)
    if r != T:
        return r
    x = v.real if isinstance(v, mpc) else v
    res = []
    for end, open_, side in ((lo, lopen, 1), (hi, ropen, -1)):
        if end in (mp.inf, -mp.inf):
            res.append(T)
            continue
        sp = same_point(x, end)
        if sp == T:
            res.append(F if open_ else T)
        elif sp == A:
            res.append(A)
        else:
            res.append(T if (x - end) * side > 0 else F)
    return _and(res)


class SetSem:
    """semantics of a returned set expression (raw dump)"""

    def __init__(self, env=None, dps=80, nsym=None):
        self.env = dict(env or {})
        self.dps = dps
        self.cache = {}

    def ev(self, d, extra=None):
        key = (repr(d), repr(extra))
        if key not in self.cache:
            e = dict(self.env)
            if extra:
                e.update(extra)
            self.cache[key] = RootEval(on.env_mp(e)).value(d)
        return self.cache[key]

    def image_param(self, s):
        """(e0, e1) of an ImageSet whose expression is affine in its integer parameter"""
        sym, expr, base = s[1], s[2], s[3]
        if sym[0] not in ("Symbol", "Dummy"):
            raise Declined("imageset_symbol")
        if not (base[0] == "Interval" and base[1][0] == "Infty" and base[2][0] == "Infty") and base[0] not in ("Integers",):
            raise Declined("imageset_base:" + base[0])
        name = sym[1]
        e0 = self.ev(expr, {name: mpf(0)})
        e1 = self.ev(expr, {name: mpf(1)}) - e0
        e2 = self.ev(expr, {name: mpf(2)})
        if same_point(e2, e0 + 2 * e1) != T:
            raise Declined("imageset_nonlinear")
        return e0, e1

    def member(self, v, s):
        t = s[0]
        if t == "EmptySet":
            return F
        if t in ("UniversalSet", "Complexes"):
            return T
        if t == "Reals":
            return is_real(v)
        if t == "FiniteSet":
            return _or(same_point(v, self.ev(e)) for e in s[1])
        if t == "Interval":
            return in_interval(v, _endpoint(s[1], self.ev), _endpoint(s[2], self.ev), bool(s[3]), bool(s[4]))
        if t == "Union":
            return _or(self.member(v, x) for x in s[1])
        if t == "Intersection":
            return _and(self.member(v, x) for x in s[1])
        if t == "Complement":
            return _and([self.member(v, s[1]), _not(self.member(v, s[2]))])
        if t == "ImageSet":
            e0, e1 = self.image_param(s)
            if abs(e1) <= mpf(10) ** -NEAR:
                return same_point(v, e0)
            k = (v - e0) / e1
            kr = mp.nint(k.real if isinstance(k, mpc) else k)
            return same_point(v, e0 + kr * e1)
        if t == "ConditionSet":
            raise Declined("conditionset")
        raise Declined("set_class:" + str(t))

    def candidates(self, s, nrange=(-2, -1, 0, 1, 2)):
        """explicit points named by the expression: FiniteSet elements and ImageSet samples"""
        t = s[0]
        out = []
        if t == "FiniteSet":
            for e in s[1]:
                out.append((self.ev(e), e))
        elif t in ("Union", "Intersection"):
            for x in s[1]:
                out += self.candidates(x, nrange)
        elif t == "Complement":
            out += self.candidates(s[1], nrange)
        elif t == "ImageSet":
            e0, e1 = self.image_param(s)
            for n in nrange:
                out.append((e0 + n * e1, ["ImageSet@n=%d" % n, s[2]]))
        elif t == "ConditionSet":
            raise Declined("conditionset")
        return out


def contains_class(d, names):
    if isinstance(d, list):
        if d and d[0] in names:
            return True
        return any(contains_class(x, names) for x in d)
    return False
