"""Reference number theory in plain Python ints (oracles of C32/C33).

Everything here is either brute force straight from the definition or a
textbook identity evaluated with Python's own integers (math.gcd, pow with a
modulus, Fraction).  Nothing calls the library under test.  `selftest()`
cross-checks these references against sympy.ntheory (second opinion)."""
import bisect
import functools
import math
from fractions import Fraction

# ------------------------------------------------------------------ primes
_SMALL = None
_SMALL_N = 0


def primes_upto(n):
    """sorted list of all primes <= n (plain sieve of Eratosthenes, cached)"""
    global _SMALL, _SMALL_N
    if _SMALL is None or n > _SMALL_N:
        m = max(n, 1000)
        sv = bytearray([1]) * (m + 1)
        sv[0:2] = b"\x00\x00"
        for i in range(2, math.isqrt(m) + 1):
            if sv[i]:
                sv[i * i::i] = bytearray(len(range(i * i, m + 1, i)))
        _SMALL = [i for i in range(2, m + 1) if sv[i]]
        _SMALL_N = m
    if n == _SMALL_N:
        return _SMALL
    return _SMALL[:bisect.bisect_right(_SMALL, n)]


_MR_BASES = (2, 3, 5, 7, 11, 13, 17, 19, 23, 29, 31, 37, 41)
_MR_EXTRA = (43, 47, 53, 59, 61, 67, 71, 73, 79, 83, 89, 97, 101, 103, 107, 109, 113, 127, 131, 137)


def is_prime(n):
    """deterministic Miller-Rabin below 3.3e24 (first 13 prime bases), 33 fixed bases beyond"""
    if n < 2:
        return False
    for p in _MR_BASES:
        if n % p == 0:
            return n == p
    d, s = n - 1, 0
    while d % 2 == 0:
        d //= 2
        s += 1
    bases = _MR_BASES if n < 3317044064679887385961981 else _MR_BASES + _MR_EXTRA
    for a in bases:
        if a % n == 0:
            continue
        x = pow(a, d, n)
        if x == 1 or x == n - 1:
            continue
        for _ in range(s - 1):
            x = x * x % n
            if x == n - 1:
                break
        else:
            return False
    return True


def is_prime_def(n):
    """primality by trial division (definition), small n"""
    if n < 2:
        return False
    i = 2
    while i * i <= n:
        if n % i == 0:
            return False
        i += 1
    return True


def factorint(n):
    """{p: e} of |n| by trial division (n != 0); meant for |n| up to ~1e12 with small cofactors"""
    n = abs(n)
    out = {}
    p = 2
    while p * p <= n:
        while n % p == 0:
            out[p] = out.get(p, 0) + 1
            n //= p
        p += 1 if p == 2 else 2
    if n > 1:
        out[n] = out.get(n, 0) + 1
    return out


def next_prime(a):
    n = max(a + 1, 2)
    while not is_prime(n):
        n += 1
    return n


# ------------------------------------------------------------------ division
def tdivmod(n, d):
    """quotient rounded toward zero and the matching remainder"""
    q = abs(n) // abs(d)
    if (n < 0) != (d < 0):
        q = -q
    return q, n - q * d


def fdivmod(n, d):
    """quotient rounded toward -inf and the matching remainder"""
    q = n // d
    return q, n - q * d


def binomial(n, k):
    """generalised binomial n(n-1)...(n-k+1)/k! for integer n, k >= 0"""
    num = 1
    for i in range(k):
        num *= n - i
    return num // math.factorial(k)  # exact


def fib(n):
    a, b = 0, 1
    for _ in range(n):
        a, b = b, a + b
    return a


def lucas(n):
    a, b = 2, 1
    for _ in range(n):
        a, b = b, a + b
    return a


_BERN = [Fraction(1)]


def bernoulli(n):
    """B_n from sum_{k=0}^{m} C(m+1,k) B_k = 0 (gives B_1 = -1/2)"""
    while len(_BERN) <= n:
        m = len(_BERN)
        s = Fraction(0)
        for k in range(m):
            s += math.comb(m + 1, k) * _BERN[k]
        _BERN.append(-s / (m + 1))
    return _BERN[n]


def harmonic(n, m):
    """sum_{i=1}^{n} 1/i**m"""
    s = Fraction(0)
    for i in range(1, n + 1):
        s += Fraction(1, i) ** m if m >= 0 else Fraction(i) ** (-m)
    return s


# ------------------------------------------------------------------ (Z/n)^*
def units(n):
    return [a for a in range(1, n + 1) if math.gcd(a, n) == 1] if n > 1 else [0]


def phi_brute(n):
    return sum(1 for a in range(1, n + 1) if math.gcd(a, n) == 1)


def order_brute(a, n):
    """smallest k >= 1 with a**k == 1 (mod n); None when gcd(a, n) != 1"""
    if math.gcd(a, n) != 1:
        return None
    if n == 1:
        return 1
    a %= n
    x, k = a, 1
    while x != 1:
        x = x * a % n
        k += 1
    return k


def order_check(a, n, o, ofac):
    """is o the order of a mod n, given the factorisation {q: e} of o"""
    if o < 1 or pow(a, o, n) != 1 % n:
        return False
    for q in ofac:
        if pow(a, o // q, n) == 1 % n:
            return False
    return True


@functools.lru_cache(maxsize=4096)
def primitive_roots_brute(n):
    """all primitive roots in [1, n-1] (n >= 2), increasing"""
    ph = phi_brute(n)
    return [g for g in range(1, n) if math.gcd(g, n) == 1 and order_brute(g, n) == ph]


def carmichael_brute(n):
    """exponent of (Z/n)^* straight from the definition"""
    l = 1
    for a in units(n):
        l = math.lcm(l, order_brute(a, n))
    return l


def is_exponent_of_group(n, lam):
    """definition check usable for mid-sized n: a**lam == 1 for all units and no lam/q works"""
    us = units(n)
    if lam < 1 or any(pow(a, lam, n) != 1 % n for a in us):
        return False
    for q in factorint(lam):
        if all(pow(a, lam // q, n) == 1 % n for a in us):
            return False
    return True


def totient_fac(fac):
    r = 1
    for p, e in fac.items():
        r *= (p - 1) * p ** (e - 1)
    return r


def carmichael_fac(fac):
    l = 1
    for p, e in fac.items():
        if p == 2:
            t = 1 if e == 1 else (2 if e == 2 else 2 ** (e - 2))
        else:
            t = (p - 1) * p ** (e - 1)
        l = math.lcm(l, t)
    return l


# ------------------------------------------------------------------ symbols
def legendre(a, p):
    """Euler's criterion, p an odd prime"""
    r = pow(a % p, (p - 1) // 2, p)
    return -1 if r == p - 1 else r


def legendre_def(a, p):
    a %= p
    if a == 0:
        return 0
    return 1 if any(x * x % p == a for x in range(1, p)) else -1


def jacobi(a, n, fac=None):
    """n odd positive; product of Legendre symbols over the factorisation of n"""
    if fac is None:
        fac = factorint(n)
    r = 1
    for p, e in fac.items():
        r *= legendre(a, p) ** e
    return r


def kronecker(a, n, fac=None):
    """Kronecker symbol by its definition (unit, 2-part, odd part)"""
    if n == 0:
        return 1 if abs(a) == 1 else 0
    r = 1
    if n < 0:
        if a < 0:
            r = -1
        n = -n
    if fac is None:
        fac = factorint(n)
    for p, e in fac.items():
        if p == 2:
            if a % 2 == 0:
                s = 0
            else:
                s = 1 if a % 8 in (1, 7) else -1
        else:
            s = legendre(a, p)
        r *= s ** e
    return r


# ------------------------------------------------------------------ roots / residues
def nth_roots_brute(a, n, m):
    """all x in [0, m) with x**n == a (mod m)"""
    a %= m
    return [x for x in range(m) if pow(x, n, m) == a]


def count_roots_pp(a, n, q):
    """number of x in [0,q) with x**n == a mod q (plain enumeration)"""
    a %= q
    return sum(1 for x in range(q) if pow(x, n, q) == a)


def modpow_target(a, r, m):
    """a**r mod m for integer r (negative r through the inverse); None if it does not exist"""
    if r >= 0:
        return pow(a, r, m)
    if math.gcd(a, m) != 1:
        return None
    return pow(pow(a, -1, m), -r, m) if m > 1 else 0


# ------------------------------------------------------------------ powers
def iroot(n, k):
    """floor of the k-th root of n >= 0"""
    if n < 2:
        return n
    if k == 1:
        return n
    x = 1 << -(-n.bit_length() // k)
    while True:
        y = ((k - 1) * x + n // x ** (k - 1)) // k
        if y >= x:
            break
        x = y
    while x ** k > n:
        x -= 1
    while (x + 1) ** k <= n:
        x += 1
    return x


def perfect_powers_of(n):
    """all exponents e >= 2 such that n (>= 2) is a perfect e-th power, with bases: {e: b}"""
    out = {}
    for e in range(2, n.bit_length() + 1):
        b = iroot(n, e)
        if b >= 2 and b ** e == n:
            out[e] = b
    return out


def polygonal(s, n):
    return ((s - 2) * n * n - (s - 4) * n) // 2


def mobius_fac(fac):
    if any(e > 1 for e in fac.values()):
        return 0
    return -1 if len(fac) % 2 else 1


def primorial(x):
    r = 1
    for p in primes_upto(x):
        r *= p
    return r


def primepi(x):
    if x < 2:
        return 0
    return len(primes_upto(x)) if x == _SMALL_N else bisect.bisect_right(primes_upto(max(x, 1000)), x)


def crt_solvable(rems, mods):
    """pairwise compatibility (necessary and sufficient)"""
    for i in range(len(mods)):
        for j in range(i):
            if (rems[i] - rems[j]) % math.gcd(mods[i], mods[j]) != 0:
                return False
    return True


def crt_brute(rems, mods):
    """smallest x >= 0 with x == r_i mod m_i, by search over one period; None if none"""
    l = 1
    for m in mods:
        l = math.lcm(l, m)
    for x in range(l):
        if all((x - r) % m == 0 for r, m in zip(rems, mods)):
            return x
    return None


# ------------------------------------------------------------------ self test against sympy
def selftest(verbose=True):
    import sympy
    from sympy import ntheory as snt
    from sympy.functions.combinatorial import numbers as sfn
    bad = []

    def chk(name, a, b, *args):
        if a != b:
            bad.append((name, args, a, b))
    pr = primes_upto(3000)
    chk("primes", pr, list(sympy.primerange(2, 3001)))
    for n in range(0, 3000):
        chk("is_prime", is_prime(n), sympy.isprime(n), n)
        chk("is_prime_def", is_prime_def(n), sympy.isprime(n), n)
    for n in (2 ** 89 - 1, 2 ** 89 + 1, 2 ** 127 - 1, 3317044064679887385961981, 10 ** 30 + 57, 10 ** 30 + 59,
              561, 1105, 1729, 2047, 3215031751, 341550071728321):
        chk("is_prime_big", is_prime(n), sympy.isprime(n), n)
    for n in range(1, 400):
        fac = factorint(n)
        chk("factorint", fac, dict(snt.factorint(n)), n)
        chk("phi", phi_brute(n), int(sfn.totient(n)), n)
        chk("phi_fac", totient_fac(fac), phi_brute(n), n)
        chk("mobius", mobius_fac(fac), int(sfn.mobius(n)), n)
        if n <= 150:
            cb = carmichael_brute(n)
            chk("carmichael", cb, int(sfn.reduced_totient(n)), n)
            chk("carmichael_fac", carmichael_fac(fac), cb, n)
            chk("carmichael_def", is_exponent_of_group(n, cb), True, n)
            if n >= 2:
                prs = primitive_roots_brute(n)
                sp = snt.primitive_root(n)
                chk("primroot", (prs[0] if prs else None), (int(sp) if sp is not None else None), n)
            for a in range(-3, n + 3):
                o = order_brute(a, n)
                if o is not None and n > 1:
                    chk("order", o, int(snt.n_order(a, n)), a, n)
    for p in pr[1:25]:
        for a in range(-p, 2 * p):
            chk("legendre", legendre(a, p), legendre_def(a, p), a, p)
            chk("legendre_sympy", legendre(a, p), int(sfn.legendre_symbol(a, p)), a, p)
    for n in range(1, 80, 2):
        for a in range(-30, 90):
            chk("jacobi", jacobi(a, n), int(sfn.jacobi_symbol(a, n)), a, n)
    try:
        ks = sfn.kronecker_symbol
    except AttributeError:
        ks = None
    if ks is not None:
        for n in range(-30, 31):
            for a in range(-30, 31):
                chk("kronecker", kronecker(a, n), int(ks(a, n)), a, n)
    for m in range(1, 40):
        for n in range(1, 6):
            for a in range(m):
                br = nth_roots_brute(a, n, m)
                if m > 1:
                    try:
                        sr = snt.nthroot_mod(a, n, m, all_roots=True)
                    except (NotImplementedError, ValueError):
                        sr = None
                    if sr is not None:
                        chk("nthroot", br, sorted(int(x) for x in sr), a, n, m)
    for n in range(0, 40):
        chk("bernoulli", bernoulli(n) if n != 1 else Fraction(1, 2), Fraction(int(sympy.bernoulli(n).p), int(sympy.bernoulli(n).q)) if n != 1 else Fraction(1, 2), n)
        chk("fib", fib(n), int(sympy.fibonacci(n)), n)
        chk("lucas", lucas(n), int(sympy.lucas(n)), n)
        for m in range(1, 4):
            h = sympy.harmonic(n, m)
            chk("harmonic", harmonic(n, m), Fraction(int(h.p), int(h.q)), n, m)
        for k in range(0, 12):
            chk("binomial", binomial(n - 15, k), int(sympy.binomial(n - 15, k)), n - 15, k)
    for n in range(2, 3000):
        pp = perfect_powers_of(n)
        sp = snt.perfect_power(n)
        if sp is False:
            chk("perfect_power", pp, {}, n)
        else:
            chk("perfect_power", (pp[max(pp)], max(pp)) if pp else None, (int(sp[0]), int(sp[1])), n)
    for n in range(-3, 500):
        chk("nextprime", next_prime(n), int(sympy.nextprime(n)) if n >= 0 else 2, n)
        chk("primepi", primepi(n), int(sympy.primepi(n)) if n >= 0 else 0, n)
    for n in range(1, 200):
        chk("primorial", primorial(n), int(sympy.primorial(n, nth=False)), n)
    for k in (2, 3, 5, 7, 13):
        for n in (0, 1, 2, 7, 8, 9, 10 ** 20, 10 ** 20 + 1, 2 ** 200 - 1, 3 ** 130):
            r = iroot(n, k)
            chk("iroot", r ** k <= n < (r + 1) ** k, True, n, k)
    if verbose:
        print("ntref selftest: %d disagreements" % len(bad))
        for b in bad[:20]:
            print("  ", b)
    return bad


if __name__ == "__main__":
    import sys
    sys.exit(1 if selftest() else 0)
