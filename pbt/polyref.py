"""Reference (schoolbook) polynomial arithmetic for C21/C22, independent of the library.

A value is a *PP*: dict {monomial: Fraction} without zero entries, where a monomial is a
sorted tuple of (atom, exponent) pairs, atom a string (symbol name or an opaque generator such as
"2**x" / a dumped function call) and exponent a non-zero Fraction (integers for ordinary
polynomials; fractions and negative values only occur with generators such as sqrt(x), 1/x).
Everything is plain dictionary arithmetic over fractions.Fraction.
"""
import json
from fractions import Fraction


class Unsupported(Exception):
    """the tree/recipe is outside what the reference can evaluate (never a violation)"""


ONE = ()


def const(c):
    c = Fraction(c)
    return {ONE: c} if c else {}


def var(atom, e=1):
    e = Fraction(e)
    if e == 0:
        return {ONE: Fraction(1)}
    return {((atom, e),): Fraction(1)}


def add(p, q):
    r = dict(p)
    for m, c in q.items():
        s = r.get(m, 0) + c
        if s:
            r[m] = s
        else:
            r.pop(m, None)
    return r


def neg(p):
    return {m: -c for m, c in p.items()}


def sub(p, q):
    return add(p, neg(q))


def scale(p, k):
    k = Fraction(k)
    return {m: c * k for m, c in p.items()} if k else {}


def mono_mul(m1, m2):
    if not m1:
        return m2
    if not m2:
        return m1
    d = dict(m1)
    for a, e in m2:
        s = d.get(a, 0) + e
        if s:
            d[a] = s
        else:
            d.pop(a, None)
    return tuple(sorted(d.items()))


def mul(p, q):
    r = {}
    for m1, c1 in p.items():
        for m2, c2 in q.items():
            m = mono_mul(m1, m2)
            r[m] = r.get(m, 0) + c1 * c2
    return {m: c for m, c in r.items() if c}


def pw(p, n):
    """p**n by repeated multiplication (n >= 0); p**0 == 1 also for p == 0"""
    r = const(1)
    for _ in range(n):
        r = mul(r, p)
    return r


def mono_pow(m, r):
    r = Fraction(r)
    if r == 0:
        return ONE
    return tuple((a, e * r) for a, e in m)


def is_monomial(p):
    return len(p) == 1


def power(p, r):
    """p**r for rational r: integer r >= 0 anything; otherwise p must be a single monomial
    (coefficient 1 unless r is an integer)"""
    r = Fraction(r)
    if r.denominator == 1 and r >= 0:
        return pw(p, int(r))
    if not is_monomial(p):
        raise Unsupported("non-monomial to a negative/fractional power")
    (m, c), = p.items()
    if r.denominator == 1:
        return {mono_pow(m, r): Fraction(1) / c ** int(-r)}
    if c != 1:
        raise Unsupported("fractional power of a coefficient")
    return {mono_pow(m, r): Fraction(1)}


def diff(p, atom):
    r = {}
    for m, c in p.items():
        d = dict(m)
        e = d.get(atom)
        if not e:
            continue
        if e == 1:
            del d[atom]
        else:
            d[atom] = e - 1
        mm = tuple(sorted(d.items()))
        r[mm] = r.get(mm, 0) + c * e
    return {m: c for m, c in r.items() if c}


def subst(p, env):
    """replace atoms by PP values (atoms missing from env stay); integer exponents only"""
    r = {}
    for m, c in p.items():
        t = const(c)
        for a, e in m:
            if a in env:
                if e.denominator != 1 or e < 0:
                    raise Unsupported("substitution into a non-polynomial power")
                t = mul(t, pw(env[a], int(e)))
            else:
                t = mul(t, {((a, e),): Fraction(1)})
        r = add(r, t)
    return r


def atoms(p):
    s = set()
    for m in p:
        for a, _ in m:
            s.add(a)
    return s


def as_const(p):
    """Fraction value of a constant PP, else None"""
    if not p:
        return Fraction(0)
    if len(p) == 1 and ONE in p:
        return p[ONE]
    return None


def bits(p):
    return max([max(abs(c.numerator).bit_length(), c.denominator.bit_length()) for c in p.values()] or [0])


# ------------------------------------------------------------------ univariate views
def from_udict(d, v):
    """{exp:int -> PP coefficient or Fraction} in the generator PP v (a single monomial, coefficient 1)"""
    r = {}
    for e, c in d.items():
        cp = c if isinstance(c, dict) else const(c)
        if not cp:
            continue
        r = add(r, mul(cp, power(v, e)))
    return r


def to_udict(p, atom):
    """PP -> {exp: PP coefficient} with respect to one atom (integer exponents >= 0 required)"""
    out = {}
    for m, c in p.items():
        e = Fraction(0)
        rest = []
        for a, x in m:
            if a == atom:
                e = x
            else:
                rest.append((a, x))
        if e.denominator != 1 or e < 0:
            raise Unsupported("not a polynomial in " + atom)
        out.setdefault(int(e), {})[tuple(rest)] = c
    return out


# ------------------------------------------------------------------ raw dump -> PP
_FUN_ATOM = {"sin": "Sin", "cos": "Cos", "log": "Log", "exp": None}


def _atom_of_dump(d):
    return json.dumps(d, separators=(",", ":"))


def _int_base_power(b, ex):
    """b**ex for an integer b >= 2 and a PP exponent that is linear in its atoms: b**(c + sum k_i s_i)
    = b**c * prod (b**s_i)**k_i with atoms "b**s_i" """
    r = const(1)
    for m, k in ex.items():
        if m == ONE:
            if k.denominator != 1:
                raise Unsupported("irrational numeric power")
            r = scale(r, Fraction(b) ** int(k))
        elif len(m) == 1 and m[0][1] == 1:
            r = mul(r, var("%d**%s" % (b, m[0][0]), k))
        else:
            raise Unsupported("non-linear exponent")
    return r


def _pow_node(base, ex, ev):
    """ev: evaluator for sub-nodes (dump or recipe) returning PP"""
    e = as_const(ex)
    if e is not None:
        return power(base, e)
    b = as_const(base)
    if b is not None and b.denominator == 1 and b >= 2:
        return _int_base_power(int(b), ex)
    raise Unsupported("symbolic exponent")


def dump_pp(d):
    """evaluate a raw dump (drv/dump.cpp) to a PP; polynomial objects are expanded in their generator(s)"""
    h = d[0]
    if h == "Integer":
        return const(int(d[1]))
    if h == "Rational":
        return const(Fraction(int(d[1]), int(d[2])))
    if h == "Symbol":
        return var(d[1])
    if h == "Add":
        r = dump_pp(d[1])
        for t, c in d[2]:
            r = add(r, mul(dump_pp(t), dump_pp(c)))
        return r
    if h == "Mul":
        r = dump_pp(d[1])
        for b, e in d[2]:
            r = mul(r, _pow_node(dump_pp(b), dump_pp(e), dump_pp))
        return r
    if h == "Pow":
        return _pow_node(dump_pp(d[1]), dump_pp(d[2]), dump_pp)
    if h in ("UIntPoly", "URatPoly", "UExprPoly"):
        return from_udict(upoly_coeffs(d), gen_pp(d[1]))
    if h in ("MIntPoly", "MExprPoly"):
        vs = [gen_pp(v) for v in d[1]]
        r = {}
        for exps, c in d[2]:
            t = const(int(c)) if h == "MIntPoly" else dump_pp(c)
            for v, e in zip(vs, exps):
                t = mul(t, power(v, e))
            r = add(r, t)
        return r
    if h in ("Complex", "RealDouble", "ComplexDouble", "Infty", "NaN", "Constant"):
        raise Unsupported(h)
    return var(_atom_of_dump(d))


def gen_pp(vd):
    v = dump_pp(vd)
    if not is_monomial(v) or list(v.values())[0] != 1 or ONE in v:
        raise Unsupported("generator is not a monomial")
    return v


def upoly_coeffs(d):
    """{exp: PP} of a dumped univariate polynomial (stored entries only, also zero-valued ones)"""
    h = d[0]
    out = {}
    for ent in d[2]:
        if h == "UIntPoly":
            out[ent[0]] = const(int(ent[1]))
        elif h == "URatPoly":
            out[ent[0]] = const(Fraction(int(ent[1]), int(ent[2])))
        else:
            out[ent[0]] = dump_pp(ent[1])
    return out


# ------------------------------------------------------------------ recipe -> PP
def recipe_pp(r):
    """evaluate a driver recipe built from integer rational symbol add sub mul neg pow sqrt div sin"""
    h = r[0]
    if h == "integer":
        return const(r[1])
    if h == "rational":
        return const(Fraction(r[1], r[2]))
    if h == "symbol":
        return var(r[1])
    if h == "add":
        return add(recipe_pp(r[1]), recipe_pp(r[2]))
    if h == "sub":
        return sub(recipe_pp(r[1]), recipe_pp(r[2]))
    if h == "mul":
        return mul(recipe_pp(r[1]), recipe_pp(r[2]))
    if h == "neg":
        return neg(recipe_pp(r[1]))
    if h == "pow":
        return _pow_node(recipe_pp(r[1]), recipe_pp(r[2]), recipe_pp)
    if h == "sqrt":
        return power(recipe_pp(r[1]), Fraction(1, 2))
    if h == "div":
        return mul(recipe_pp(r[1]), power(recipe_pp(r[2]), -1))
    if h in ("sin", "cos", "log"):
        return var(_atom_of_dump([_FUN_ATOM[h], recipe_to_dump_atom(r[1])]))
    raise Unsupported("recipe head " + str(h))


def recipe_to_dump_atom(r):
    """the dump of a *symbol* argument of an opaque function generator"""
    if r[0] == "symbol":
        return ["Symbol", r[1]]
    raise Unsupported("function argument")


# ------------------------------------------------------------------ PP -> recipe (canonical sum of terms)
def num_recipe(c):
    c = Fraction(c)
    if c.denominator == 1:
        return ["integer", c.numerator]
    return ["rational", c.numerator, c.denominator]


def pp_recipe(p):
    """a recipe whose value is p (symbol atoms, non-negative integer exponents only)"""
    terms = []
    for m, c in sorted(p.items()):
        t = num_recipe(c)
        for a, e in m:
            f = ["symbol", a] if e == 1 else ["pow", ["symbol", a], ["integer", int(e)]]
            t = ["mul", t, f]
        terms.append(t)
    if not terms:
        return ["integer", 0]
    r = terms[0]
    for t in terms[1:]:
        r = ["add", r, t]
    return r


def show(p, limit=400):
    """human readable PP"""
    if not p:
        return "0"
    out = []
    for m, c in sorted(p.items()):
        s = str(c)
        for a, e in m:
            s += "*%s" % a if e == 1 else "*%s^%s" % (a, e)
        out.append(s)
    return (" + ".join(out))[:limit]
