"""C41: generator of concurrent programs for the `thr` harness (drv/thr_main.cpp).

case = {"pool": [node...], "threads": [[instr...]...]}
  node   : a small JSON tree; leaves are symbols / exact numbers / {"ref": k} (an earlier pool
           element, index taken modulo the number of earlier elements) so that pool elements share
           sub-structure;
  instr  : {"op": name, "a": i, "b": j, ...}; operand indices are taken modulo (P + number of the
           thread's own earlier statements), so every sub-list of a program is a valid program
           (Hypothesis shrinking deletes / simplifies freely).
`compile_case` renders the request line.  Only the operations named in the property statement are
used: hash, compare (cmp / eq), print (str), diff, subs, expand, arithmetic combination."""
from hypothesis import strategies as st

from pbt.engine import sx

SYMS = ["x", "y", "z"]
# operations that write the lazy hash cache or construct new objects from shared ones
CACHING = {"hash", "diff", "subs", "expand", "add", "sub", "mul", "div", "pow", "neg"}

# ------------------------------------------------------------------ pool nodes
_small = st.integers(-9, 9)
# multi-limb integers only far above the machine-word range: a mid-size integer that ends up as an exponent
# or as a sieve limit would only test the machine (3**(2**40))
_big = st.sampled_from([2 ** 64 + 1, -(2 ** 64) - 3, 2 ** 70 + 5, 10 ** 30, -(10 ** 30) + 7, 3 ** 50, 2 ** 127 - 1])


def _leaf(sieve):
    opts = [st.sampled_from(SYMS).map(lambda s: {"s": s}), st.sampled_from(SYMS).map(lambda s: {"s": s}),
            _small.map(lambda v: {"i": v}), _big.map(lambda v: {"i": v}),
            st.tuples(_small, st.integers(2, 9)).map(lambda t: {"q": [t[0], t[1]]}),
            st.integers(0, 30).map(lambda k: {"ref": k}), st.integers(0, 30).map(lambda k: {"ref": k}),
            st.sampled_from(["pi", "E", "I"]).map(lambda c: {"c": c})]
    return st.one_of(opts)


def node(sieve=True, max_leaves=6):
    f1 = ["sin", "cos", "exp", "log", "sqrt", "abs", "tan", "erf", "atan", "sinh"]

    def ext(ch):
        opts = [st.tuples(st.sampled_from(["add", "mul", "sub", "div"]), ch, ch).map(lambda t: {"f": t[0], "x": [t[1], t[2]]}),
                st.tuples(st.sampled_from(["add", "mul"]), ch, ch).map(lambda t: {"f": t[0], "x": [t[1], t[2]]}),
                st.tuples(ch, st.integers(-3, 5)).map(lambda t: {"f": "pow", "x": [t[0], {"i": t[1]}]}),
                st.tuples(ch, st.one_of(st.sampled_from(SYMS).map(lambda s: {"s": s}),
                                        st.tuples(st.integers(-3, 3), st.integers(2, 5)).map(lambda t: {"q": [t[0], t[1]]})))
                .map(lambda t: {"f": "pow", "x": [t[0], t[1]]}),
                st.tuples(st.sampled_from(f1), ch).map(lambda t: {"f": t[0], "x": [t[1]]}),
                # c*(s*u) + v: removing v (subs v -> 0, sub) leaves a one-term sum, the Add::from_dict ->
                # Mul::from_dict path that may reuse ("steal") a dictionary in non-thread-safe builds
                st.tuples(st.integers(2, 7), st.sampled_from(SYMS), ch, st.sampled_from(SYMS)).map(
                    lambda t: {"f": "add", "x": [{"f": "mul", "x": [{"i": t[0]}, {"f": "mul", "x": [{"s": t[1]}, t[2]]}]},
                                                 {"s": t[3]}]}),
                st.tuples(st.sampled_from(["f", "g"]), ch, ch).map(lambda t: {"fs": t[0], "x": [t[1], t[2]]})]
        if sieve:
            # "substitute into a shared expression" reaches the process-global prime sieve through these
            # (argument: a bare symbol, so that the sieve limit is whatever a thread substitutes, i.e. small)
            opts.append(st.tuples(st.sampled_from(["primepi", "primorial"]), st.sampled_from(SYMS))
                        .map(lambda t: {"f": t[0], "x": [{"s": t[1]}]}))
        return st.one_of(opts)
    return st.recursive(_leaf(sieve), ext, max_leaves=max_leaves)


DEG_MAX = 16


def render_node(n, k, pdeg, ped=None):
    """node -> (driver expression, degree estimate, exponent depth); k = number of earlier pool elements,
    pdeg / ped = their degree estimates / exponent depths.  Products / powers whose estimated degree exceeds
    DEG_MAX are replaced by their first operand, and a symbolic exponent is only put on top of at most one other
    symbolic exponent, so that expand() and numeric substitution into anything derived from the pool stay small
    (bounded by construction: b**(x**2) at x = 7919 is still cheap, a tower of height 3 is not)."""
    ped = ped if ped is not None else [0] * len(pdeg)
    if "s" in n:
        return ["symbol", n["s"]], 1, 0
    if "i" in n:
        return ["integer", n["i"]], 0, 0
    if "q" in n:
        return ["rational", n["q"][0], n["q"][1]], 0, 0
    if "c" in n:
        return ["constant", n["c"]], 0, 0
    if "ref" in n:
        if k == 0:
            return ["symbol", "x"], 1, 0
        return ["$", n["ref"] % k], pdeg[n["ref"] % k], ped[n["ref"] % k]
    kids = [render_node(c, k, pdeg, ped) for c in n["x"]]
    edmax = max(e for _, _, e in kids)
    if "fs" in n:
        return ["function_symbol", n["fs"], ["list"] + [e for e, _, _ in kids]], max(1, max(d for _, d, _ in kids)), edmax
    f = n["f"]
    if f in ("mul", "div"):
        d = kids[0][1] + kids[1][1]
        if d > DEG_MAX:
            return kids[0]
        return [f, kids[0][0], kids[1][0]], d, edmax
    if f == "pow":
        ex = n["x"][1]
        m = abs(ex["i"]) if "i" in ex else 2
        d = kids[0][1] * max(m, 1)
        symbolic = "s" in ex
        if d > DEG_MAX or kids[1][1] > 1 or (symbolic and kids[0][2] >= 1):
            return kids[0]
        return [f, kids[0][0], kids[1][0]], max(d, 1), kids[0][2] + (1 if symbolic else 0)
    if f in ("add", "sub"):
        return [f, kids[0][0], kids[1][0]], max(kids[0][1], kids[1][1]), edmax
    if f == "exp":
        return [f, kids[0][0]], max(1, kids[0][1]), edmax + 1
    return [f] + [e for e, _, _ in kids], max(1, max(d for _, d, _ in kids)), edmax


def node_heads(n, acc):
    if "f" in n:
        acc.add(n["f"])
    for c in n.get("x", []):
        node_heads(c, acc)
    return acc


# ------------------------------------------------------------------ thread instructions
_idx = st.integers(0, 40)


def instr(sieve=True):
    vals = [st.integers(-3, 12).map(lambda v: {"i": v}), st.just({"i": 0}), st.sampled_from([101, 1000, 7919, 30]).map(lambda v: {"i": v}),
            st.tuples(st.integers(-5, 5), st.integers(2, 7)).map(lambda t: {"q": [t[0], t[1]]}),
            _idx.map(lambda k: {"reg": k}), st.sampled_from(SYMS).map(lambda s: {"s": s})]
    val = st.one_of(vals)
    one = lambda name: st.fixed_dictionaries({"op": st.just(name), "a": _idx})
    two = lambda name: st.fixed_dictionaries({"op": st.just(name), "a": _idx, "b": _idx})
    opts = [one("hash"), one("hash"), one("str"), two("cmp"), two("eq"), one("expand"),
            st.fixed_dictionaries({"op": st.just("diff"), "a": _idx, "s": st.sampled_from(SYMS)}),
            st.fixed_dictionaries({"op": st.just("subs"), "a": _idx, "s": st.sampled_from(SYMS), "v": val}),
            st.fixed_dictionaries({"op": st.just("subs"), "a": _idx, "s": st.sampled_from(SYMS), "v": val}),
            two("add"), two("mul"), two("sub"), two("div"),
            st.fixed_dictionaries({"op": st.just("pow"), "a": _idx, "e": st.integers(-2, 4)}),
            st.fixed_dictionaries({"op": st.just("yield")}),
            st.fixed_dictionaries({"op": st.just("spin"), "n": st.sampled_from([10, 100, 1000, 10000, 100000])})]
    return st.one_of(opts)


def case_strategy(sieve=True, max_threads=8, max_pool=9, max_instr=12):
    def build(with_sieve):
        return st.fixed_dictionaries({
            "pool": st.lists(node(with_sieve), min_size=2, max_size=max_pool),
            "threads": st.lists(st.lists(instr(with_sieve), min_size=1, max_size=max_instr), min_size=2,
                                max_size=max_threads),
        })
    if not sieve:
        return build(False)
    # PrimePi / Primorial nodes (process-global prime sieve) at low weight: one case in five may contain them
    return st.integers(0, 4).flatmap(lambda g: build(g == 0))


def _val(v):
    if "i" in v:
        return ["integer", v["i"]]
    if "q" in v:
        return ["rational", v["q"][0], v["q"][1]]
    if "s" in v:
        return ["symbol", v["s"]]
    raise ValueError(v)


def node_sieve_syms(n, k, psy):
    """symbols that occur as the argument of a PrimePi / Primorial node inside pool node n (through refs)"""
    if "ref" in n:
        return set(psy[n["ref"] % k]) if k else set()
    acc = set()
    if n.get("f") in ("primepi", "primorial") and n["x"] and "s" in n["x"][0]:
        acc.add(n["x"][0]["s"])
    for c in n.get("x", []):
        acc |= node_sieve_syms(c, k, psy)
    return acc


def render_instr(ins, bregs, deg, sieve, ssy=None, ed=None):
    """-> (statement, degree estimate of its result); bregs = the visible registers that hold expressions
    (pool elements and the thread's own expression-valued results), deg = degree estimates by register"""
    def pick(i):
        return bregs[i % len(bregs)]
    op = ins["op"]
    if op == "yield":
        return ["yield"], 0
    if op == "spin":
        return ["spin", ins["n"]], 0
    ia = pick(ins["a"])
    a = ["$", ia]
    if op in ("hash", "str"):
        return [op, a], 0
    if op == "expand":
        return [op, a], deg[ia]
    if op in ("cmp", "eq"):
        return [op, a, ["$", pick(ins["b"])]], 0
    if op in ("add", "sub"):
        ib = pick(ins["b"])
        return [op, a, ["$", ib]], max(deg[ia], deg[ib])
    if op in ("mul", "div"):
        ib = pick(ins["b"])
        if deg[ia] + deg[ib] > DEG_MAX:
            return ["add", a, ["$", ib]], max(deg[ia], deg[ib])
        return [op, a, ["$", ib]], deg[ia] + deg[ib]
    if op == "diff":
        return ["diff", a, ["symbol", ins["s"]]], deg[ia]
    if op == "subs":
        v = ins["v"]
        if ssy is not None and not ssy[ia] and ins["a"] % 4 != 3:
            # pools with PrimePi / Primorial nodes: three substitutions in four go into an element that has one
            hot = [r for r in bregs if ssy[r]]
            if hot:
                ia = hot[ins["a"] % len(hot)]
                a = ["$", ia]
        if ssy is not None and ssy[ia]:
            # the target contains primepi(s) / primorial(s): substitute a small number for that very symbol, so
            # that the substitution really evaluates through the sieve
            cand = sorted(ssy[ia])
            sym = cand[ins["a"] % len(cand)]
            if "i" not in v or not (2 <= v["i"] <= 7919):
                v = {"i": [101, 1000, 30, 7919, 12][ins["a"] % 5]}
            if ed is not None and ed[ia] >= 2:
                v = {"i": v["i"] % 11 + 2}
            return ["subs", a, ["list", ["list", ["symbol", sym], _val(v)]]], deg[ia]
        if ed is not None and "i" in v and abs(v["i"]) > 12 and ed[ia] >= 2:
            v = {"i": v["i"] % 11 + 2}  # numbers substituted under two levels of symbolic exponents stay small
        if "reg" in v:
            iv = pick(v["reg"])
            if sieve or deg[ia] * max(deg[iv], 1) > DEG_MAX or (ed is not None and ed[ia] >= 1 and ed[iv] >= 1):
                # (an expression with a symbolic exponent is never substituted under another symbolic exponent)
                # with PrimePi / Primorial nodes in the pool a substituted value becomes a sieve limit: small ints only
                v = {"i": v["reg"] % 50 + 2}
                return ["subs", a, ["list", ["list", ["symbol", ins["s"]], _val(v)]]], deg[ia]
            return ["subs", a, ["list", ["list", ["symbol", ins["s"]], ["$", iv]]]], deg[ia] * max(deg[iv], 1)
        return ["subs", a, ["list", ["list", ["symbol", ins["s"]], _val(v)]]], deg[ia]
    if op == "pow":
        e = ins["e"]
        if deg[ia] * abs(e) > DEG_MAX:
            e = 1
        return ["pow", a, ["integer", e]], deg[ia] * max(abs(e), 1)
    raise ValueError(op)


def _regs_of(e):
    out = []
    for x in e[1:]:
        if isinstance(x, list):
            if len(x) == 2 and x[0] == "$":
                out.append(x)
            else:
                out += _regs_of(["_"] + [y for y in x if isinstance(y, list)])
    return out


def compile_case(case):
    """-> (request text, P, touched) ; touched[t] = list of (pool index, op) the thread reads directly"""
    pool = case["pool"]
    P = len(pool)
    sieve = uses_sieve(case)
    pdeg, ptx, psy, ped = [], [], [], []
    for k, n in enumerate(pool):
        e, d, xd = render_node(n, k, pdeg, ped)
        ptx.append(sx(e))
        pdeg.append(d)
        ped.append(xd)
        psy.append(node_sieve_syms(n, k, psy) if sieve else set())
    parts = ["(pool " + " ".join(ptx) + ")"]
    touched = []
    for lst in case["threads"]:
        stm = []
        tt = []
        deg = list(pdeg)
        ssy = [set(x) for x in psy]
        ed = list(ped)
        bregs = list(range(P))
        for j, ins in enumerate(lst):
            e, d = render_instr(ins, bregs, deg, sieve, ssy, ed)
            stm.append(sx(e))
            deg.append(d)
            # exponent depth of the result: sum over the operand registers (substituting an expression for a
            # symbol can stack towers; an over-approximation only makes later numbers smaller)
            ed.append(sum(ed[x[1]] for x in _regs_of(e)))
            # sieve symbols of the result: union over the operand registers (an over-approximation is harmless)
            u = set()
            for x in e[1:]:
                if isinstance(x, list) and len(x) == 2 and x[0] == "$":
                    u |= ssy[x[1]]
            ssy.append(set() if e[0] == "subs" else u)
            for x in e[1:]:
                if isinstance(x, list) and len(x) == 2 and x[0] == "$" and x[1] < P:
                    tt.append((x[1], e[0]))
            if e[0] == "subs":
                x = e[2][1][2]
                if isinstance(x, list) and len(x) == 2 and x[0] == "$" and x[1] < P:
                    tt.append((x[1], "subs"))
            if e[0] not in ("hash", "str", "cmp", "eq", "yield", "spin"):
                bregs.append(P + j)
        parts.append("(thread " + " ".join(stm) + ")")
        touched.append(tt)
    return " ".join(parts), P, touched


def shared_hot(touched):
    """pool indices touched by >= 2 threads with at least one hash-caching / constructing operation"""
    by = {}
    for t, lst in enumerate(touched):
        for r, op in lst:
            by.setdefault(r, {}).setdefault(t, set()).add(op)
    hot = []
    for r, th in by.items():
        if len(th) >= 2 and any(ops & CACHING for ops in th.values()):
            hot.append(r)
    return sorted(hot)


def uses_sieve(case):
    acc = set()
    for n in case["pool"]:
        node_heads(n, acc)
    return bool(acc & {"primepi", "primorial"})
