"""C41: generator of concurrent programs for the `thr` harness (drv/thr_main.cpp).

case = {"pool": [node...], "threads": [[instr...]...]}
  node   : a small JSON tree; leaves are symbols / exact numbers / {"ref": k} (an earlier pool
           element, index taken modulo the number of earlier elements) so that pool elements share
           sub-structure;
  instr  : {"op": name, "a": i, "b": j, ...}; operand indices are taken modulo (P + number of the
           thread's own earlier statements), so every sub-list of a program is a valid program
           (Hypothesis shrinking deletes / simplifies freely).
`compile_case` renders the request line.  Only the operations named in the property statement are
used: hash, compare (cmp / eq), print (str), diff, subs, expand, arithmetic combination."""
from hypothesis import strategies as st

from pbt.engine import sx

SYMS = ["x", "y", "z"]
# operations that write the lazy hash cache or construct new objects from shared ones
CACHING = {"hash", "diff", "subs", "expand", "add", "sub", "mul", "div", "pow", "neg"}

# ------------------------------------------------------------------ pool nodes
_small = st.integers(-9, 9)
_big = st.one_of(st.integers(-2 ** 70, 2 ** 70), st.sampled_from([2 ** 64, 2 ** 64 + 1, -(2 ** 63), 10 ** 30]))


def _leaf(sieve):
    opts = [st.sampled_from(SYMS).map(lambda s: {"s": s}), st.sampled_from(SYMS).map(lambda s: {"s": s}),
            _small.map(lambda v: {"i": v}), _big.map(lambda v: {"i": v}),
            st.tuples(_small, st.integers(2, 9)).map(lambda t: {"q": [t[0], t[1]]}),
            st.integers(0, 30).map(lambda k: {"ref": k}), st.integers(0, 30).map(lambda k: {"ref": k}),
            st.sampled_from(["pi", "E", "I"]).map(lambda c: {"c": c})]
    return st.one_of(opts)


def node(sieve=True, max_leaves=6):
    f1 = ["sin", "cos", "exp", "log", "sqrt", "abs", "tan", "gamma", "erf", "atan"]

    def ext(ch):
        opts = [st.tuples(st.sampled_from(["add", "mul", "sub", "div"]), ch, ch).map(lambda t: {"f": t[0], "x": [t[1], t[2]]}),
                st.tuples(st.sampled_from(["add", "mul"]), ch, ch).map(lambda t: {"f": t[0], "x": [t[1], t[2]]}),
                st.tuples(ch, st.integers(-3, 5)).map(lambda t: {"f": "pow", "x": [t[0], {"i": t[1]}]}),
                st.tuples(ch, ch).map(lambda t: {"f": "pow", "x": [t[0], t[1]]}),
                st.tuples(st.sampled_from(f1), ch).map(lambda t: {"f": t[0], "x": [t[1]]}),
                st.tuples(st.sampled_from(["f", "g"]), ch, ch).map(lambda t: {"fs": t[0], "x": [t[1], t[2]]})]
        if sieve:
            # "substitute into a shared expression" reaches the process-global prime sieve through these
            opts.append(st.tuples(st.sampled_from(["primepi", "primorial"]), ch).map(lambda t: {"f": t[0], "x": [t[1]]}))
        return st.one_of(opts)
    return st.recursive(_leaf(sieve), ext, max_leaves=max_leaves)


def render_node(n, k):
    """node -> driver expression; k = number of earlier pool elements"""
    if "s" in n:
        return ["symbol", n["s"]]
    if "i" in n:
        return ["integer", n["i"]]
    if "q" in n:
        return ["rational", n["q"][0], n["q"][1]]
    if "c" in n:
        return ["constant", n["c"]]
    if "ref" in n:
        if k == 0:
            return ["symbol", "x"]
        return ["$", n["ref"] % k]
    if "fs" in n:
        return ["function_symbol", n["fs"], ["list"] + [render_node(c, k) for c in n["x"]]]
    return [n["f"]] + [render_node(c, k) for c in n["x"]]


def node_heads(n, acc):
    if "f" in n:
        acc.add(n["f"])
    for c in n.get("x", []):
        node_heads(c, acc)
    return acc


# ------------------------------------------------------------------ thread instructions
_idx = st.integers(0, 40)


def instr(sieve=True):
    vals = [st.integers(-3, 12).map(lambda v: {"i": v}), st.sampled_from([101, 1000, 7919, 30]).map(lambda v: {"i": v}),
            st.tuples(st.integers(-5, 5), st.integers(2, 7)).map(lambda t: {"q": [t[0], t[1]]}),
            _idx.map(lambda k: {"reg": k}), st.sampled_from(SYMS).map(lambda s: {"s": s})]
    val = st.one_of(vals)
    one = lambda name: st.fixed_dictionaries({"op": st.just(name), "a": _idx})
    two = lambda name: st.fixed_dictionaries({"op": st.just(name), "a": _idx, "b": _idx})
    opts = [one("hash"), one("hash"), one("str"), two("cmp"), two("eq"), one("expand"),
            st.fixed_dictionaries({"op": st.just("diff"), "a": _idx, "s": st.sampled_from(SYMS)}),
            st.fixed_dictionaries({"op": st.just("subs"), "a": _idx, "s": st.sampled_from(SYMS), "v": val}),
            two("add"), two("mul"), two("sub"), two("div"),
            st.fixed_dictionaries({"op": st.just("pow"), "a": _idx, "e": st.integers(-2, 4)}),
            st.fixed_dictionaries({"op": st.just("yield")}),
            st.fixed_dictionaries({"op": st.just("spin"), "n": st.sampled_from([10, 100, 1000, 10000, 100000])})]
    return st.one_of(opts)


def case_strategy(sieve=True, max_threads=8, max_pool=9, max_instr=12):
    return st.fixed_dictionaries({
        "pool": st.lists(node(sieve), min_size=2, max_size=max_pool),
        "threads": st.lists(st.lists(instr(sieve), min_size=1, max_size=max_instr), min_size=2, max_size=max_threads),
    })


def _val(v, n_regs):
    if "i" in v:
        return ["integer", v["i"]]
    if "q" in v:
        return ["rational", v["q"][0], v["q"][1]]
    if "s" in v:
        return ["symbol", v["s"]]
    return ["$", v["reg"] % n_regs]


def render_instr(ins, n_regs):
    op = ins["op"]
    if op == "yield":
        return ["yield"]
    if op == "spin":
        return ["spin", ins["n"]]
    a = ["$", ins["a"] % n_regs]
    if op in ("hash", "str", "expand"):
        return [op, a]
    if op in ("cmp", "eq", "add", "mul", "sub", "div"):
        return [op, a, ["$", ins["b"] % n_regs]]
    if op == "diff":
        return ["diff", a, ["symbol", ins["s"]]]
    if op == "subs":
        return ["subs", a, ["list", ["list", ["symbol", ins["s"]], _val(ins["v"], n_regs)]]]
    if op == "pow":
        return ["pow", a, ["integer", ins["e"]]]
    raise ValueError(op)


def compile_case(case):
    """-> (request text, P, touched) ; touched[t] = list of (pool index, op) the thread reads directly"""
    pool = case["pool"]
    P = len(pool)
    ptxt = " ".join(sx(render_node(n, k)) for k, n in enumerate(pool))
    parts = ["(pool " + ptxt + ")"]
    touched = []
    for lst in case["threads"]:
        stm = []
        tt = []
        for j, ins in enumerate(lst):
            n_regs = P + j
            stm.append(sx(render_instr(ins, n_regs)))
            for key in ("a", "b"):
                if key in ins and ins["op"] not in ("yield", "spin"):
                    r = ins[key] % n_regs
                    if r < P:
                        tt.append((r, ins["op"]))
            if ins["op"] == "subs" and "reg" in ins["v"]:
                r = ins["v"]["reg"] % n_regs
                if r < P:
                    tt.append((r, "subs"))
        parts.append("(thread " + " ".join(stm) + ")")
        touched.append(tt)
    return " ".join(parts), P, touched


def shared_hot(touched):
    """pool indices touched by >= 2 threads with at least one hash-caching / constructing operation"""
    by = {}
    for t, lst in enumerate(touched):
        for r, op in lst:
            by.setdefault(r, {}).setdefault(t, set()).add(op)
    hot = []
    for r, th in by.items():
        if len(th) >= 2 and any(ops & CACHING for ops in th.values()):
            hot.append(r)
    return sorted(hot)


def uses_sieve(case):
    acc = set()
    for n in case["pool"]:
        node_heads(n, acc)
    return bool(acc & {"primepi", "primorial"})
