"""Helpers of C15 (generated C code computes the expression's value).

* identifier screening of emitted code (bound symbols + ISO C <math.h> only),
* translation unit builder / gcc runner with bisection of batches that do not compile,
* expression strategies over the node types CodePrinter / C89CodePrinter / C99CodePrinter accept,
* reference(): mpmath value of a dump at an input vector together with the first-order error mass
  E of an evaluator that rounds every node (pbt/evalnum.py model), for *two* unit roundoffs at once
  (double 2^-53, float 2^-24): the rounding points that are exact differ per precision.
"""
import json
import math
import os
import re
import struct
import subprocess
from fractions import Fraction

import mpmath
from mpmath import mp, mpf, mpc

from . import engine, gen
from . import oracle_num as on
from . import evalnum as en
from .oracle_num import Unjudgeable

SYMS = ["x", "y", "z", "t"]
NVEC = 4

# ---------------------------------------------------------------------------------------------
# identifiers of ISO C99 <math.h> (7.12); f / l suffixed variants are added below.  Anything else in
# emitted code that is not a bound symbol is something the *user* of the printer has to supply
# (EulerGamma, Catalan, GoldenRatio, gamma, loggamma, lambertw, f, ...): such code is declined.
_MATH_FUNCS = ("acos asin atan atan2 cos sin tan acosh asinh atanh cosh sinh tanh exp exp2 expm1 frexp ilogb ldexp "
               "log log10 log1p log2 logb modf scalbn scalbln cbrt fabs hypot pow sqrt erf erfc lgamma tgamma ceil "
               "floor nearbyint rint lrint llrint round lround llround trunc fmod remainder remquo copysign nan "
               "nextafter nexttoward fdim fmax fmin fma").split()
MATH_FUNCS = set(_MATH_FUNCS)
MATH_H = set(_MATH_FUNCS) | set(n + "f" for n in _MATH_FUNCS) | set(n + "l" for n in _MATH_FUNCS) | {
    "HUGE_VAL", "HUGE_VALF", "HUGE_VALL", "INFINITY", "NAN", "fpclassify", "isfinite", "isinf", "isnan", "isnormal",
    "signbit", "isgreater", "isgreaterequal", "isless", "islessequal", "islessgreater", "isunordered"}
# ISO C90 <math.h> (what a C89 printer may rely on)
MATH_H_C89 = set("acos asin atan atan2 cos sin tan cosh sinh tanh exp frexp ldexp log log10 modf pow sqrt ceil fabs "
                 "floor fmod HUGE_VAL".split())

_PPNUM = re.compile(r"\.?[0-9](?:[eEpP][+-]|[A-Za-z0-9_.])*")
_IDENT = re.compile(r"[A-Za-z_][A-Za-z0-9_]*")


def tokens(code):
    """(kind, text) for kind in num / id / op over C source text (pp-numbers are single tokens)"""
    out = []
    i, n = 0, len(code)
    while i < n:
        c = code[i]
        if c.isdigit() or (c == "." and i + 1 < n and code[i + 1].isdigit()):
            m = _PPNUM.match(code, i)
            out.append(("num", m.group(0)))
            i = m.end()
        elif c.isalpha() or c == "_":
            m = _IDENT.match(code, i)
            out.append(("id", m.group(0)))
            i = m.end()
        elif c.isspace():
            i += 1
        else:
            out.append(("op", c))
            i += 1
    return out


def foreign_identifiers(code, allowed=MATH_H):
    return sorted(set(t for k, t in tokens(code) if k == "id" and t not in SYMS and t not in allowed))


# ---------------------------------------------------------------------------------------------
# C translation unit

CC = ["gcc", "-O0", "-std=gnu99", "-fno-builtin", "-w"]
WORKDIR = os.path.join(engine.WORK, "c15")

_PROLOGUE = """#include <math.h>
#include <stdio.h>
#include <signal.h>
#include <setjmp.h>
static sigjmp_buf jb;
static void onfpe(int s) { (void)s; siglongjmp(jb, 1); }
"""


def translation_unit(funcs):
    """funcs: list of (code, vectors[NVEC][len(SYMS)]).  One function per expression; main prints
    '<k> <j> <hexfloat>' for function k at input vector j ('fpe' when the evaluation raised SIGFPE:
    integer division by zero in emitted integer arithmetic)"""
    parts = [_PROLOGUE]
    params = ", ".join("double " + s for s in SYMS)
    for k, (code, _) in enumerate(funcs):
        parts.append("static double f_%d(%s)\n{ return\n%s\n; }\n" % (k, params, code))
    parts.append("typedef double (*fn_t)(%s);\n" % ", ".join(["double"] * len(SYMS)))
    parts.append("static const fn_t F[] = {%s};\n" % ", ".join("f_%d" % k for k in range(len(funcs))))
    rows = []
    for _, vecs in funcs:
        rows.append("{" + ", ".join("{" + ", ".join(float(v).hex() for v in vec) + "}" for vec in vecs) + "}")
    parts.append("static const double X[][%d][%d] = {\n%s};\n" % (NVEC, len(SYMS), ",\n".join(rows)))
    parts.append("""int main(void)
{
    volatile int k, j;
    signal(SIGFPE, onfpe);
    for (k = 0; k < %d; k++)
        for (j = 0; j < %d; j++) {
            if (sigsetjmp(jb, 1)) { printf("%%d %%d fpe\\n", (int)k, (int)j); continue; }
            double v = F[k](%s);
            printf("%%d %%d %%a\\n", (int)k, (int)j, v);
        }
    return 0;
}
""" % (len(funcs), NVEC, ", ".join("X[k][j][%d]" % i for i in range(len(SYMS)))))
    return "".join(parts)


class CRunError(Exception):
    pass


def _compile_run_once(funcs, tag):
    """-> (ok, results or compiler output).  results[k][j] = float or 'fpe'"""
    os.makedirs(WORKDIR, exist_ok=True)
    base = os.path.join(WORKDIR, "b%d_%s" % (os.getpid(), tag))
    src, exe = base + ".c", base + ".exe"
    try:
        with open(src, "w") as f:
            f.write(translation_unit(funcs))
        p = subprocess.run(CC + [src, "-o", exe, "-lm"], stdout=subprocess.PIPE, stderr=subprocess.STDOUT, timeout=600)
        if p.returncode != 0:
            return False, p.stdout.decode("utf-8", "replace")
        r = subprocess.run([exe], stdout=subprocess.PIPE, stderr=subprocess.PIPE, timeout=600)
        if r.returncode != 0:
            raise CRunError("generated program exited with %s: %s" % (r.returncode, r.stderr[-500:]))
        res = [[None] * NVEC for _ in funcs]
        for ln in r.stdout.decode("ascii", "replace").splitlines():
            k, j, v = ln.split()
            res[int(k)][int(j)] = "fpe" if v == "fpe" else engine.hexf(v)
        return True, res
    finally:
        for pth in (src, exe):
            try:
                os.unlink(pth)
            except OSError:
                pass


def compile_run(funcs, tag="0", stats=None):
    """Compile and run a batch; a batch that does not compile is bisected.
    -> list (parallel to funcs) of ('ok', [values]) or ('rejected', compiler message)"""
    if not funcs:
        return []
    if stats is not None:
        stats["compilations"] = stats.get("compilations", 0) + 1
    ok, res = _compile_run_once(funcs, tag)
    if ok:
        return [("ok", r) for r in res]
    if len(funcs) == 1:
        msg = "\n".join(ln for ln in res.splitlines() if "error" in ln or "undefined" in ln)[:600] or res[:600]
        return [("rejected", msg)]
    h = len(funcs) // 2
    return compile_run(funcs[:h], tag, stats) + compile_run(funcs[h:], tag, stats)


# ---------------------------------------------------------------------------------------------
# precision-dependent exactness of leaves

def _f32(v):
    try:
        return struct.unpack("f", struct.pack("f", v))[0]
    except OverflowError:
        return None


def _prints_exactly(v):
    """print_double() writes 15 significant digits: does the decimal parse back to v"""
    return float("%.15g" % v) == v


def leaf_exact(d, flt, env=None):
    """does the emitted literal / parameter, converted to the evaluation type of its consumer, carry exactly the
    leaf's value?  flt: CodePrinterPrecision::Float (literals are <15 digits>f; double parameters are converted to
    float by the f-suffixed functions)"""
    t = d[0]
    try:
        if t == "Integer":
            n = int(d[1])
            if abs(n) >= 2 ** 1000:
                return False
            v = float(n)
            if int(v) != n:
                return False
            if flt:
                return _f32(v) == v and _prints_exactly(v)
            return True                     # printed digit by digit
        if t == "Rational":
            p, q = int(d[1]), int(d[2])
            fp, fq = float(p), float(q)
            if int(fp) != p or int(fq) != q or not _prints_exactly(fp) or not _prints_exactly(fq):
                return False
            if flt:
                if _f32(fp) != fp or _f32(fq) != fq:
                    return False
                r = _f32(fp / fq)
                return r is not None and Fraction(r) == Fraction(p, q)
            return Fraction(fp / fq) == Fraction(p, q)
        if t == "RealDouble":
            v = engine.hexf(d[1])
            if not _prints_exactly(v):
                return False
            return _f32(v) == v if flt else True
        if t == "Symbol":
            if not flt:
                return True
            v = float(env[d[1]])
            return _f32(v) == v
        if t in ("Infty", "BooleanAtom"):
            return True
    except (OverflowError, ValueError, ZeroDivisionError, KeyError):
        return False
    return False


# ---------------------------------------------------------------------------------------------
# evaluator

INT_VALUED = ("Floor", "Ceiling", "Truncate", "Sign")
BOOLS = ("Equality", "Unequality", "LessThan", "StrictLessThan", "BooleanAtom", "And", "Or", "Not", "Xor", "Contains")
UNITS = 64           # the input values are odd multiples of 1/64
EXACT_LIMIT = 2 ** 22


class CEval(en.NodeEval):
    """NodeEval + infinities as values + exact (in)equality of exactly computed operands + record of the
    smallest distance from a discontinuity"""

    def __init__(self, env, margin):
        en.NodeEval.__init__(self, env, margin, False)
        self.min_kink = None

    def _kink(self, x, what):
        a = abs(x)
        if a == a and (self.min_kink is None or a < self.min_kink):
            self.min_kink = a
        on.Evaluator._kink(self, x, what)

    def _node(self, d):
        if d[0] == "Infty":
            s = int(d[1][1])
            if s == 0:
                raise Unjudgeable("zoo")
            return mpf("inf") if s > 0 else mpf("-inf")
        return en.NodeEval._node(self, d)

    # ---- exactly computed sub-expressions: every operation on them is exact in float and in double arithmetic
    # (values are integer multiples of 1/64 below 2^22/64), so comparing them with == is meaningful
    def exact_bound(self, d):
        """bound (in units of 1/64) on every value occurring in the computation of d, or None"""
        t = d[0]
        if t == "Integer":
            n = abs(int(d[1]))
            return n * UNITS if n <= 4096 else None
        if t == "Symbol":
            v = self.env.get(d[1])
            if v is None:
                return None
            u = abs(v) * UNITS
            return int(u) if u == int(u) and u <= 4096 * UNITS else None
        if t in INT_VALUED:
            v = self.cache.get(id(d))
            if v is None or isinstance(v, bool) or not mpmath.isfinite(v) or abs(v) > 4096:
                return None
            return int(abs(v)) * UNITS
        if t in BOOLS:
            return UNITS
        if t in ("Abs", "UnevaluatedExpr"):
            return self.exact_bound(d[1])
        if t in ("Max", "Min"):
            bs = [self.exact_bound(x) for x in d[1:]]
            return None if any(b is None for b in bs) else max(bs)
        if t == "Piecewise":
            bs = [self.exact_bound(p[0]) for p in d[1]]
            return None if any(b is None for b in bs) else max(bs)
        if t == "Add":
            if d[1][0] != "Integer":
                return None
            tot = abs(int(d[1][1])) * UNITS
            for term, coef in d[2]:
                if coef[0] != "Integer":
                    return None
                b = self.exact_bound(term)
                if b is None:
                    return None
                tot += abs(int(coef[1])) * b
            return tot if tot < EXACT_LIMIT else None
        if t == "Mul":
            if d[1][0] != "Integer" or len(d[2]) != 1 or d[2][0][1] != ["Integer", "1"]:
                return None
            b = self.exact_bound(d[2][0][0])
            if b is None:
                return None
            tot = abs(int(d[1][1])) * b
            return tot if tot < EXACT_LIMIT else None
        return None

    def is_exact(self, d):
        b = self.exact_bound(d)
        return b is not None and b < EXACT_LIMIT

    def truth(self, d):
        t = d[0]
        if t in ("Equality", "Unequality", "LessThan", "StrictLessThan"):
            l, r = self.value(d[1]), self.value(d[2])
            if not isinstance(l, (bool, mpc)) and not isinstance(r, (bool, mpc)) and l == r \
                    and self.is_exact(d[1]) and self.is_exact(d[2]):
                return t in ("Equality", "LessThan")
            return self.rel(on.REL[t], l, r)
        return en.NodeEval.truth(self, d)


class Ref:
    __slots__ = ("value", "E", "kappa", "min_kink", "u")

    def tol_abs(self, ulps=64):
        return ulps * self.u * self.E


U_DOUBLE = mpf(2) ** -53
U_FLOAT = mpf(2) ** -24
MARGIN = {False: mpf(10) ** -9, True: mpf(10) ** -3}     # minimal distance from a discontinuity, per precision
MAG = {False: 280, True: 30}                              # decimal exponent bound on every intermediate value


def _finite(v):
    return not isinstance(v, bool) and mpmath.isfinite(v)


def reference(node, env, modes=(False, True), dps=50, kappa_max=1e4):
    """-> {flt: Ref or Unjudgeable} for the requested precisions (False: double, True: float).
    Same model as evalnum.reference (every interior node, every inexact leaf, every summand of an Add, the argument of
    the reciprocal inverse functions are rounding points; single-point two-sided perturbation by 2^-30), with the
    perturbation pass shared between the precisions."""
    out = {}
    old = on._MAG[0]
    on._MAG[0] = MAG[False]
    try:
        with mp.workdps(dps):
            envm = on.env_mp(env)
            ev = CEval(envm, MARGIN[False])
            try:
                base = ev.value(node)
            except Unjudgeable as u:
                return {m: u for m in modes}
            if isinstance(base, bool):
                base = mpf(1) if base else mpf(0)
            if not mpmath.isfinite(base):
                if base != base:
                    return {m: Unjudgeable("nan_value") for m in modes}
                for m in modes:
                    if ev.min_kink is not None and ev.min_kink < MARGIN[m]:
                        out[m] = Unjudgeable("near_kink:float_margin")
                        continue
                    r = Ref()
                    r.value, r.E, r.kappa, r.min_kink, r.u = base, mpf(0), mpf(0), ev.min_kink, (U_FLOAT if m else U_DOUBLE)
                    out[m] = r
                return out
            par, nodes = en._parents(node)
            has_atan2 = any(isinstance(nd[0], str) and nd[0] == "ATan2" for nd in nodes.values() if nd)
            delta = mpf(2) ** -en.DELTA_BITS
            root = id(node)
            ev.dirty = set()
            points = []          # (key, exact_in_double, exact_in_float, worst, local{q: dq}, |b0| or None)
            for k in ev.order:
                if isinstance(k, tuple):
                    dirty = en._ancestors(par, k[1])
                    b0 = ev.extra[k]
                    ex = (False, False)
                else:
                    b0 = ev.cache[k]
                    if isinstance(b0, bool):
                        continue
                    nd = nodes.get(k)
                    ex = (False, False)
                    if k != root and nd is not None:
                        recip_parent = any(isinstance(nodes[q][0], str) and nodes[q][0] in en.RECIP_INV_HEADS
                                           for q in par.get(k, ()))
                        if not recip_parent:
                            if nd[0] in ("Integer", "Rational", "RealDouble", "Symbol", "Infty", "BooleanAtom"):
                                ex = (leaf_exact(nd, False, env), leaf_exact(nd, True, env))
                            elif ev.is_exact(nd):
                                ex = (True, True)
                    dirty = en._ancestors(par, k)
                if not _finite(b0) or b0 == 0 or (ex[0] and ex[1]):
                    continue
                worst = mpf(0)
                local = {}
                for sgn in (1, -1):
                    ev.dirty = dirty
                    ev.target = k
                    ev.factor = 1 + sgn * delta
                    ev.touched = {}
                    try:
                        v = ev.value(node) if k != root else b0 * ev.factor
                    except Unjudgeable as u:
                        e = Unjudgeable("ill_conditioned:perturbation_hits_" + u.reason.split(":")[0])
                        return {m: e for m in modes}
                    if isinstance(v, bool):
                        v = mpf(1) if v else mpf(0)
                    if not mpmath.isfinite(v):
                        e = Unjudgeable("ill_conditioned:perturbation_non_finite")
                        return {m: e for m in modes}
                    worst = max(worst, abs(v - base))
                    for q, vq in ev.touched.items():
                        c0 = ev.cache.get(q)
                        if c0 is None or not _finite(vq) or not _finite(c0):
                            continue
                        local[q] = max(local.get(q, mpf(0)), abs(vq - c0))
                ev.touched = None
                points.append((k, ex, worst, local, abs(b0) if not isinstance(k, tuple) else None))
            ev.dirty = None
            for m in modes:
                u = U_FLOAT if m else U_DOUBLE
                if ev.min_kink is not None and ev.min_kink < MARGIN[m]:
                    out[m] = Unjudgeable("near_kink:float_margin")
                    continue
                # magnitudes: float arithmetic overflows / loses precision far earlier
                if m:
                    bad = False
                    lim_hi, lim_lo = mpf(10) ** MAG[True], mpf(10) ** -MAG[True]
                    for q, vq in list(ev.cache.items()) + list(ev.extra.items()):
                        if _finite(vq) and vq != 0 and not (lim_lo <= abs(vq) <= lim_hi):
                            bad = True
                            break
                    # a Rational is emitted as <numerator>f/<denominator>f: both are intermediate float values
                    for nd in nodes.values():
                        if nd and nd[0] == "Rational" and (abs(int(nd[1])) > lim_hi or abs(int(nd[2])) > lim_hi):
                            bad = True
                            break
                    if bad:
                        out[m] = Unjudgeable("overflow:float_range")
                        continue
                E = mpf(0)
                Enode = {}
                for k, ex, worst, local, ab0 in points:
                    if ex[1 if m else 0]:
                        continue
                    E += worst / delta
                    for q, dq in local.items():
                        Enode[q] = Enode.get(q, mpf(0)) + dq / delta
                    if ab0 is not None:
                        Enode[k] = Enode.get(k, mpf(0)) + ab0
                try:
                    # every recorded discontinuity is at least min_kink away (atan2's cut is not recorded)
                    kd = ev.min_kink if (ev.min_kink is not None and not has_atan2) else MARGIN[m]
                    lim = kd / (1024 * u)
                    for q, eq_ in Enode.items():
                        if eq_ > lim and any(isinstance(nodes[w][0], str) and nodes[w][0] in en.DISCONT_HEADS
                                             for w in par.get(q, ()) if w in nodes):
                            raise Unjudgeable("ill_conditioned:uncertain_input_of_discontinuous_node")
                    for q, eq_ in Enode.items():
                        vq = ev.cache.get(q)
                        if vq is None or not _finite(vq):
                            continue
                        if eq_ > kappa_max * max(abs(vq), mpf(10) ** -3):
                            raise Unjudgeable("ill_conditioned:intermediate_node")
                    r = Ref()
                    r.value, r.E, r.min_kink, r.u = +base, +E, ev.min_kink, u
                    if base != 0:
                        r.kappa = E / abs(base)
                        if r.kappa > kappa_max:
                            raise Unjudgeable("ill_conditioned")
                    else:
                        r.kappa = mpf(0)
                        if E != 0:
                            raise Unjudgeable("zero_result_nonzero_sensitivity")
                    out[m] = r
                except Unjudgeable as e:
                    out[m] = e
            return out
    finally:
        on._MAG[0] = old


def stable_reference(node, env, modes=(False, True)):
    """reference() at 50 digits cross-checked against a 70-digit value (DESIGN 3.3)"""
    refs = reference(node, env, modes)
    if all(isinstance(r, Unjudgeable) for r in refs.values()):
        return refs
    old = on._MAG[0]
    on._MAG[0] = MAG[False]
    try:
        with mp.workdps(70):
            try:
                hi = CEval(on.env_mp(env), MARGIN[False]).value(node)
            except Unjudgeable as u:
                return {m: u for m in modes}
            if isinstance(hi, bool):
                hi = mpf(1) if hi else mpf(0)
            for m, r in list(refs.items()):
                if isinstance(r, Unjudgeable):
                    continue
                if not mpmath.isfinite(r.value):
                    if hi != r.value:
                        refs[m] = Unjudgeable("ill_conditioned:precisions_disagree")
                    continue
                if not mpmath.isfinite(hi) or abs(r.value - hi) > mpf(10) ** -30 * max(1, abs(hi)):
                    refs[m] = Unjudgeable("ill_conditioned:precisions_disagree")
                else:
                    r.value = +hi
    finally:
        on._MAG[0] = old
    return refs


# ---------------------------------------------------------------------------------------------
# recipes

I = lambda n: ["integer", n]
Q = lambda a, b: gen._rat(a, b)
L = lambda *a: ["list"] + list(a)
S = lambda n: ["symbol", n]

UNARY_C99 = ["neg", "sqrt", "cbrt", "exp", "sin", "cos", "tan", "cot", "csc", "sec", "asin", "acos", "asec", "acsc",
             "atan", "acot", "sinh", "csch", "cosh", "sech", "tanh", "coth", "asinh", "acsch", "acosh", "atanh",
             "acoth", "asech", "log", "abs", "unevaluated_expr", "gamma", "loggamma", "erf", "erfc", "sign", "floor",
             "ceiling", "truncate"]
BINARY = ["add", "sub", "mul", "div", "pow"]
RELS = ["Eq", "Ne", "Lt", "Le", "Gt", "Ge"]
BIG_INTS = [2 ** 31 - 1, 2 ** 31, 2 ** 31 + 1, -2 ** 31, -2 ** 31 - 1, 2 ** 32, 2 ** 32 + 1, 2 ** 53, 2 ** 53 + 1,
            2 ** 62 + 12345, 2 ** 63 - 1, 2 ** 63, 2 ** 63 + 1, -2 ** 63, -2 ** 63 - 1, 2 ** 64 - 1, 2 ** 64, 2 ** 64 + 5,
            -2 ** 64 - 5, 3 ** 50, -7 ** 30, 10 ** 15, 10 ** 15 + 1, 10 ** 22, 123456789012345678, 16777217, 16777216]
DOUBLES = [0.5, 1.5, -2.5, 0.1, 0.2, 0.3, 1e-3, 123.456, -7.25, 3.0, 2.0 ** 0.5, -0.75, 1.0, 2.0, 10.0, 1e10, 1e-5,
           1e22, 1.0 / 3.0, 0.1 + 2 ** -55, 123456789.0, 1234567890123456.0, 1.2345678901234567, 6.02214076e23]
RAT_EXPS = [Q(1, 2), Q(-1, 2), Q(1, 3), Q(-1, 3), Q(2, 3), Q(3, 2), Q(-3, 2), Q(5, 2), Q(1, 4), Q(-2, 3), Q(7, 3)]


def leaves():
    from hypothesis import strategies as st
    sym = st.sampled_from(SYMS).map(S)
    small = st.integers(-12, 12).map(I)
    mid = st.integers(-100000, 100000).map(I)
    big = st.one_of(st.sampled_from(BIG_INTS), st.integers(-2 ** 70, 2 ** 70)).map(I)
    rat = st.builds(Q, st.integers(-30, 30), st.integers(1, 12))
    brat = st.builds(Q, st.one_of(st.sampled_from(BIG_INTS), st.integers(-2 ** 40, 2 ** 40)),
                     st.one_of(st.integers(1, 2 ** 34), st.sampled_from([2 ** 31, 2 ** 63 + 1, 3 ** 41, 10 ** 16 + 1])))
    dbl = st.one_of(st.sampled_from(DOUBLES),
                    st.floats(-100, 100, allow_nan=False, allow_infinity=False).map(gen._moderate)).map(
        lambda f: ["real_double", f])
    con = st.sampled_from(["pi", "E", "pi", "E", "pi", "E", "EulerGamma", "Catalan", "GoldenRatio"]).map(
        lambda n: ["constant", n])
    inf = st.sampled_from([["oo"], ["noo"]])
    return en.weighted([(20, sym), (5, small), (1, mid), (2, big), (4, rat), (1, brat), (3, dbl), (3, con), (1, inf)])


def tree(max_leaves):
    from hypothesis import strategies as st

    def ext(ch):
        rel = st.builds(lambda o, a, b: [o, a, b], st.sampled_from(RELS), ch, ch)
        intval = st.builds(lambda f, a: [f, a], st.sampled_from(["floor", "ceiling", "truncate", "sign"]), ch)
        # ties: (in)equalities between exactly computed integer-valued operands
        tie = st.builds(lambda o, a, b: [o, a, b], st.sampled_from(RELS), intval,
                        st.one_of(st.integers(-3, 3).map(I), intval))
        lo = st.one_of(st.just(["noo"]), st.integers(-8, 0).map(lambda n: Q(n, 2)))
        hi = st.one_of(st.just(["oo"]), st.integers(1, 8).map(lambda n: Q(n, 2)))
        cont = st.builds(lambda e, a, b, lo_, ro_: ["contains", e, ["interval", a, b, lo_, ro_]], ch, lo, hi,
                         st.booleans(), st.booleans())
        atom = en.weighted([(5, rel), (2, tie), (2, cont), (1, st.sampled_from([["true"], ["false"]]))])
        logic = en.weighted([
            (3, atom),
            (3, st.builds(lambda o, xs: [o, L(*xs)], st.sampled_from(["and", "or", "xor"]),
                          st.lists(atom, min_size=2, max_size=3))),
            (1, st.builds(lambda a: ["not", a], atom))])
        pw = st.builds(lambda ps, last: ["piecewise", L(*([L(e, c) for e, c in ps] + [L(last, ["true"])]))],
                       st.lists(st.tuples(ch, logic), min_size=1, max_size=3), ch)
        return en.weighted([
            (8, st.builds(lambda o, a: [o, a], st.sampled_from(UNARY_C99), ch)),
            (6, st.builds(lambda o, a, b: [o, a, b], st.sampled_from(BINARY), ch, ch)),
            (2, st.builds(lambda a, n: ["pow", a, I(n)], ch, st.integers(-4, 5))),
            (3, st.builds(lambda a, q: ["pow", a, q], ch, st.sampled_from(RAT_EXPS))),
            (2, st.builds(lambda a, n: ["div", a, I(n)], ch, st.sampled_from([2, 3, 7, -3, 10, 2 ** 31, 2 ** 63 + 1]))),
            (1, st.builds(lambda n, a: ["div", I(n), a], st.sampled_from([1, 2, 3, -1, 7]), ch)),
            (1, st.builds(lambda a, b: ["atan2", a, b], ch, ch)),
            (3, st.builds(lambda o, xs: [o, L(*xs)], st.sampled_from(["max", "min"]),
                          st.lists(ch, min_size=2, max_size=5))),
            (1, st.builds(lambda o, xs: [o, L(*xs)], st.sampled_from(["add_vec", "mul_vec"]),
                          st.lists(ch, min_size=2, max_size=4))),
            (4, pw), (2, logic)])
    return st.recursive(leaves(), ext, max_leaves=max_leaves)


def input_vectors():
    """NVEC input vectors for (x, y, z, t): odd multiples of 1/64 (exact in float), |v| <= 4.02; a symbol keeps its sign
    over the vectors most of the time (so that a domain repair made at vector 0 tends to hold at the others), and
    values are drawn from a small pool with some probability so that different symbols tie"""
    from hypothesis import strategies as st
    mag = st.one_of(st.integers(0, 128).map(lambda k: (2 * k + 1) / 64.0),
                    st.sampled_from([0.5 + 1 / 64.0, 1.5 + 1 / 64.0, 2.5 - 1 / 64.0, 1 + 1 / 64.0, 3 - 1 / 64.0, 63 / 64.0]))
    one = st.tuples(st.sampled_from([1, 1, -1]), st.lists(mag, min_size=NVEC, max_size=NVEC),
                    st.lists(st.sampled_from([1, 1, 1, 1, 1, -1]), min_size=NVEC, max_size=NVEC))
    return st.lists(one, min_size=len(SYMS), max_size=len(SYMS)).map(
        lambda cols: [[cols[i][0] * cols[i][2][j] * cols[i][1][j] for i in range(len(SYMS))] for j in range(NVEC)])


def install_extra_findings():
    """development aid (same convention as checks/c27.py, pbt/fuzz.py): VERIF_EXTRA_FINDINGS=<json files, ':'-separated>
    lets engine.load_known also read finding entries that are not yet merged into known_findings.json"""
    extra = os.environ.get("VERIF_EXTRA_FINDINGS")
    if not extra:
        return
    orig = engine.load_known

    def patched():
        out = list(orig())
        have = {k["id"] for k in out}
        for p in extra.split(":"):
            with open(p) as f:
                data = json.load(f)
            for k in (data["findings"] if isinstance(data, dict) else data):
                if k["id"] not in have:
                    out.append(k)
        return out
    engine.load_known = patched
