"""Shared judge for "same value" properties (C07, C08, C09, C11, C35, C36 ...):
value(result dump) must equal value(recipe) at generated points (DESIGN.md 3.3, 3.5, 5.2)."""
from . import oracle_num as on
from .oracle_num import Unjudgeable
from .engine import Check, Violation, B, is_exc, sx


def mpmath_str(x):
    try:
        if hasattr(x, "imag") and x.imag != 0:
            return "(%.12g%+.12gj)" % (float(x.real), float(x.imag))
        return "%.12g" % float(x.real if hasattr(x, "real") else x)
    except Exception:
        return str(x)


class ValueCheck(Check):
    exact_tol = 1e-25
    float_rel_floor = 0.0   # checks about value preservation (not evaluator accuracy) may set e.g. 1e-9

    def references(self, rec, envs, margin=None, funcs=None, cut_guard=True, mag=None):
        """reference values of the recipe at every env (Unjudgeable objects where not judgeable);
        returns (refs, blocked) -- blocked = the recipe must not even be sent to the library"""
        hasf = on.has_float(rec)
        mag = mag or (100 if hasf else 300)
        refs = []
        for env in envs:
            try:
                refs.append(on.stable_value(rec, env, funcs=funcs, margin=margin, cut_guard=cut_guard, mag=mag))
            except Unjudgeable as u:
                refs.append(u)
        blocked = any(isinstance(r, Unjudgeable) and r.reason.startswith("overflow") for r in refs) \
            or on.resource_blocked(rec, envs[0] if envs else None, mag, funcs)
        return refs, blocked

    def compare(self, rec, got, envs, refs, margin=None, funcs=None, cut_guard=True, what="result", pole_ok=True,
                kappa_rec=None, kappa_envs=None):
        """judge one returned dump against precomputed references; returns number of judged points.
        pole_ok: a zoo/nan/oo result is accepted where the reference itself is a pole/undefined."""
        hasf = on.has_float(rec) or on.has_float(got)
        mag = 100 if hasf else 300
        judged = 0
        for k, (env, ref) in enumerate(zip(envs, refs)):
            kenv = kappa_envs[k] if kappa_envs is not None else env
            self.count()
            if isinstance(ref, Unjudgeable):
                self.skip("ref:" + ref.reason.split(":")[0])
                continue
            if got[0] in ("Infty", "NaN"):
                raise Violation("%s: %s is %s but the recipe has the finite value %s at %s" % (sx(rec)[:300], what, got, ref, env),
                                {"recipe": rec, "result": got, "env": env})
            try:
                val = on.stable_value(got, env, funcs=funcs, margin=margin, cut_guard=cut_guard, mag=mag + 50)
            except Unjudgeable as u:
                if u.reason.startswith(("pole", "non_finite")):
                    raise Violation("%s: %s %s is singular (%s) where the recipe has the finite value %s at %s"
                                    % (sx(rec)[:300], what, got, u.reason, ref, env), {"recipe": rec, "result": got, "env": env})
                self.skip("res:" + u.reason.split(":")[0])
                continue
            try:
                if hasf:
                    tol = on.float_abs_tol(kappa_rec if kappa_rec is not None else rec, kenv, funcs=funcs, margin=margin,
                                           cut_guard=cut_guard, mag=mag)
                    ok = on.close(ref, val, self.float_rel_floor, tol)
                else:
                    tol = self.exact_tol
                    ok = on.close(ref, val, tol, 1e-30)
            except Unjudgeable as u:
                self.skip("kappa:" + u.reason.split(":")[0])
                continue
            if not ok:
                raise Violation("%s: value mismatch: recipe=%s %s=%s (tol %s) at %s; dump %s"
                                % (sx(rec)[:300], mpmath_str(ref), what, mpmath_str(val), mpmath_str(tol), env, got), {"recipe": rec, "result": got, "env": env})
            judged += 1
        return judged
