"""Generator side of C31: raw trees -> recipes that are analytic at 0 *by construction*.

A raw tree (what Hypothesis draws and shrinks) is normalised bottom-up by build(): every node carries
the first terms of its own power series (computed with pbt.seriesref in mpmath arithmetic), so the
constant term c of every argument is known, and an argument whose constant term lies outside the
region where the enclosing function is analytic (log: c > 0, asin/acos/atanh: |c| < 1, rational powers:
c > 0, tan/sec/cot/csc/coth/csch: away from the poles, denominators: c != 0, gamma: c > 0, lambertw: c = 0)
is *shifted* by adding a rational constant (or multiplied by x for lambertw) -- nothing is filtered.
Removable singularities are built explicitly from pieces whose valuation is known (["RQ", ...])."""
from fractions import Fraction
from mpmath import mp, mpf, pi as mp_pi
from hypothesis import strategies as st

from . import seriesref as sr

L = 10          # terms carried during normalisation
MAXDEPTH = 3

X = ["symbol", "x"]


def rat(q):
    q = Fraction(q)
    return ["integer", q.numerator] if q.denominator == 1 else ["rational", q.numerator, q.denominator]


def mpq(q):
    q = Fraction(q)
    return mpf(q.numerator) / mpf(q.denominator)


def xpow(i):
    return X if i == 1 else ["pow", X, ["integer", i]]


def poly_recipe(coeffs, extra=None):
    """coeffs: list of Fractions (index = degree); extra: list of (recipe_factor, degree)"""
    terms = []
    for i, c in enumerate(coeffs):
        c = Fraction(c)
        if c == 0:
            continue
        if i == 0:
            terms.append(rat(c))
        elif c == 1:
            terms.append(xpow(i))
        else:
            terms.append(["mul", rat(c), xpow(i)])
    for fac, i in (extra or []):
        terms.append(fac if i == 0 else ["mul", fac, xpow(i)])
    if not terms:
        return ["integer", 0]
    if len(terms) == 1:
        return terms[0]
    if len(terms) == 2:
        return ["add", terms[0], terms[1]]
    return ["add_vec", ["list"] + terms]


def poly_series(coeffs):
    out = [mpq(c) for c in coeffs][:L]
    return out + [mpf(0)] * (L - len(out))


def _fr(p):
    return Fraction(p[0], p[1])


def _shift(rec, ser, t):
    """add a rational so that the constant term lands within 1/32 of t"""
    c = ser[0]
    q = Fraction(t) - Fraction(int(mp.nint(c * 16)), 16)
    if q == 0:
        return rec, ser
    return ["add", rec, rat(q)], [ser[0] + mpq(q)] + list(ser[1:])


def _pick(targets, k):
    return targets[k % len(targets)]


def _dist_to_lattice(c, offset):
    """distance of c to offset + k*pi"""
    u = (c - offset) / mp_pi
    return abs(u - mp.nint(u)) * mp_pi


QUARTER = mpf(1) / 4

# name -> function(c) -> True when the constant term c is acceptable as is
OKAY = {
    "log": lambda c: QUARTER <= c <= 8,
    "asin": lambda c: abs(c) <= 0.75, "acos": lambda c: abs(c) <= 0.75, "atanh": lambda c: abs(c) <= 0.75,
    "tan": lambda c: abs(c) <= 6 and _dist_to_lattice(c, mp_pi / 2) >= QUARTER,
    "sec": lambda c: abs(c) <= 6 and _dist_to_lattice(c, mp_pi / 2) >= QUARTER,
    "cot": lambda c: abs(c) <= 6 and _dist_to_lattice(c, 0) >= QUARTER,
    "csc": lambda c: abs(c) <= 6 and _dist_to_lattice(c, 0) >= QUARTER,
    "coth": lambda c: QUARTER <= abs(c) <= 6, "csch": lambda c: QUARTER <= abs(c) <= 6,
    "sinh": lambda c: abs(c) <= 6, "cosh": lambda c: abs(c) <= 6, "exp": lambda c: abs(c) <= 6,
    "tanh": lambda c: abs(c) <= 6, "sech": lambda c: abs(c) <= 6,
    "sin": lambda c: abs(c) <= 8, "cos": lambda c: abs(c) <= 8, "atan": lambda c: abs(c) <= 8,
    "asinh": lambda c: abs(c) <= 8,
    "gamma": lambda c: QUARTER <= c <= 5, "erf": lambda c: abs(c) <= 4,
}
TARGETS = {
    "log": [1, 2, Fraction(1, 2), 1, 3],
    "asin": [0, Fraction(1, 2), Fraction(-1, 3)], "acos": [0, Fraction(1, 2), Fraction(-1, 3)],
    "atanh": [0, Fraction(1, 2), Fraction(-1, 3)],
    "tan": [0, 1, Fraction(-1, 2)], "sec": [0, 1, Fraction(-1, 2)],
    "cot": [1, Fraction(-1, 2), 2], "csc": [1, Fraction(-1, 2), 2],
    "coth": [1, Fraction(-1, 2)], "csch": [1, Fraction(-1, 2)],
    "gamma": [1, 2, Fraction(3, 2), Fraction(5, 2), 3],
}
DEFAULT_TARGETS = [0, 1]
FUNCS = ["sin", "cos", "tan", "exp", "log", "atan", "asin", "sinh", "cosh", "tanh", "asinh", "atanh",
         "lambertw", "sec", "csc", "cot", "acos", "sech", "csch", "coth", "gamma", "erf"]
# numerators / denominators of removable quotients; valuation multiplier of the polynomial argument
RQ_NUM = {"id": 1, "sin": 1, "tan": 1, "atan": 1, "asin": 1, "sinh": 1, "tanh": 1, "asinh": 1, "atanh": 1,
          "lambertw": 1, "expm1": 1, "log1p": 1, "cosm1": 2, "coshm1": 2}
RQ_DEN = {"xk": 1, "id": 1, "sin": 1, "tan": 1, "sinh": 1, "atan": 1, "expm1": 1, "log1p": 1, "tanh": 1}


def _rq_piece(kind, m, coeffs):
    """kind applied to x**m * (coeffs), coeffs[0] != 0.  returns (recipe, series)"""
    cs = [Fraction(0)] * m + list(coeffs)
    z, zs = poly_recipe(cs), poly_series(cs)
    if kind in ("id", "xk"):
        return z, zs
    if kind == "expm1":
        return ["sub", ["exp", z], ["integer", 1]], sr.s_sub(sr.s_exp(zs), sr.s_const(mpf(1), L))
    if kind == "log1p":
        return ["log", ["add", ["integer", 1], z]], sr.s_log(sr.s_add(sr.s_const(mpf(1), L), zs))
    if kind == "cosm1":
        return ["sub", ["cos", z], ["integer", 1]], sr.s_sub(sr.s_cos(zs), sr.s_const(mpf(1), L))
    if kind == "coshm1":
        return ["sub", ["cosh", z], ["integer", 1]], sr.s_sub(sr.s_cosh(zs), sr.s_const(mpf(1), L))
    return [kind, z], sr.UNARY[kind](zs)


def build(raw, depth=0):
    """raw tree -> (recipe, series[L]) ; mp.dps must be set by the caller"""
    h = raw[0]
    if h == "P":
        cs = [_fr(p) for p in raw[1]]
        return poly_recipe(cs), poly_series(cs)
    if h == "PA":      # polynomial + a * x**k with the symbolic parameter a (numeric value: _CTX["a"])
        cs = [_fr(p) for p in raw[1]]
        k = raw[2]
        ser = poly_series(cs)
        ser[k] = ser[k] + mpq(_CTX["a"])
        _CTX["w"] += 2
        return poly_recipe(cs, [(["symbol", "a"], k)]), ser
    if h == "PC":      # polynomial + q * constant * x**k
        cs = [_fr(p) for p in raw[1]]
        k, name, q = raw[2], raw[3], _fr(raw[4])
        ser = poly_series(cs)
        ser[k] = ser[k] + mpq(q) * sr.CONST[name]()
        _CTX["w"] += 1
        fac = ["constant", name] if q == 1 else ["mul", rat(q), ["constant", name]]
        return poly_recipe(cs, [(fac, k)]), ser
    if h == "RQ":
        _, nk, m, ncs, dk, k, dcs = raw
        ncs = [_fr(p) for p in ncs]
        dcs = [_fr(p) for p in dcs]
        if ncs[0] == 0:
            ncs[0] = Fraction(1)
        if dcs[0] == 0:
            dcs[0] = Fraction(1)
        k = max(1, min(k, m * RQ_NUM[nk], 3))
        if dk == "xk":
            dcs = [Fraction(1)]
        nr, ns = _rq_piece(nk, m, ncs)
        dr, ds = _rq_piece(dk, k, dcs)
        q = sr.s_div(ns, ds)
        return ["div", nr, dr], q + [mpf(0)] * (L - len(q))
    if h == "F":
        _, name, k, child = raw
        rc, sc = build(child, depth + 1)
        if depth >= MAXDEPTH:
            return rc, sc
        c = sc[0]
        if name == "lambertw":
            if c != 0:
                rc, sc = ["mul", X, rc], [mpf(0)] + list(sc[:-1])
        elif not OKAY[name](c):
            rc, sc = _shift(rc, sc, _pick(TARGETS.get(name, DEFAULT_TARGETS), k))
        if sc[0] != 0 and not (name == "log" and sc[0] == 1):
            _CTX["w"] += 4 if name == "gamma" else 2 if name in HEAVY else 1
        return [name, rc], sr.UNARY[name](sc)
    if h == "B":
        _, op, k, l, r = raw
        rl, sl = build(l, depth)
        rr, srr = build(r, depth)
        if op == "div":
            if abs(srr[0]) < QUARTER or abs(srr[0]) > 64:
                rr, srr = _shift(rr, srr, _pick([1, -2, Fraction(1, 2), 3], k))
            return ["div", rl, rr], sr.s_div(sl, srr)
        fn = {"add": sr.s_add, "sub": sr.s_sub, "mul": sr.s_mul}[op]
        return [op, rl, rr], fn(sl, srr)
    if h == "PW":
        _, k, n, d, child = raw
        q = Fraction(n, d)
        rc, sc = build(child, depth + 1)
        if depth >= MAXDEPTH:
            return rc, sc
        c = sc[0]
        if q.denominator == 1:
            e = q.numerator
            if e < 0 and (abs(c) < QUARTER or abs(c) > 16):
                rc, sc = _shift(rc, sc, _pick([1, -2, Fraction(1, 2)], k))
            if e >= 0 and abs(c) > 16:
                rc, sc = _shift(rc, sc, 1)
            return ["pow", rc, ["integer", e]], sr.s_pow_int(sc, e)
        if not (QUARTER <= c <= 8):
            rc, sc = _shift(rc, sc, _pick([1, 4, Fraction(9, 4), 2, Fraction(1, 4), 1], k))
        if sc[0] != 1:
            _CTX["w"] += 1
        if q == Fraction(1, 2) and k % 2:
            return ["sqrt", rc], sr.s_pow_frac(sc, q)
        return ["pow", rc, rat(q)], sr.s_pow_frac(sc, q)
    if h == "PG":
        _, k, b, e = raw
        rb, sb = build(b, depth + 1)
        re_, se = build(e, depth + 1)
        if depth >= MAXDEPTH:
            return rb, sb
        if not (QUARTER <= sb[0] <= 6):
            rb, sb = _shift(rb, sb, _pick([1, 2, Fraction(1, 2), 3], k))
        if abs(se[0]) > 4:
            re_, se = _shift(re_, se, 1)
        _CTX["w"] += 2
        return ["pow", rb, re_], sr.s_exp(sr.s_mul(se, sr.s_log(sb)))
    raise ValueError(h)


_CTX = {"a": Fraction(3, 2), "w": 0}
HEAVY = {"tan", "tanh", "sec", "csc", "cot", "coth", "sech", "csch", "asin", "acos", "asinh", "gamma", "erf"}
# The generic series implementation keeps transcendental constants (sin(1), log(2), ...) symbolic and never
# simplifies the coefficient expressions, whose size grows exponentially with the order: the order is capped
# according to the number of such constants a recipe introduces (slowness is not a property violation, but a
# time-out judges nothing).
NCAP = {0: 10, 1: 8, 2: 5, 3: 4, 4: 4}


def normalise(raw, aval=Fraction(3, 2)):
    """-> (recipe, maximal order worth asking for)"""
    _CTX["a"] = Fraction(aval)
    _CTX["w"] = 0
    try:
        with mp.workdps(25):
            rec = build(raw)[0]
    except (sr.NotAnalytic, sr.Unsupported, ZeroDivisionError, OverflowError, ValueError):
        # cannot happen for the shifts above except through overflow of a tower of exponentials;
        # fall back to a fixed recipe rather than filtering
        return ["exp", ["sin", X]], 10
    return rec, NCAP.get(_CTX["w"], 3)


# ------------------------------------------------------------------ Hypothesis strategies for raw trees
def _q(nmax=6, dmax=4):
    return st.tuples(st.integers(-nmax, nmax), st.integers(1, dmax)).map(list)


def _nzq(nmax=6, dmax=4):
    return st.tuples(st.integers(1, nmax), st.integers(1, dmax), st.sampled_from([1, -1])).map(lambda t: [t[0] * t[2], t[1]])


def raw_poly():
    zero_ct = st.builds(lambda m, lead, rest: [[0, 1]] * m + [lead] + rest, st.integers(1, 2), _nzq(),
                        st.lists(_q(4, 3), max_size=2))
    nz_ct = st.builds(lambda c0, rest: [c0] + rest, _nzq(5, 4), st.lists(_q(4, 3), min_size=1, max_size=3))
    justx = st.just([[0, 1], [1, 1]])
    coeffs = st.one_of(zero_ct, zero_ct, nz_ct, justx)
    plain = coeffs.map(lambda cs: ["P", cs])
    para = st.builds(lambda cs, k: ["PA", cs, min(k, 2)], coeffs, st.integers(0, 2))
    cons = st.builds(lambda cs, k, name, q: ["PC", cs, min(k, 2), name, q], coeffs, st.integers(0, 2),
                     st.sampled_from(["pi", "E", "pi"]), _nzq(3, 3))
    return plain, para, cons


def raw_rq():
    lead_rest = st.builds(lambda lead, rest: [lead] + rest, _nzq(4, 3), st.lists(_q(3, 2), max_size=2))
    return st.builds(lambda nk, m, ncs, dk, k, dcs: ["RQ", nk, m, ncs, dk, k, dcs],
                     st.sampled_from(sorted(RQ_NUM)), st.integers(1, 2), lead_rest,
                     st.sampled_from(sorted(RQ_DEN)), st.integers(1, 3), lead_rest)


def raw_tree(params=True, max_leaves=4):
    plain, para, cons = raw_poly()
    leaves = [plain] * 8 + [raw_rq()] * 2 + ([para, cons] if params else [])
    leaf = st.one_of([s.map(lambda v: v) for s in leaves])
    core = ["sin", "cos", "tan", "exp", "log", "atan", "asin", "sinh", "cosh", "tanh", "asinh", "atanh", "lambertw"]
    fname = st.one_of(st.sampled_from(core), st.sampled_from(core), st.sampled_from(core), st.sampled_from(FUNCS))
    kk = st.integers(0, 5)

    def ext(ch):
        f = st.builds(lambda name, k, c: ["F", name, k, c], fname, kk, ch)
        b = st.builds(lambda op, k, l, r: ["B", op, k, l, r], st.sampled_from(["add", "sub", "mul", "mul", "div", "div"]), kk, ch, ch)
        pw = st.builds(lambda k, n, d, c: ["PW", k, n, d, c], kk, st.sampled_from([-3, -2, -1, 1, 2, 3, 4]), st.integers(1, 4), ch)
        pg = st.builds(lambda k, b_, e: ["PG", k, b_, e], kk, ch, ch)
        return st.one_of(f, f, f, f, b, b, pw, pw, pg)
    return st.recursive(leaf, ext, max_leaves=max_leaves)
