"""Shared Hypothesis strategies producing JSON-like recipes (DESIGN.md 5.1)."""
from fractions import Fraction
from hypothesis import strategies as st

SYMS = ["x", "y", "z"]


def sym(names=SYMS):
    return st.sampled_from(names).map(lambda n: ["symbol", n])


small_int = st.integers(-12, 12)
tiny_pos = st.integers(1, 9)


def interesting_ints():
    out = []
    for k in (31, 32, 63, 64, 65, 127, 128):
        for d in (-1, 0, 1):
            out += [2 ** k + d, -(2 ** k + d)]
    return out


big_int = st.one_of(st.sampled_from(interesting_ints()), st.integers(-2 ** 70, 2 ** 70),
                    st.integers(-2 ** 200, 2 ** 200))
perfect_powers = st.builds(lambda b, e, s: s * b ** e, st.integers(2, 12), st.integers(2, 7), st.sampled_from([1, -1]))
near_perfect = st.builds(lambda b, e, m: m * b ** e, st.integers(2, 7), st.integers(2, 6), st.integers(-6, 6).filter(bool))


def integer(big=True):
    opts = [(6, small_int), (2, perfect_powers), (2, near_perfect), (1, st.integers(-1000, 1000))]
    if big:
        opts.append((1, big_int))
    return weighted(opts).map(lambda n: ["integer", n])


def weighted(pairs):
    """pairs: [(weight, strategy)] -> strategy (weights by repetition inside one_of)"""
    pool = []
    for w, s in pairs:
        # distinct objects: Hypothesis de-duplicates identical strategies inside one_of
        pool += [s.map(lambda v: v) for _ in range(w)]
    return st.one_of(pool)


def _rat(n, d):
    q = Fraction(n, d)
    if q.denominator == 1:
        return ["integer", q.numerator]
    return ["rational", q.numerator, q.denominator]


def rational(big=True):
    num = weighted([(5, small_int), (1, perfect_powers), (1, big_int if big else small_int)])
    den = weighted([(5, st.integers(1, 12)), (1, perfect_powers.map(abs)), (1, (big_int if big else small_int).map(lambda v: abs(v) + 1))])
    return st.builds(_rat, num, den)


def exact_real(big=True):
    return st.one_of(integer(big), rational(big))


def gaussian(big=False):
    def mk(re, im):
        if im == ["integer", 0]:
            return re
        return ["complex", re, im]
    return st.builds(mk, exact_real(big), exact_real(big))


FLOAT_POOL = [0.5, 1.5, -2.5, 0.1, 0.2, 0.3, 1e-3, 123.456, -7.25, 3.0, 1e10, 1e-10, 2.0 ** 0.5, -0.75, 1.0,
              2.0, -1.0, 10.0]


def _moderate(f):
    """keep |f| in {0} u [1e-6, 1e6]: intermediate overflow/underflow of double arithmetic is not judged"""
    if f == 0 or abs(f) >= 1e-6:
        return f
    import math
    return math.copysign(1e-6 + abs(f) * 1e5, f)


def real_double(special=False):
    pool = list(FLOAT_POOL)
    s = st.one_of(st.sampled_from(pool), st.floats(-100, 100, allow_nan=False, allow_infinity=False, width=64).map(_moderate),
                  st.floats(allow_nan=False, allow_infinity=False, min_value=-1e6, max_value=1e6).map(_moderate))
    if special:
        s = st.one_of(s, st.sampled_from([0.0, -0.0, float("inf"), float("-inf"), float("nan"), 5e-324, -5e-324,
                                          1.7976931348623157e308, 2.2250738585072014e-308, 1.0 + 2 ** -52]))
    return s.map(lambda f: ["real_double", f])


def complex_double():
    c = st.sampled_from(FLOAT_POOL)
    return st.builds(lambda a, b: ["complex_double", a, b], c, c)


def constant(names=("pi", "E", "I")):
    return st.sampled_from(list(names)).map(lambda n: ["constant", n])


def env_value():
    """generic complex point, |re|,|im| in [0.2,2], off the axes; as exact rational strings"""
    part = st.builds(lambda k, s: Fraction(s * k, 16), st.integers(4, 32), st.sampled_from([1, -1]))
    return st.builds(lambda a, b: [str(a), str(b)], part, part)


def real_env_value(lo=-4, hi=4, den=16):
    return st.integers(lo * den, hi * den).map(lambda k: [str(Fraction(2 * k + 1, 2 * den)), "0"])


def pos_env_value(den=16):
    return st.integers(1, 4 * den).map(lambda k: [str(Fraction(2 * k + 1, 2 * den)), "0"])


def envs(names=SYMS, n=3, value=None):
    v = value or env_value()
    one = st.fixed_dictionaries({k: v for k in names})
    return st.lists(one, min_size=n, max_size=n)


def tree(leaves, unary=(), binary=(), nary=(), max_leaves=10, special=None):
    """recursive recipe trees.  unary/binary/nary are op-name lists; special is a
    function children_strategy -> strategy for custom interior nodes"""
    def ext(ch):
        opts = []
        if unary:
            opts.append(st.builds(lambda o, a: [o, a], st.sampled_from(list(unary)), ch))
        if binary:
            opts.append(st.builds(lambda o, a, b: [o, a, b], st.sampled_from(list(binary)), ch, ch))
            opts.append(st.builds(lambda o, a, b: [o, a, b], st.sampled_from(list(binary)), ch, ch))
        if nary:
            opts.append(st.builds(lambda o, xs: [o, ["list"] + xs], st.sampled_from(list(nary)),
                                  st.lists(ch, min_size=2, max_size=4)))
        if special is not None:
            opts.append(special(ch))
        return st.one_of(opts)
    return st.recursive(leaves, ext, max_leaves=max_leaves)


def size(r):
    if isinstance(r, (list, tuple)):
        return 1 + sum(size(x) for x in r[1:])
    return 0


def heads(r, acc=None):
    acc = set() if acc is None else acc
    if isinstance(r, (list, tuple)) and r and isinstance(r[0], str):
        acc.add(r[0])
        for x in r[1:]:
            heads(x, acc)
    return acc


def symbols_in(r, acc=None):
    acc = set() if acc is None else acc
    if isinstance(r, (list, tuple)) and r:
        if r[0] in ("symbol", "Symbol") and len(r) == 2 and isinstance(r[1], str):
            acc.add(r[1])
        else:
            for x in r[1:]:
                symbols_in(x, acc)
    return acc
