"""Exact reference linear algebra over Q and Q(i) for C24/C25 (the oracle; independent of the library).

Elements are instances of G (a Gaussian rational with a fast path for real values).  Matrices are
lists of rows.  Everything is plain Gaussian elimination / cofactor-free textbook code over
fractions.Fraction; nothing here is clever on purpose."""
from fractions import Fraction

from pbt.exact import real_dump, real_recipe


class G:
    """re + i*im, Fraction parts"""
    __slots__ = ("re", "im")

    def __init__(self, re=0, im=0):
        self.re = re if type(re) is Fraction else Fraction(re)
        self.im = im if type(im) is Fraction else Fraction(im)

    @staticmethod
    def of(x):
        return x if type(x) is G else G(x)

    def __eq__(self, o):
        if type(o) is not G:
            o = G(o)
        return self.re == o.re and self.im == o.im

    def __ne__(self, o):
        return not self.__eq__(o)

    def __hash__(self):
        return hash((self.re, self.im))

    def __bool__(self):
        return self.re != 0 or self.im != 0

    def __repr__(self):
        if self.im == 0:
            return str(self.re)
        return "(%s%s%s*I)" % (self.re, "+" if self.im > 0 else "-", abs(self.im))

    def is_real(self):
        return self.im == 0

    def __add__(self, o):
        if type(o) is not G:
            o = G(o)
        return G(self.re + o.re, self.im + o.im)

    __radd__ = __add__

    def __sub__(self, o):
        if type(o) is not G:
            o = G(o)
        return G(self.re - o.re, self.im - o.im)

    def __rsub__(self, o):
        return G(o) - self

    def __neg__(self):
        return G(-self.re, -self.im)

    def __mul__(self, o):
        if type(o) is not G:
            o = G(o)
        if self.im == 0 and o.im == 0:
            return G(self.re * o.re, 0)
        return G(self.re * o.re - self.im * o.im, self.re * o.im + self.im * o.re)

    __rmul__ = __mul__

    def inv(self):
        if self.im == 0:
            return G(1 / self.re, 0)
        n = self.re * self.re + self.im * self.im
        return G(self.re / n, -self.im / n)

    def __truediv__(self, o):
        if type(o) is not G:
            o = G(o)
        return self * o.inv()

    def __rtruediv__(self, o):
        return G(o) * self.inv()

    def conj(self):
        return G(self.re, -self.im)

    def abs2(self):
        return self.re * self.re + self.im * self.im


ZERO = G(0)
ONE = G(1)


# ---------------------------------------------------------------- text <-> value <-> dump
def parse(s):
    """'3', '-1/2', '1/2,3' (re,im)"""
    if isinstance(s, G):
        return s
    if isinstance(s, (int, Fraction)):
        return G(s)
    if "," in s:
        a, b = s.split(",")
        return G(Fraction(a), Fraction(b))
    return G(Fraction(s))


def text(z):
    if z.im == 0:
        return str(z.re)
    return "%s,%s" % (z.re, z.im)


def dump(z):
    """the unique normalised raw dump of an exact number"""
    if z.im == 0:
        return real_dump(z.re)
    return ["Complex", real_dump(z.re), real_dump(z.im)]


def recipe(z):
    if z.im == 0:
        return real_recipe(z.re)
    return ["complex", real_recipe(z.re), real_recipe(z.im)]


def from_dump(d):
    """exact number dump -> G, anything else -> None"""
    try:
        t = d[0]
        if t == "Integer":
            return G(int(d[1]))
        if t == "Rational":
            return G(Fraction(int(d[1]), int(d[2])))
        if t == "Complex":
            a, b = from_dump(d[1]), from_dump(d[2])
            if a is None or b is None or a.im != 0 or b.im != 0:
                return None
            return G(a.re, b.re)
    except (TypeError, IndexError, ValueError, KeyError):
        return None
    return None


def mat_parse(rows):
    return [[parse(x) for x in r] for r in rows]


def mat_text(M):
    return [[text(x) for x in r] for r in M]


# ---------------------------------------------------------------- basic matrix algebra
def shape(M):
    return (len(M), len(M[0]) if M else 0)


def zeros(r, c):
    return [[ZERO] * c for _ in range(r)]


def eye(n, m=None, k=0):
    m = n if m is None else m
    return [[ONE if j - i == k else ZERO for j in range(m)] for i in range(n)]


def copy(M):
    return [list(r) for r in M]


def transpose(M):
    r, c = shape(M)
    return [[M[i][j] for i in range(r)] for j in range(c)]


def conj(M):
    return [[x.conj() for x in r] for r in M]


def add(A, B):
    return [[x + y for x, y in zip(ra, rb)] for ra, rb in zip(A, B)]


def sub(A, B):
    return [[x - y for x, y in zip(ra, rb)] for ra, rb in zip(A, B)]


def emul(A, B):
    return [[x * y for x, y in zip(ra, rb)] for ra, rb in zip(A, B)]


def scal(A, k):
    return [[x * k for x in r] for r in A]


def add_scalar(A, k):
    return [[x + k for x in r] for r in A]


def matmul(A, B):
    r, n = shape(A)
    n2, c = shape(B)
    assert n == n2, "matmul shape"
    out = []
    for i in range(r):
        row = []
        Ai = A[i]
        for j in range(c):
            s = ZERO
            for k in range(n):
                a = Ai[k]
                if a:
                    s = s + a * B[k][j]
            row.append(s)
        out.append(row)
    return out


def mat_eq(A, B):
    return shape(A) == shape(B) and all(x == y for ra, rb in zip(A, B) for x, y in zip(ra, rb))


def is_zero_mat(A):
    return all(not x for r in A for x in r)


def is_real_mat(A):
    return all(x.im == 0 for r in A for x in r)


def trace(A):
    s = ZERO
    for i in range(len(A)):
        s = s + A[i][i]
    return s


def submatrix(A, r0, c0, r1, c1):
    return [list(A[i][c0:c1 + 1]) for i in range(r0, r1 + 1)]


def is_lower(A):
    return all(not A[i][j] for i in range(len(A)) for j in range(i + 1, len(A[0])))


def is_upper(A):
    return all(not A[i][j] for i in range(len(A)) for j in range(min(i, len(A[0]))))


def is_diagonal(A):
    return all(i == j or not A[i][j] for i in range(len(A)) for j in range(len(A[0])))


def is_symmetric(A):
    r, c = shape(A)
    return r == c and all(A[i][j] == A[j][i] for i in range(r) for j in range(i))


def is_hermitian(A):
    r, c = shape(A)
    return r == c and all(A[i][j] == A[j][i].conj() for i in range(r) for j in range(i + 1))


# ---------------------------------------------------------------- elimination
def rref(A):
    """(R, pivot columns) -- the unique reduced row echelon form"""
    M = copy(A)
    r, c = shape(M)
    piv = []
    row = 0
    for col in range(c):
        if row == r:
            break
        p = None
        for i in range(row, r):
            if M[i][col]:
                p = i
                break
        if p is None:
            continue
        M[row], M[p] = M[p], M[row]
        inv = M[row][col].inv()
        M[row] = [x * inv for x in M[row]]
        for i in range(r):
            if i != row and M[i][col]:
                f = M[i][col]
                M[i] = [x - f * y for x, y in zip(M[i], M[row])]
        piv.append(col)
        row += 1
    return M, piv


def rank(A):
    return len(rref(A)[1])


def det(A):
    n, m = shape(A)
    assert n == m
    M = copy(A)
    d = ONE
    for k in range(n):
        p = None
        for i in range(k, n):
            if M[i][k]:
                p = i
                break
        if p is None:
            return ZERO
        if p != k:
            M[k], M[p] = M[p], M[k]
            d = -d
        d = d * M[k][k]
        inv = M[k][k].inv()
        for i in range(k + 1, n):
            if M[i][k]:
                f = M[i][k] * inv
                M[i] = [x - f * y for x, y in zip(M[i], M[k])]
    return d


def det_laplace(A):
    """cofactor expansion (second, independent determinant for small n)"""
    n = len(A)
    if n == 1:
        return A[0][0]
    s = ZERO
    for j in range(n):
        if A[0][j]:
            minor = [row[:j] + row[j + 1:] for row in A[1:]]
            t = A[0][j] * det_laplace(minor)
            s = s + t if j % 2 == 0 else s - t
    return s


def inverse(A):
    """None when singular"""
    n, m = shape(A)
    assert n == m
    aug = [list(A[i]) + [ONE if i == j else ZERO for j in range(n)] for i in range(n)]
    R, piv = rref(aug)
    if piv[:n] != list(range(n)):
        return None
    return [row[n:] for row in R]


def solve(A, B):
    """X with A X = B for non-singular A, else None"""
    n, m = shape(A)
    assert n == m and len(B) == n
    aug = [list(A[i]) + list(B[i]) for i in range(n)]
    R, piv = rref(aug)
    if piv[:n] != list(range(n)):
        return None
    return [row[n:] for row in R]


def leading_minors(A):
    n = min(shape(A))
    return [det([row[:k] for row in A[:k]]) for k in range(1, n + 1)]


def minor(A, rows, cols):
    return det([[A[i][j] for j in cols] for i in rows])


def char_poly(A):
    """coefficients of det(x I - A), highest power first (Faddeev-LeVerrier)"""
    n = len(A)
    c = [ONE]
    M = zeros(n, n)
    I = eye(n)
    for k in range(1, n + 1):
        # M_k = A M_{k-1} + c_{k-1} I ; c_k = -tr(A M_k)/k
        M = add(matmul(A, M), scal(I, c[-1]))
        AM = matmul(A, M)
        c.append(-trace(AM) / k)
    return c


def bareiss_entry(A, i, j):
    """the fraction-free (Bareiss) entry a^(m)_{ij}, m = min(i,j): the minor of A on rows 0..m-1,i and
    columns 0..m-1,j"""
    m = min(i, j)
    return minor(A, list(range(m)) + [i], list(range(m)) + [j])


def row_equivalent(A, B):
    return shape(A) == shape(B) and mat_eq(rref(A)[0], rref(B)[0])


def is_echelon(B, ncols=None):
    """rows' leading columns (restricted to the first ncols columns) strictly increase, zero rows last"""
    r, c = shape(B)
    c = c if ncols is None else ncols
    last = -1
    seen_zero = False
    for i in range(r):
        lead = None
        for j in range(c):
            if B[i][j]:
                lead = j
                break
        if lead is None:
            seen_zero = True
            continue
        if seen_zero or lead <= last:
            return False
        last = lead
    return True


def positive_definite(A):
    """Hermitian A: all leading principal minors > 0"""
    if not is_hermitian(A):
        return None
    for d in leading_minors(A):
        if d.im != 0 or d.re <= 0:
            return False
    return True


def perm_apply(A, pl):
    """apply a list of row exchanges in order (permuteFwd)"""
    M = copy(A)
    for (i, j) in pl:
        M[i], M[j] = M[j], M[i]
    return M


# ---------------------------------------------------------------- CSR model
def csr_canonical(r, c, p, j, nx):
    """my own canonical-format check; returns None or a reason string"""
    if len(p) != r + 1:
        return "len(p) != rows+1"
    if p[0] != 0:
        return "p[0] != 0"
    for i in range(r):
        if p[i] > p[i + 1]:
            return "row pointer not monotone at row %d" % i
    if len(j) != p[r] or nx != p[r]:
        return "len(j)=%d len(x)=%d but p[rows]=%d" % (len(j), nx, p[r])
    for i in range(r):
        for k in range(p[i], p[i + 1]):
            if not (0 <= j[k] < c):
                return "column index out of range in row %d" % i
            if k > p[i] and j[k - 1] >= j[k]:
                return "column indices not strictly increasing in row %d" % i
    return None


def csr_to_dense(r, c, p, j, x, strict=True):
    """dense rows from CSR arrays (duplicates summed when strict is False)"""
    M = zeros(r, c)
    for i in range(r):
        for k in range(p[i], p[i + 1]):
            M[i][j[k]] = M[i][j[k]] + x[k]
    return M


def dense_to_csr(M, keep_zero=False):
    r, c = shape(M)
    p, j, x = [0], [], []
    for i in range(r):
        for k in range(c):
            if M[i][k] or keep_zero:
                j.append(k)
                x.append(M[i][k])
        p.append(len(j))
    return p, j, x
