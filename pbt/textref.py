"""Reference models for the text properties C16 / C17 / C44.

* the parser's name tables (copied from symengine/parser/parser.cpp, with the line they come from),
* C17: a reference grammar -- an abstract syntax tree, a printer producing concrete strings with random
  whitespace / redundant parentheses / literal spellings, and `build`, which turns the tree into a
  driver recipe constructing the denoted expression directly through the API,
* C16: recipes over the parseable fragment and re-construction variants,
* C44: well-formedness checkers for LaTeX, MathML and the Unicode box printer.

Strings travel to the driver as *byte strings in latin-1 clothing* (engine._qs sends every code point
<= 0xff as one byte, the response is decoded as latin-1); helper `u8(name)` gives the latin-1 spelling of
the UTF-8 encoding of a unicode name.
"""
import math
import re
import unicodedata
from fractions import Fraction

from hypothesis import strategies as st

# --------------------------------------------------------------------------- parser name tables
# parser.cpp:52-110 init_parser_single_arg_functions(): parser name -> driver op
SINGLE = {
    "sin": "sin", "cos": "cos", "tan": "tan", "cot": "cot", "csc": "csc", "sec": "sec",
    "asin": "asin", "arcsin": "asin", "acos": "acos", "arccos": "acos", "atan": "atan", "arctan": "atan",
    "asec": "asec", "arcsec": "asec", "acsc": "acsc", "arccsc": "acsc", "acot": "acot", "arccot": "acot",
    "sinh": "sinh", "cosh": "cosh", "tanh": "tanh", "coth": "coth", "sech": "sech", "csch": "csch",
    "asinh": "asinh", "arcsinh": "asinh", "acosh": "acosh", "arccosh": "acosh", "atanh": "atanh",
    "arctanh": "atanh", "asech": "asech", "arcsech": "asech", "acoth": "acoth", "arccoth": "acoth",
    "acsch": "acsch", "arccsch": "acsch",
    "gamma": "gamma", "sqrt": "sqrt", "abs": "abs", "sign": "sign", "exp": "exp", "erf": "erf", "erfc": "erfc",
    "loggamma": "loggamma", "lambertw": "lambertw", "dirichlet_eta": "dirichlet_eta", "floor": "floor",
    "ceiling": "ceiling", "ln": "log", "log": "log", "zeta": "zeta", "primepi": "primepi",
    "primorial": "primorial",
}
# parser.cpp:120-130 double_arg_functions
DOUBLE = {"pow": "pow", "beta": "beta", "log": "log2", "zeta": "zeta2", "lowergamma": "lowergamma",
          "uppergamma": "uppergamma", "polygamma": "polygamma", "kronecker_delta": "kronecker_delta",
          "atan2": "atan2"}
# parser.cpp:134-138 multi_arg_functions
MULTI = {"max": "max", "min": "min", "levi_civita": "levi_civita"}
# parser.cpp:143-171 boolean tables
REL2 = {"Eq": "Eq", "Equality": "Eq", "Ne": "Ne", "Unequality": "Ne", "Ge": "Ge", "GreaterThan": "Ge",
        "Gt": "Gt", "StrictGreaterThan": "Gt", "Le": "Le", "LessThan": "Le", "Lt": "Lt", "StrictLessThan": "Lt"}
REL1 = {"Eq": "Eq1", "Equality": "Eq1"}
BOOLVEC = {"Xor": "xor", "Xnor": "xnor"}                     # parser.cpp:176-179
BOOLSET = {"And": "and", "Or": "or", "Nand": "nand", "Nor": "nor"}   # parser.cpp:184-189
# parser.cpp:259-271 parser_constants: identifier -> recipe
CONSTANTS = {"e": ["constant", "E"], "E": ["constant", "E"], "EulerGamma": ["constant", "EulerGamma"],
             "Catalan": ["constant", "Catalan"], "GoldenRatio": ["constant", "GoldenRatio"],
             "pi": ["constant", "pi"], "I": ["constant", "I"], "oo": ["oo"], "inf": ["oo"], "zoo": ["zoo"],
             "nan": ["nan"]}
BOOLCONST = {"True": ["true"], "False": ["false"]}
FUNCTION_NAMES = (set(SINGLE) | set(DOUBLE) | set(MULTI) | set(REL2) | set(BOOLVEC) | set(BOOLSET) | {"Not"})
RESERVED = set(CONSTANTS) | set(BOOLCONST) | {"Piecewise"} | FUNCTION_NAMES


def u8(name):
    """latin-1 spelling of the UTF-8 bytes of a unicode string (what the driver must receive)"""
    return name.encode("utf-8").decode("latin-1")


# symbol names accepted by the tokenizer (tokenizer.re: ident = char (char | dig)*, char = [\x80-\xff] | [a-zA-Z_])
SYMBOL_NAMES = ["x", "y", "z", "t", "a", "b", "x1", "x_1", "_", "_x", "__y2", "X", "Y9", "alpha", "e1", "ex", "E_",
                "Ix", "pi2", "oox", "in_", "nanx", "sinx", "x" * 40, "a1b2c3", u8("ü"), u8("α"),
                u8("β") + "_1", "\xff\x80", "x\xe9", "e_", "E1", "e2x"]
assert not (set(SYMBOL_NAMES) & RESERVED)

# --------------------------------------------------------------------------- C17: reference grammar
ATOM, POW, UNARY, MUL, ADD, REL, BOOL = 6, 5, 4, 3, 2, 1, 0
WS = ["", "", "", " ", " ", "  ", "\t", " \n", "\r", "\v "]

POW_LIMIT = 700.0       # digits: no exact power / product larger than this is generated
GROW_ARG = 3.0          # growth functions get arguments of at most 10**3
GROWTH = {"gamma", "loggamma", "primorial", "primepi", "zeta", "dirichlet_eta", "polygamma", "beta",
          "lowergamma", "uppergamma"}


class Bits:
    """formatting decisions of one node, all drawn by Hypothesis as one integer"""

    def __init__(self, n):
        self.n = n

    def take(self, k):
        v = self.n % k
        self.n //= k
        return v

    def ws(self):
        return WS[self.take(len(WS))]


def node(s, a, l, z, ops=(), imul=False, lits=()):
    return {"s": s, "a": a, "l": l, "z": z, "ops": list(ops), "imul": imul, "lits": list(lits)}


def paren(n, bits):
    return node("(" + bits.ws() + n["s"] + bits.ws() + ")", n["a"], ATOM, n["z"], n["ops"], False, n["lits"])


def maybe_redundant(n, bits):
    k = bits.take(8)
    if k == 0:
        n = paren(n, bits)
    if k == 1:
        n = paren(paren(n, bits), bits)
    return n


def need(n, ok, bits):
    return n if ok else paren(n, bits)


# ---- literals (all decisions come from a Bits integer drawn by Hypothesis)
INT_TEXTS = ["0", "1", "2", "3", "5", "7", "8", "9", "10", "12", "17", "64", "100", "255", "1000", "4096",
             "00", "01", "007", "08", "09", "010", "011", "017", "018", "0100", "0777", "0123456789", "000012",
             "2147483647", "2147483648", "9223372036854775807", "9223372036854775808", "18446744073709551616",
             "123456789012345678901234567890", "0777777777777777777777", "01777777777777777777777",
             "0123456789012345678901234567890", "00000000000000000000000001"]

FLT_TEXTS = ["1.", ".5", "0.5", "1.5", "2.0", "1e5", "1E-3", "1e0", "1E+2", "2.5e-3", ".5e1", "3.25",
             "00.5", "012.5", "012e1", "1e05", "1e+05", "1e-05", "0.1", "0.2", "0.3", "0.7", "1e22", "1e23",
             "0.1234567890123456789", "123456789012345678901234567890.5", "9007199254740993.0", "9007199254740993e0",
             "1e308", "1.7976931348623157e308", "1.7976931348623159e308", "1e309", "1e-320", "4.9e-324", "2.4e-324",
             "2.5e-324", "2.2250738585072011e-308", "2.2250738585072014e-308", "1e-400", "0.0", "0e0", "0.",
             ".0", "5e-1", "8.5", "0.000001", "1e-7", "123456789.125", "6.02214076e23", "1.0000000000000002",
             "1.00000000000000011102230246251565404236316680908203125",
             "1.00000000000000011102230246251565404236316680908203124",
             "1.00000000000000011102230246251565404236316680908203126"]


def int_text(bits):
    k = bits.take(8)
    if k == 0:
        return INT_TEXTS[bits.take(len(INT_TEXTS))]
    if k in (1, 2, 3):
        return str(bits.take(13))
    if k == 4:
        return str(bits.take(100))
    if k == 5:
        return "0" * (1 + bits.take(3)) + str(bits.take(10 ** 6))
    if k == 6:
        return "0" * bits.take(3) + str(bits.take(10 ** 30))
    return str(bits.take(10 ** 4))


def int_lit(bits):
    t = int_text(bits)
    return node(t, ["i", t], ATOM, math.log10(max(1, int(t))) + 0.01,
                lits=["lead0"] if len(t) > 1 and t[0] == "0" else [])


def flt_text(bits):
    k = bits.take(8)
    if k in (0, 1):
        return FLT_TEXTS[bits.take(len(FLT_TEXTS))]
    zeros = ["", "", "0", "00"][bits.take(4)]
    d = str(bits.take(10 ** (1 + bits.take(6))))
    frac = str(bits.take(10 ** (1 + bits.take(9))))
    exp = "eE"[bits.take(2)] + ["", "+", "-"][bits.take(3)] + ["", "0"][bits.take(2)] + str(bits.take(31))
    if k == 2:
        return zeros + d + "." + frac
    if k == 3:
        return zeros + d + "."
    if k == 4:
        return "." + frac
    if k == 5:
        return zeros + d + exp
    if k == 6:
        return zeros + d + "." + frac + exp
    return "." + frac + exp


def flt_size(t):
    v = float(t)
    if v == 0 or v != v or v in (float("inf"), float("-inf")):
        return 1.0
    return abs(math.log10(abs(v))) + 1.0


def flt_lit(bits):
    t = flt_text(bits)
    tags = []
    if "e" in t or "E" in t:
        tags.append("exp")
    if len(t) > 1 and t[0] == "0" and t[1] != ".":
        tags.append("lead0f")
    if t.endswith(".") or t.startswith("."):
        tags.append("baredot")
    return node(t, ["f", t], ATOM, flt_size(t), lits=tags)


def has_exp(t):
    return "e" in t or "E" in t


_CONST_NAMES = sorted(CONSTANTS)


def ident_leaf(bits):
    if bits.take(4) == 0:
        n = _CONST_NAMES[bits.take(len(_CONST_NAMES))]
        return node(n, ["c", n], ATOM, 0.3)
    n = SYMBOL_NAMES[bits.take(len(SYMBOL_NAMES))] if bits.take(3) == 0 else SYMBOL_NAMES[bits.take(6)]
    return node(n, ["s", n], ATOM, 0.3)


def implicit_mul(bits):
    """NUM IDENT as one token (tokenizer.re: implicitmul = numeric ident).  An identifier that would
    lengthen the numeric literal ("2e5" is a float, not 2*e5) is spelled with an explicit '*'."""
    num = int_lit(bits) if bits.take(2) else flt_lit(bits)
    ident = ident_leaf(bits)
    t = num["a"][1]
    name = ident["a"][1]
    a = ["im", num["a"], ident["a"]]
    z = num["z"] + 0.3
    lits = num["lits"] + ["imul"]
    if not has_exp(t) and re.match(r"[eE][0-9]", name):
        # ambiguous under maximal munch: explicit multiplication instead
        return node(t + bits.ws() + "*" + bits.ws() + name, ["b", "*", num["a"], ident["a"]], MUL, z, ["*"],
                    lits=num["lits"])
    if not has_exp(t) and name in ("e", "E"):
        # "2e" followed by a sign/digit would lex as a float: keep it inside parentheses
        return node("(" + bits.ws() + t + name + bits.ws() + ")", a, ATOM, z, [], False, lits)
    return node(t + name, a, MUL, z, [], True, lits)


def leaf(bits):
    k = bits.take(8)
    if k in (0, 1):
        return int_lit(bits)
    if k == 2:
        return flt_lit(bits)
    if k == 3:
        return implicit_mul(bits)
    return ident_leaf(bits)


SMALL = node("2", ["i", "2"], ATOM, 0.31)


def small(bits):
    t = str(bits.take(4))
    return node(t, ["i", t], ATOM, 0.5)


def mk_unary(op, x, bits):
    x = need(x, x["l"] >= UNARY or x["imul"], bits)
    s = op + bits.ws() + x["s"]
    return maybe_redundant(node(s, ["n" if op == "-" else "p", x["a"]], UNARY, x["z"], x["ops"] + ["u" + op],
                                lits=x["lits"]), bits)


def pow_size(base, expo):
    if expo["z"] > 6:
        return float("inf")
    return (base["z"] + 0.01) * 10 ** expo["z"]


def mk_bin(op, l, r, bits, cx=True):
    if op in "+-":
        l = need(l, l["l"] >= ADD, bits)
        r = need(r, r["l"] >= MUL, bits)
        z, lev, tok = l["z"] + r["z"] + 0.31, ADD, op
    elif op == "*":
        l = need(l, l["l"] >= MUL, bits)
        r = need(r, r["l"] >= UNARY or r["imul"], bits)
        z, lev, tok = l["z"] + r["z"], MUL, op
    elif op == "/":
        l = need(l, l["l"] >= MUL, bits)
        r = need(r, r["l"] >= UNARY, bits)
        z, lev, tok = l["z"] + r["z"], MUL, op
    else:  # power
        l = need(l, l["l"] >= ATOM, bits)
        r = need(r, r["l"] >= UNARY, bits)
        if pow_size(l, r) > POW_LIMIT:
            r = small(bits)
        z, lev = pow_size(l, r), POW
        tok = "**" if (not cx or bits.take(2)) else "^"
        op = "**"
    s = l["s"] + bits.ws() + tok + bits.ws() + r["s"]
    return maybe_redundant(node(s, ["b", op, l["a"], r["a"]], lev, z, l["ops"] + r["ops"] + [op],
                                lits=l["lits"] + r["lits"]), bits)


def mk_imulpow(im, expo, bits, cx=True):
    """2x**3 = 2*(x**3)   (parser.yy: IMPLICIT_MUL POW expr)"""
    if im["a"][0] != "im":
        return im
    expo = need(expo, expo["l"] >= UNARY, bits)
    base = node("", None, ATOM, 0.3)
    if pow_size(base, expo) > POW_LIMIT:
        expo = small(bits)
    token = im["a"][1][1] + im["a"][2][1]
    tok = "**" if (not cx or bits.take(2)) else "^"
    s = token + bits.ws() + tok + bits.ws() + expo["s"]
    z = im["z"] + pow_size(base, expo)
    return maybe_redundant(node(s, ["ip", im["a"][1], im["a"][2], expo["a"]], MUL, z, expo["ops"] + ["**", "imul*"],
                                True, im["lits"] + expo["lits"] + ["imulpow"]), bits)


def call_text(name, args, bits):
    s = name + bits.ws() + "(" + bits.ws()
    for i, a in enumerate(args):
        if i:
            s += bits.ws() + "," + bits.ws()
        s += a["s"]
    return s + bits.ws() + ")"


def mk_call(name, args, bits):
    args = list(args)
    if name in GROWTH or name == "levi_civita":
        args = [a if a["z"] <= GROW_ARG else small(bits) for a in args]
    if name == "pow" and len(args) == 2 and pow_size(args[0], args[1]) > POW_LIMIT:
        args[1] = small(bits)
    if name == "pow" and len(args) == 2:
        z = pow_size(args[0], args[1])
    elif name in GROWTH:
        z = 3.0 * 10 ** max(a["z"] for a in args)
    else:
        z = max(a["z"] for a in args) + 0.31
    ops, lits = [], []
    for a in args:
        ops += a["ops"]
        lits += a["lits"]
    return maybe_redundant(node(call_text(name, args, bits), ["call", name, [a["a"] for a in args]], ATOM, z,
                                ops + ["fn:" + name], lits=lits), bits)


def _sum(nodes, key):
    out = []
    for n in nodes:
        out += n[key]
    return out


def mk_rel(op, l, r, bits):
    l = need(l, l["l"] >= ADD, bits)
    r = need(r, r["l"] >= ADD, bits)
    s = l["s"] + bits.ws() + op + bits.ws() + r["s"]
    return node(s, ["rel", op, l["a"], r["a"]], REL, 1.0, l["ops"] + r["ops"] + [op], lits=l["lits"] + r["lits"])


def mk_boolcall(name, args, bits):
    return node(call_text(name, args, bits), ["call", name, [a["a"] for a in args]], ATOM, 1.0,
                _sum(args, "ops") + ["fn:" + name], lits=_sum(args, "lits"))


LOP_LEVEL = {"&": -1, "^": -2, "|": -3}


def mk_lop(op, l, r, bits):
    """& binds tighter than ^ tighter than | (parser.yy %left '|' '^' '&'); relational operands are always
    parenthesised (their precedence against & | differs between C and Python, so nothing is demanded)"""

    def fit(x, right):
        lv = x.get("bl", 0)
        ok = x["l"] >= ATOM or (x["l"] == BOOL and (lv > LOP_LEVEL[op] or (lv == LOP_LEVEL[op] and not right)))
        return need(x, ok, bits)
    l, r = fit(l, False), fit(r, True)
    s = l["s"] + bits.ws() + op + bits.ws() + r["s"]
    n = node(s, ["lop", op, l["a"], r["a"]], BOOL, 1.0, l["ops"] + r["ops"] + ["b" + op], lits=l["lits"] + r["lits"])
    n["bl"] = LOP_LEVEL[op]
    return n


def mk_not(x, bits):
    x = need(x, x["l"] >= ATOM, bits)
    n = node("~" + bits.ws() + x["s"], ["not", x["a"]], BOOL, 1.0, x["ops"] + ["~"], lits=x["lits"])
    n["bl"] = 0
    return n


def mk_piecewise(pairs, bits):
    s = "Piecewise" + bits.ws() + "(" + bits.ws()
    for i, (e, c) in enumerate(pairs):
        if i:
            s += bits.ws() + "," + bits.ws()
        s += "(" + bits.ws() + e["s"] + bits.ws() + "," + bits.ws() + c["s"] + bits.ws() + ")"
    s += bits.ws() + ")"
    flat = [x for p in pairs for x in p]
    return node(s, ["pw", [[e["a"], c["a"]] for e, c in pairs]], ATOM, max(e["z"] for e, _ in pairs) + 0.31,
                _sum(flat, "ops") + ["Piecewise"], lits=_sum(flat, "lits"))


UNKNOWN_FUNCS = ["f", "g", "F1", "my_func"]
assert not (set(UNKNOWN_FUNCS) & RESERVED)
_SINGLE, _DOUBLE, _MULTI = sorted(SINGLE), sorted(DOUBLE), sorted(MULTI)
_REL2, _REL1, _BOOLN = sorted(REL2), sorted(REL1), sorted(BOOLSET) + sorted(BOOLVEC)
_RELOPS = ["<", ">", "<=", ">=", "==", "!="]
_BINOPS = ["+", "-", "*", "/", "**", "**", "+", "*"]
TRUE = node("True", ["bc", "True"], ATOM, 1.0)


def pick(bits, xs):
    return xs[bits.take(len(xs))]


def arith(plan, cx):
    """plan: int (leaf) | [int, plan, ...] -- interpreted type-directed, every decision taken from the ints"""
    if not isinstance(plan, list):
        return leaf(Bits(plan))
    bits = Bits(plan[0])
    kids = plan[1:]
    n = len(kids)
    k = bits.take(16)
    if n == 1:
        x = arith(kids[0], cx)
        if k < 5:
            return mk_unary("--+"[bits.take(3)], x, bits)
        if k < 9:
            return mk_call(pick(bits, _SINGLE), [x], bits)
        if k < 10:
            return mk_call(pick(bits, _MULTI + UNKNOWN_FUNCS), [x], bits)
        if k < 13:
            return mk_imulpow(implicit_mul(bits), x, bits, cx)
        if k < 14:
            return mk_piecewise([(x, boolean(kids[0] if not isinstance(kids[0], list) else kids[0][0], cx))], bits)
        return paren(x, bits)
    if n == 2:
        x, y = arith(kids[0], cx), arith(kids[1], cx)
        if k < 11:
            return mk_bin(pick(bits, _BINOPS), x, y, bits, cx)
        if k < 13:
            return mk_call(pick(bits, _DOUBLE), [x, y], bits)
        if k < 14:
            return mk_call(pick(bits, _MULTI + UNKNOWN_FUNCS), [x, y], bits)
        c1 = mk_rel(pick(bits, _RELOPS), leaf(Bits(bits.take(2 ** 30))), leaf(Bits(bits.take(2 ** 30))), bits)
        return mk_piecewise([(x, c1), (y, TRUE if bits.take(2) else mk_not(paren(c1, bits), bits))], bits)
    xs = [arith(q, cx) for q in kids]
    if k < 6:
        return mk_bin(pick(bits, _BINOPS), mk_bin(pick(bits, _BINOPS), xs[0], xs[1], bits, cx), xs[2], bits, cx)
    if k < 10:
        return mk_bin(pick(bits, _BINOPS), xs[0], mk_bin(pick(bits, _BINOPS), xs[1], xs[2], bits, cx), bits, cx)
    if k < 13:
        return mk_call(pick(bits, _MULTI + UNKNOWN_FUNCS), xs, bits)
    return mk_piecewise([(xs[0], mk_rel(pick(bits, _RELOPS), xs[1], xs[2], bits)), (xs[1], TRUE)], bits)


def boolean(plan, cx):
    lops = ["&", "|"] + ([] if cx else ["^"])
    if not isinstance(plan, list):
        bits = Bits(plan)
        k = bits.take(8)
        if k == 0:
            n = "True" if bits.take(2) else "False"
            return node(n, ["bc", n], ATOM, 1.0)
        a, b = leaf(Bits(bits.take(2 ** 24))), leaf(Bits(bits.take(2 ** 24)))
        if k == 1:
            return mk_boolcall(pick(bits, _REL2), [a, b], bits)
        if k == 2:
            return mk_boolcall(pick(bits, _REL1), [a], bits)
        return mk_rel(pick(bits, _RELOPS), a, b, bits)
    bits = Bits(plan[0])
    kids = plan[1:]
    n = len(kids)
    k = bits.take(16)
    if n == 1:
        if k < 4:
            return mk_not(boolean(kids[0], cx), bits)
        if k < 8:
            return mk_boolcall("Not", [boolean(kids[0], cx)], bits)
        if k < 10:
            return mk_boolcall(pick(bits, _BOOLN), [boolean(kids[0], cx)], bits)
        if k < 12:
            return mk_boolcall(pick(bits, _REL1), [arith(kids[0], cx)], bits)
        return paren(boolean(kids[0], cx), bits)
    if n == 2:
        if k < 5:
            return mk_rel(pick(bits, _RELOPS), arith(kids[0], cx), arith(kids[1], cx), bits)
        if k < 7:
            return mk_boolcall(pick(bits, _REL2), [arith(kids[0], cx), arith(kids[1], cx)], bits)
        if k < 12:
            return mk_lop(pick(bits, lops), boolean(kids[0], cx), boolean(kids[1], cx), bits)
        return mk_boolcall(pick(bits, _BOOLN), [boolean(kids[0], cx), boolean(kids[1], cx)], bits)
    bs = [boolean(q, cx) for q in kids]
    if k < 5:
        return mk_lop(pick(bits, lops), mk_lop(pick(bits, lops), bs[0], bs[1], bits), bs[2], bits)
    if k < 10:
        return mk_lop(pick(bits, lops), bs[0], mk_lop(pick(bits, lops), bs[1], bs[2], bits), bits)
    return mk_boolcall(pick(bits, _BOOLN), bs, bits)


def plans(max_leaves=10):
    big = st.integers(0, 2 ** 96)
    return st.recursive(big, lambda ch: st.builds(lambda h, xs: [h] + xs, big, st.lists(ch, min_size=1, max_size=3)),
                        max_leaves=max_leaves)


def c17_item_from(plan, sel):
    bits = Bits(sel)
    cx = bits.take(4) != 3
    n = boolean(plan, cx) if bits.take(5) == 4 else arith(plan, cx)
    return {"s": bits.ws() + n["s"] + bits.ws(), "a": n["a"], "cx": cx}


def c17_item(max_leaves=10):
    return st.builds(c17_item_from, plans(max_leaves), st.integers(0, 2 ** 20))


# ---- tree -> driver recipe (direct construction with conventional meaning)
BINOP = {"+": "add", "-": "sub", "*": "mul", "/": "div", "**": "pow"}
RELOP = {"<": "Lt", ">": "Gt", "<=": "Le", ">=": "Ge", "==": "Eq", "!=": "Ne"}
LOP = {"&": "and", "|": "or", "^": "xor"}


def build(a):
    h = a[0]
    if h == "i":
        return ["integer", int(a[1], 10)]
    if h == "f":
        return ["real_double", float(a[1])]
    if h == "s":
        return ["symbol", a[1]]
    if h == "c":
        return CONSTANTS[a[1]]
    if h == "bc":
        return BOOLCONST[a[1]]
    if h == "im":
        return ["mul", build(a[1]), build(a[2])]
    if h == "ip":
        return ["mul", build(a[1]), ["pow", build(a[2]), build(a[3])]]
    if h == "n":
        return ["neg", build(a[1])]
    if h == "p":
        return build(a[1])
    if h == "b":
        return [BINOP[a[1]], build(a[2]), build(a[3])]
    if h == "rel":
        return [RELOP[a[1]], build(a[2]), build(a[3])]
    if h == "lop":
        return [LOP[a[1]], ["list", build(a[2]), build(a[3])]]
    if h == "not":
        return ["not", build(a[1])]
    if h == "pw":
        return ["piecewise", ["list"] + [["list", build(e), build(c)] for e, c in a[1]]]
    if h == "call":
        name, args = a[1], [build(x) for x in a[2]]
        n = len(args)
        if n == 1 and name in SINGLE:
            return [SINGLE[name], args[0]]
        if n == 1 and name in REL1:
            return [REL1[name], args[0]]
        if n == 1 and name == "Not":
            return ["not", args[0]]
        if n == 2 and name in DOUBLE:
            return [DOUBLE[name], args[0], args[1]]
        if n == 2 and name in REL2:
            return [REL2[name], args[0], args[1]]
        if name in MULTI:
            return [MULTI[name], ["list"] + args]
        if name in BOOLVEC:
            return [BOOLVEC[name], ["list"] + args]
        if name in BOOLSET:
            return [BOOLSET[name], ["list"] + args]
        return ["function_symbol", name, ["list"] + args]
    raise KeyError(h)


def exact_value(a):
    """Fraction value of a purely integer-arithmetic tree (None otherwise / division by zero / non-integer power)"""
    h = a[0]
    if h == "i":
        return Fraction(int(a[1], 10))
    if h == "n":
        v = exact_value(a[1])
        return None if v is None else -v
    if h == "p":
        return exact_value(a[1])
    if h == "b":
        x, y = exact_value(a[2]), exact_value(a[3])
        if x is None or y is None:
            return None
        if a[1] == "+":
            return x + y
        if a[1] == "-":
            return x - y
        if a[1] == "*":
            return x * y
        if a[1] == "/":
            return None if y == 0 else x / y
        if a[1] == "**":
            if y.denominator != 1 or abs(y) > 4000 or (x == 0 and y <= 0):
                return None
            return x ** int(y)
    return None


def tree_stats(a, acc=None):
    """operators with their precedence level, literal kinds, function names"""
    acc = acc if acc is not None else {"ops": [], "levels": set(), "fn": set(), "imul": False}
    h = a[0]
    if h == "b":
        acc["ops"].append(a[1])
        acc["levels"].add({"+": ADD, "-": ADD, "*": MUL, "/": MUL, "**": POW}[a[1]])
        tree_stats(a[2], acc)
        tree_stats(a[3], acc)
    elif h in ("n", "p"):
        acc["ops"].append("u")
        acc["levels"].add(UNARY)
        tree_stats(a[1], acc)
    elif h == "ip":
        acc["ops"] += ["*", "**"]
        acc["levels"] |= {MUL, POW}
        acc["imul"] = True
        tree_stats(a[3], acc)
    elif h == "im":
        acc["ops"].append("*")
        acc["levels"].add(MUL)
        acc["imul"] = True
    elif h == "rel":
        acc["ops"].append(a[1])
        acc["levels"].add(REL)
        tree_stats(a[2], acc)
        tree_stats(a[3], acc)
    elif h == "lop":
        acc["ops"].append(a[1])
        acc["levels"].add(LOP_LEVEL[a[1]])
        tree_stats(a[2], acc)
        tree_stats(a[3], acc)
    elif h == "not":
        acc["ops"].append("~")
        tree_stats(a[1], acc)
    elif h == "call":
        acc["fn"].add(a[1])
        for x in a[2]:
            tree_stats(x, acc)
    elif h == "pw":
        acc["fn"].add("Piecewise")
        for e, c in a[1]:
            tree_stats(e, acc)
            tree_stats(c, acc)
    return acc


def literals(a, acc=None):
    """all ("i"|"f", text) literals of a tree"""
    acc = acc if acc is not None else []
    if isinstance(a, list):
        if a and isinstance(a[0], str) and a[0] in ("i", "f") and len(a) == 2 and isinstance(a[1], str):
            acc.append((a[0], a[1]))
        else:
            for x in (a[1:] if a and isinstance(a[0], str) else a):
                literals(x, acc)
    return acc


def octal_affected(t):
    """integer literal texts that Parser::parse_numeric (strtol base 0) reads wrongly: leading zero, value >= 8,
    and the octal reading does not overflow long (overflow falls back to a base-10 conversion)"""
    if len(t) < 2 or t[0] != "0" or not t.isdigit() or int(t, 10) < 8:
        return False
    if "8" in t or "9" in t:
        return True
    return int(t, 8) < 2 ** 63


# --------------------------------------------------------------------------- C16: recipes over the parseable fragment
# functions whose StrPrinter name (strprinter.cpp init_str_printer_names) is a name of the parser tables with the same
# meaning.  kronecker_delta / levi_civita are printed as "kroneckerdelta" / "levicivita", which the parser does not
# know; truncate, conjugate, digamma, trigamma, unevaluated_expr are unknown to the parser: all outside C16.
P_FUN1 = ["sin", "cos", "tan", "cot", "csc", "sec", "asin", "acos", "atan", "asec", "acsc", "acot", "sinh", "cosh",
          "tanh", "coth", "sech", "csch", "asinh", "acosh", "atanh", "asech", "acoth", "acsch", "gamma", "abs", "sign",
          "erf", "erfc", "loggamma", "lambertw", "dirichlet_eta", "floor", "ceiling", "log", "zeta", "primepi",
          "primorial", "sqrt", "cbrt", "exp"]
P_FUN2 = ["beta", "log2", "zeta2", "lowergamma", "uppergamma", "polygamma", "atan2"]
P_NARY = ["max", "min"]
P_FSYM = ["f", "g", "F1", "my_func"]
P_GROWTH = {"gamma", "loggamma", "primepi", "primorial", "zeta", "zeta2", "dirichlet_eta", "beta", "lowergamma",
            "uppergamma", "polygamma"}
FRAGMENT_HEADS = {"Integer", "Rational", "Complex", "RealDouble", "ComplexDouble", "Symbol", "Constant", "Infty", "NaN",
                  "Add", "Mul", "Pow", "FunctionSymbol", "Piecewise", "BooleanAtom", "And", "Or", "Xor", "Not",
                  "Equality", "Unequality", "LessThan", "StrictLessThan",
                  "Sin", "Cos", "Tan", "Cot", "Csc", "Sec", "ASin", "ACos", "ATan", "ASec", "ACsc", "ACot", "Sinh", "Cosh",
                  "Tanh", "Coth", "Sech", "Csch", "ASinh", "ACosh", "ATanh", "ASech", "ACoth", "ACsch", "Gamma", "Abs",
                  "Sign", "Erf", "Erfc", "LogGamma", "LambertW", "Dirichlet_eta", "Floor", "Ceiling", "Log", "Zeta",
                  "PrimePi", "Primorial", "Beta", "LowerGamma", "UpperGamma", "PolyGamma", "ATan2", "Max", "Min"}

C16_FLOATS = [0.5, 1.5, -2.5, 0.1, 0.2, 0.3, 1e-3, 123.456, -7.25, 3.0, 1e10, 1e-10, 2.0 ** 0.5, -0.75, 1.0, 2.0, -1.0, 10.0,
              1e15, 123456789012345.0, 1e16, 1e22, 1.2345678901234567e-200, 9.87654321e250, 5e-324, 1e-310, 0.0, -0.0,
              1.0 / 3.0, 2.0 / 3.0, 1e300, -1e-300, 0.1 + 0.2, 100.0, 1e5, 1e-5, 123456.789e3]


def _q(n, d):
    q = Fraction(n, d)
    return ["integer", q.numerator] if q.denominator == 1 else ["rational", q.numerator, q.denominator]


def c16_number(bits):
    k = bits.take(12)
    if k < 3:
        return ["integer", bits.take(25) - 12]
    if k == 3:
        return ["integer", (bits.take(2 ** 90) - 2 ** 89) if bits.take(2) else (1 - 2 * bits.take(2)) * (2 ** pick(bits, [31, 32, 63, 64, 65]) + bits.take(3) - 1)]
    if k in (4, 5):
        return _q(bits.take(25) - 12, 1 + bits.take(12))
    if k == 6:
        return _q(bits.take(2 ** 70) - 2 ** 69, 1 + bits.take(2 ** 40))
    if k == 7:
        re_, im = _q(bits.take(13) - 6, 1 + bits.take(4)), _q(bits.take(13) - 6, 1 + bits.take(4))
        return re_ if im == ["integer", 0] else ["complex", re_, im]
    if k == 8:
        return ["real_double", pick(bits, C16_FLOATS)]
    if k == 9:
        m = bits.take(10 ** 17)
        e = bits.take(40) - 20 if bits.take(4) else bits.take(560) - 290
        f = float("%d.%016de%d" % (m // 10 ** 16, m % 10 ** 16, e))
        return ["real_double", -f if bits.take(2) else f]
    if k == 10:
        im = pick(bits, [x for x in C16_FLOATS if x != 0])
        return ["complex_double", pick(bits, C16_FLOATS), im]
    return pick(bits, [["oo"], ["noo"], ["zoo"], ["nan"], ["constant", "I"], ["constant", "I"]])


def c16_leaf(bits):
    k = bits.take(8)
    if k < 3:
        return c16_number(bits)
    if k == 3:
        return ["constant", pick(bits, ["pi", "E", "EulerGamma", "Catalan", "GoldenRatio", "I"])]
    if k == 4:
        return ["symbol", pick(bits, SYMBOL_NAMES)]
    return ["symbol", pick(bits, SYMBOL_NAMES[:6])]


_COEFS = [["integer", -1], ["integer", -2], ["integer", 3], ["rational", 1, 2], ["rational", -3, 4], ["constant", "I"],
          ["complex", ["integer", 0], ["integer", -1]], ["complex", ["integer", 0], ["integer", 2]],
          ["complex", ["integer", 1], ["integer", 2]], ["complex", ["integer", -1], ["integer", -2]],
          ["complex", ["rational", 1, 2], ["rational", -1, 3]], ["real_double", 1.5], ["real_double", -0.5],
          ["complex_double", 1.0, -2.0], ["complex_double", -1.5, 0.25]]
_EXPS = [["integer", -1], ["integer", -2], ["integer", 2], ["integer", 3], ["rational", 1, 2], ["rational", -1, 2],
         ["rational", 2, 3], ["rational", -3, 2], ["rational", 1, 3], ["real_double", 0.5], ["real_double", -2.5],
         ["constant", "I"], ["complex", ["integer", 1], ["integer", 1]], ["symbol", "x"], ["neg", ["symbol", "y"]]]
_BASES = [["integer", 2], ["integer", -2], ["integer", -1], ["rational", 1, 2], ["rational", -2, 3], ["constant", "I"],
          ["complex", ["integer", 0], ["integer", -1]], ["complex", ["integer", 1], ["integer", 1]], ["constant", "E"],
          ["constant", "pi"], ["real_double", 2.5], ["real_double", -1.5], ["integer", 10]]
_LIST = lambda xs: ["list"] + list(xs)


def rsize(r):
    """upper bound of log10 |value| of a recipe when every symbol/constant is at most 2 in modulus (so the bound also
    covers sub-expressions in which the symbols cancel); inf when hopeless"""
    if isinstance(r, bool) or r is None:
        return 0.3
    if isinstance(r, int):
        return math.log10(abs(r) + 1) + 0.01
    if isinstance(r, float):
        if r != r or abs(r) == float("inf") or r == 0:
            return 0.3
        return abs(math.log10(abs(r))) + 0.3
    if not isinstance(r, list) or not r:
        return 0.3
    h = r[0]
    if h in ("symbol", "constant", "oo", "noo", "zoo", "nan", "true", "false", "dummy"):
        return 0.3
    a = [rsize(x) for x in r[1:] if not isinstance(x, str)]
    if h == "list":
        return max(a + [0.3])
    if h in ("integer", "real_double"):
        return a[0] if a else 0.3
    if h in ("rational", "complex", "complex_double"):
        return sum(a)
    if h in ("add", "sub"):
        return a[0] + a[1] + 0.31
    if h in ("mul", "div"):
        return a[0] + a[1]
    if h == "pow":
        return float("inf") if a[1] > 7 else (a[0] + 0.01) * 10 ** a[1]
    if h in ("add_vec", "mul_vec"):
        xs = [rsize(x) for x in r[1][1:]]
        return sum(xs) + 0.31 * len(xs)
    if h in P_GROWTH or h in ("levi_civita", "digamma", "trigamma"):
        m = max(a + [0.3])
        return float("inf") if m > 4 else 3.0 * 10 ** m
    return max(a + [0.3]) + 0.31


SIZE_LIMIT = 400.0


def _small(bits):
    return ["integer", bits.take(7)]


def _guard(op, args, bits):
    """keep exact evaluation cheap: growth functions get arguments bounded by ~100 (construction, not filter)"""
    if op in P_GROWTH or op in ("levi_civita", "digamma", "trigamma"):
        return [a if rsize(a) <= 2.0 else _small(bits) for a in args]
    return args


def c16_pow(a, b, bits):
    """pow with a resource guard: the result stays below ~10**400"""
    if rsize(["pow", a, b]) > SIZE_LIMIT:
        b = pick(bits, _EXPS[:11])
        if rsize(["pow", a, b]) > SIZE_LIMIT:
            a = ["symbol", "x"]
    return ["pow", a, b]


def c16_arith(plan):
    if not isinstance(plan, list):
        return c16_leaf(Bits(plan))
    bits = Bits(plan[0])
    kids = plan[1:]
    n = len(kids)
    k = bits.take(20)
    if n == 1:
        x = c16_arith(kids[0])
        if k < 2:
            return ["neg", x]
        if k < 5:
            return ["mul", pick(bits, _COEFS), x]
        if k < 8:
            return c16_pow(x, pick(bits, _EXPS), bits)
        if k < 10:
            return c16_pow(pick(bits, _BASES), x, bits)
        if k < 15:
            f = pick(bits, P_FUN1)
            return [f] + _guard(f, [x], bits)
        if k < 16:
            return ["function_symbol", pick(bits, P_FSYM), _LIST([x])]
        if k < 18:
            return ["add", pick(bits, _COEFS), x]
        return ["piecewise", _LIST([_LIST([x, c16_bool(kids[0] if not isinstance(kids[0], list) else kids[0][0])]),
                                    _LIST([["symbol", "y"], ["true"]])])]
    if n == 2:
        x, y = c16_arith(kids[0]), c16_arith(kids[1])
        if k < 10:
            op = pick(bits, ["add", "sub", "mul", "div", "mul", "div", "add"])
            return [op, x, y]
        if k < 14:
            return c16_pow(x, y, bits)
        if k < 16:
            f = pick(bits, P_FUN2)
            return [f] + _guard(f, [x, y], bits)
        if k < 17:
            return [pick(bits, P_NARY), _LIST([x, y])]
        if k < 18:
            return ["function_symbol", pick(bits, P_FSYM), _LIST([x, y])]
        c = [pick(bits, ["Lt", "Le", "Gt", "Ge", "Eq", "Ne"]), c16_leaf(Bits(bits.take(2 ** 30))), c16_leaf(Bits(bits.take(2 ** 30)))]
        return ["piecewise", _LIST([_LIST([x, c]), _LIST([y, ["true"] if bits.take(2) else ["not", c]])])]
    xs = [c16_arith(q) for q in kids]
    if k < 4:
        return [pick(bits, ["add_vec", "mul_vec"]), _LIST(xs)]
    if k < 7:
        return ["div", ["mul", xs[0], xs[1]], xs[2]]
    if k < 9:
        return ["div", xs[0], ["mul", xs[1], xs[2]]]
    if k < 11:
        return c16_pow(xs[0], ["div", xs[1], xs[2]], bits)
    if k < 13:
        return c16_pow(["mul", xs[0], xs[1]], xs[2], bits)
    if k < 15:
        return c16_pow(["add", xs[0], xs[1]], xs[2], bits)
    if k < 16:
        return ["sub", xs[0], ["add", xs[1], xs[2]]]
    if k < 17:
        return ["mul", ["add", xs[0], xs[1]], xs[2]]
    if k < 18:
        return [pick(bits, P_NARY), _LIST(xs)]
    if k < 19:
        return ["function_symbol", pick(bits, P_FSYM), _LIST(xs)]
    return ["piecewise", _LIST([_LIST([xs[0], [pick(bits, ["Lt", "Le", "Eq", "Ne"]), xs[1], xs[2]]]), _LIST([xs[1], ["true"]])])]


def c16_bool(plan):
    if not isinstance(plan, list):
        bits = Bits(plan)
        k = bits.take(8)
        if k == 0:
            return ["true"] if bits.take(2) else ["false"]
        return [pick(bits, ["Lt", "Le", "Gt", "Ge", "Eq", "Ne"]), c16_leaf(Bits(bits.take(2 ** 30))), c16_leaf(Bits(bits.take(2 ** 30)))]
    bits = Bits(plan[0])
    kids = plan[1:]
    n = len(kids)
    k = bits.take(8)
    if n == 1:
        if k < 5:
            return ["not", c16_bool(kids[0])]
        return [pick(bits, ["and", "or", "xor"]), _LIST([c16_bool(kids[0]), c16_bool(bits.take(2 ** 40))])]
    if n == 2 and k < 4:
        return [pick(bits, ["Lt", "Le", "Gt", "Ge", "Eq", "Ne"]), c16_arith(kids[0]), c16_arith(kids[1])]
    return [pick(bits, ["and", "or", "xor", "nand", "nor", "xnor", "and", "or", "xor"]), _LIST([c16_bool(q) for q in kids])]


def c16_item_from(plan, sel):
    bits = Bits(sel)
    if bits.take(6) == 5:
        return c16_bool(plan)
    return c16_arith(plan)


def c16_item(max_leaves=8):
    return st.builds(c16_item_from, plans(max_leaves), st.integers(0, 2 ** 20))


def alt_paths(r):
    """the same value along another construction path: sub -> add of neg, div -> mul by pow(-1), neg -> mul by -1,
    sqrt/cbrt/exp -> pow, n-ary -> reversed binary chain, Gt/Ge -> swapped Lt/Le"""
    if not isinstance(r, list) or not r or not isinstance(r[0], str):
        return r
    h = r[0]
    a = [alt_paths(x) for x in r[1:]]
    if h == "list":
        return ["list"] + a
    if h == "sub":
        return ["add", a[0], ["mul", ["integer", -1], a[1]]]
    if h == "div":
        return ["mul", a[0], ["pow", a[1], ["integer", -1]]]
    if h == "neg":
        return ["mul", ["integer", -1], a[0]]
    if h == "sqrt":
        return ["pow", a[0], ["rational", 1, 2]]
    if h == "cbrt":
        return ["pow", a[0], ["rational", 1, 3]]
    if h == "exp":
        return ["pow", ["constant", "E"], a[0]]
    if h in ("add_vec", "mul_vec") and len(a[0]) > 2:
        b = "add" if h == "add_vec" else "mul"
        items = list(reversed(a[0][1:]))
        acc = items[0]
        for x in items[1:]:
            acc = [b, x, acc]
        return acc
    if h == "Gt":
        return ["Lt", a[1], a[0]]
    if h == "Ge":
        return ["Le", a[1], a[0]]
    if h == "log2":
        return ["div", ["log", a[0]], ["log", a[1]]]
    return [h] + a


def dump_heads(d, acc=None):
    """class names occurring in a raw dump"""
    acc = acc if acc is not None else set()
    if isinstance(d, list):
        if d and isinstance(d[0], str) and d[0][:1].isupper() and not (len(d) == 2 and d[0] == "Symbol"):
            acc.add(d[0])
        if d and d[0] in ("Symbol", "Constant", "Integer", "Rational", "RealDouble", "ComplexDouble"):
            acc.add(d[0])
            return acc
        if d and d[0] == "FunctionSymbol":
            acc.add(d[0])
            for x in d[2:]:
                dump_heads(x, acc)
            return acc
        for x in d:
            dump_heads(x, acc)
    return acc


def dump_doubles(d, acc=None):
    acc = acc if acc is not None else []
    if isinstance(d, list):
        if d and d[0] == "RealDouble":
            acc.append(d[1])
        elif d and d[0] == "ComplexDouble":
            acc += [d[1], d[2]]
        elif d and d[0] in ("Symbol", "Constant", "Integer", "Rational"):
            pass
        else:
            for x in d:
                dump_doubles(x, acc)
    return acc


def _isnum(d):
    return isinstance(d, list) and d and d[0] in ("Integer", "Rational", "Complex", "RealDouble", "ComplexDouble")


def _negative(d):
    if d[0] in ("Integer", "Rational"):
        return d[1].startswith("-")
    if d[0] == "RealDouble":
        return d[1].startswith("-")
    return False


def paren_features(d, acc=None, depth=0):
    """which parenthesisation situations of StrPrinter a dump exercises"""
    acc = acc if acc is not None else set()
    if not isinstance(d, list) or not d:
        return acc
    h = d[0]
    if h == "Pow":
        b, e = d[1], d[2]
        if b[0] in ("Add", "Mul", "Pow", "Rational", "Complex", "ComplexDouble") or (_isnum(b) and _negative(b)):
            acc.add("pow_base:" + b[0])
        if e[0] in ("Add", "Mul", "Pow", "Rational", "Complex", "ComplexDouble") or (_isnum(e) and _negative(e)):
            acc.add("pow_exp:" + e[0])
        paren_features(b, acc)
        paren_features(e, acc)
        return acc
    if h == "Mul":
        coef, terms = d[1], d[2]
        if coef[0] in ("Rational", "Complex", "ComplexDouble"):
            acc.add("mul_coef:" + coef[0])
        dens = 0
        for base, ex in terms:
            if ex[0] in ("Integer", "Rational") and ex[1].startswith("-"):
                dens += 1
                if base[0] in ("Add",):
                    acc.add("den_add")
            if base[0] == "Add":
                acc.add("mul_add_factor")
            if ex != ["Integer", "1"] and ex != ["Integer", "-1"]:
                paren_features(["Pow", base, ex], acc)
            else:
                paren_features(base, acc)
        if dens >= 2:
            acc.add("quotient_of_products")
        return acc
    if h == "Add":
        coef, terms = d[1], d[2]
        if coef[0] in ("Complex", "ComplexDouble"):
            acc.add("add_coef_complex")
        for t, c in terms:
            if c[0] in ("Rational", "Complex", "ComplexDouble") or _negative(c):
                acc.add("add_term_coef:" + ("neg" if _negative(c) else c[0]))
            paren_features(t, acc)
        return acc
    if h in ("Symbol", "Constant", "Integer", "Rational", "RealDouble", "ComplexDouble"):
        return acc
    for x in kids(d):
        paren_features(x, acc)
    return acc


def kids(d):
    """sub-lists of a dump node: everything after a string head, or every element of a plain list"""
    return d[1:] if d and isinstance(d[0], str) else d


def power_pairs(d, acc=None):
    """all (base, exponent) pairs of a dump: Pow nodes and the entries of Mul dictionaries"""
    acc = acc if acc is not None else []
    if isinstance(d, list) and d:
        if d[0] == "Pow":
            acc.append((d[1], d[2]))
        elif d[0] == "Mul":
            for base, ex in d[2]:
                acc.append((base, ex))
        if d[0] in ("Symbol", "Constant", "Integer", "Rational", "RealDouble", "ComplexDouble"):
            return acc
        for x in kids(d):
            power_pairs(x, acc)
    return acc


NEG_INF = ["Infty", ["Integer", "-1"]]


def has_neginf_base(d):
    """-oo raised to a power (exponent other than 1)"""
    return any(b == NEG_INF and e != ["Integer", "1"] for b, e in power_pairs(d))


def has_pow_of_reciprocal(d):
    """powers that Mul::power_num stores without passing them through pow(): (x**-1)**q (pow() returns x**-q) and
    E**<double> (pow() evaluates it to a double)"""
    return any((isinstance(b, list) and b[:1] == ["Pow"] and b[2] == ["Integer", "-1"] and e != ["Integer", "1"])
               or (b == ["Constant", "E"] and e[0] in ("RealDouble", "ComplexDouble"))
               for b, e in power_pairs(d))


# --------------------------------------------------------------------------- C44: alternative printers
# symbol / function-symbol names: plain, LaTeX-structured (underscores, greek), XML-special, long, valid UTF-8
C44_NAMES = ["x", "y", "z", "t", "alpha", "beta", "Gamma", "x_1", "x_12", "_a", "a_", "a__b", "x_y_z", "_", "__", "theta_i", "X1",
             "a" * 80, "x'", "lambda", "mu_nu", "n0", "Omega_0_1",
             "a<b", "a&b", "a>b", "x\"y", "<x>", "&amp;", "]]>", "a&&b", "<", "&lt",
             u8("α"), u8("ü"), u8("β") + "_1", u8("変数"), u8("x̂"), u8("𝑥")]
C44_XML_SPECIAL = set("<>&")
LIB_EXC = {"NotImplementedError", "DivisionByZeroError", "DomainError", "ParseError", "SerializationError", "SymEngineException"}
C44_FUN1 = P_FUN1 + ["truncate", "conjugate", "digamma", "trigamma", "unevaluated_expr"]
C44_FUN2 = P_FUN2 + ["kronecker_delta"]
C44_NARY = ["max", "min", "levi_civita"]
C44_GROWTH = P_GROWTH | {"levi_civita", "digamma", "trigamma"}
_SETS0 = [["emptyset"], ["universalset"], ["reals"], ["rationals"], ["integers"], ["naturals"], ["naturals0"], ["complexes"]]
_RELS = ["Lt", "Le", "Gt", "Ge", "Eq", "Ne"]


def c44_leaf(bits):
    k = bits.take(10)
    if k < 3:
        return c16_number(bits)
    if k == 3:
        # (inf / nan doubles only in the deterministic table: floor/ceiling/truncate of a non-finite double kill the
        # process inside GMP -- an evaluation defect outside the printers)
        return pick(bits, [["real_double", -0.0], ["integer", 10 ** 60], ["rational", -(10 ** 30), 7], ["complex", ["rational", -1, 2], ["rational", -3, 4]],
                           ["complex", ["integer", 0], ["integer", 5]], ["complex", ["integer", 2], ["integer", -7]],
                           ["complex", ["integer", 0], ["rational", 2, 3]]])
    if k == 4:
        return ["constant", pick(bits, ["pi", "E", "EulerGamma", "Catalan", "GoldenRatio", "I"])]
    if k == 5:
        return ["symbol", pick(bits, C44_NAMES)]
    return ["symbol", pick(bits, C44_NAMES[:8])]


def c44_arith(plan):
    if not isinstance(plan, list):
        return c44_leaf(Bits(plan))
    bits = Bits(plan[0])
    kids = plan[1:]
    n = len(kids)
    k = bits.take(24)
    if n == 1:
        x = c44_arith(kids[0])
        if k < 2:
            return ["neg", x]
        if k < 4:
            return ["mul", pick(bits, _COEFS), x]
        if k < 7:
            return c16_pow(x, pick(bits, _EXPS), bits)
        if k < 9:
            return c16_pow(pick(bits, _BASES), x, bits)
        if k < 15:
            f = pick(bits, C44_FUN1)
            return [f] + _guard(f, [x], bits)
        if k < 16:
            return ["function_symbol", pick(bits, C44_NAMES), _LIST([x])]
        if k < 17:
            return ["add", pick(bits, _COEFS), x]
        if k < 18:
            return ["div", ["integer", 1], ["add", ["integer", 1], x]]
        if k < 20:
            return ["diff", ["function_symbol", "f", _LIST([x, ["symbol", "y"]])], ["symbol", pick(bits, ["x", "y"])]]
        if k < 21:
            return ["diff", ["diff", ["function_symbol", "g", _LIST([["symbol", "x"], ["symbol", "y"]])], ["symbol", "x"]],
                    ["symbol", pick(bits, ["x", "y"])]]
        if k < 22:
            return ["function_symbol", pick(bits, ["f", "g"]), _LIST([])]
        return ["piecewise", _LIST([_LIST([x, c44_bool(kids[0] if not isinstance(kids[0], list) else kids[0][0])]),
                                    _LIST([["symbol", "y"], ["true"]])])]
    if n == 2:
        x, y = c44_arith(kids[0]), c44_arith(kids[1])
        if k < 10:
            return [pick(bits, ["add", "sub", "mul", "div", "mul", "div", "add"]), x, y]
        if k < 14:
            return c16_pow(x, y, bits)
        if k < 17:
            f = pick(bits, C44_FUN2)
            return [f] + _guard(f, [x, y], bits)
        if k < 19:
            f = pick(bits, C44_NARY)
            return [f, _LIST(_guard(f, [x, y], bits))]
        if k < 20:
            return ["function_symbol", pick(bits, C44_NAMES), _LIST([x, y])]
        c = [pick(bits, _RELS), x, c44_leaf(Bits(bits.take(2 ** 30)))]
        return ["piecewise", _LIST([_LIST([x, c]), _LIST([y, ["true"] if bits.take(2) else ["not", c]])])]
    xs = [c44_arith(q) for q in kids]
    if k < 4:
        return [pick(bits, ["add_vec", "mul_vec"]), _LIST(xs)]
    if k < 7:
        return ["div", ["mul", xs[0], xs[1]], xs[2]]
    if k < 9:
        return ["div", xs[0], ["mul", xs[1], xs[2]]]
    if k < 11:
        return c16_pow(xs[0], ["div", xs[1], xs[2]], bits)
    if k < 13:
        return c16_pow(["div", xs[0], xs[1]], xs[2], bits)
    if k < 15:
        return c16_pow(["add", xs[0], xs[1]], xs[2], bits)
    if k < 17:
        return ["sqrt", ["add", xs[0], ["div", xs[1], xs[2]]]]
    if k < 19:
        f = pick(bits, C44_NARY)
        return [f, _LIST(_guard(f, xs, bits))]
    if k < 21:
        return ["function_symbol", pick(bits, C44_NAMES), _LIST(xs)]
    return ["piecewise", _LIST([_LIST([xs[0], [pick(bits, _RELS), xs[1], xs[2]]]), _LIST([xs[1], c44_bool(bits.take(2 ** 60))]),
                                _LIST([xs[2], ["true"]])])]


def c44_bool(plan):
    if not isinstance(plan, list):
        bits = Bits(plan)
        k = bits.take(8)
        if k == 0:
            return ["true"] if bits.take(2) else ["false"]
        if k == 1:
            return ["contains", c44_leaf(Bits(bits.take(2 ** 30))), c44_set(bits.take(2 ** 40))]
        return [pick(bits, _RELS), c44_leaf(Bits(bits.take(2 ** 30))), c44_leaf(Bits(bits.take(2 ** 30)))]
    bits = Bits(plan[0])
    kids = plan[1:]
    n = len(kids)
    k = bits.take(8)
    if n == 1:
        if k < 4:
            return ["not", c44_bool(kids[0])]
        if k < 6:
            return ["contains", c44_arith(kids[0]), c44_set(bits.take(2 ** 40))]
        return [pick(bits, ["and", "or", "xor"]), _LIST([c44_bool(kids[0]), c44_bool(bits.take(2 ** 40))])]
    if n == 2 and k < 4:
        return [pick(bits, _RELS), c44_arith(kids[0]), c44_arith(kids[1])]
    return [pick(bits, ["and", "or", "xor", "nand", "nor", "xnor", "and", "or", "xor"]), _LIST([c44_bool(q) for q in kids])]


def _endpoint(bits):
    return pick(bits, [["integer", bits.take(9) - 4], _q(bits.take(9) - 4, 1 + bits.take(3)), ["noo"], ["oo"], ["real_double", 0.5],
                       ["integer", bits.take(20)]])


def simple_set(bits):
    """intervals, finite sets of atoms, named sets: the operands of union / intersection / complement (set algebra on
    ConditionSet / ImageSet operands is the business of the set properties, not of the printers)"""
    k = bits.take(8)
    if k < 2:
        return pick(bits, [["emptyset"], ["universalset"], ["reals"], ["integers"], ["reals"], ["integers"]])
    if k < 6:
        return ["interval", _endpoint(bits), _endpoint(bits), bool(bits.take(2)), bool(bits.take(2))]
    return ["finiteset", _LIST([c44_leaf(Bits(bits.take(2 ** 30))) for _ in range(1 + bits.take(3))])]


def c44_set(plan):
    if not isinstance(plan, list):
        bits = Bits(plan)
        k = bits.take(8)
        if k < 1:
            return pick(bits, _SETS0)
        if k < 5:
            return simple_set(bits)
        if k < 6:
            return [pick(bits, ["set_union", "set_intersection"]), _LIST([simple_set(bits), simple_set(bits)])]
        if k < 7:
            return ["set_complement", simple_set(bits), simple_set(bits)]
        return ["conditionset", ["symbol", "x"], [pick(bits, _RELS), ["symbol", "x"], c44_leaf(Bits(bits.take(2 ** 30)))]]
    bits = Bits(plan[0])
    kids = plan[1:]
    n = len(kids)
    k = bits.take(8)
    if n == 1:
        if k < 3:
            return ["finiteset", _LIST([c44_arith(kids[0]), ["symbol", "y"]])]
        if k < 5:
            return ["imageset", ["symbol", "x"], c44_arith(kids[0]), simple_set(bits)]
        if k < 7:
            return ["conditionset", ["symbol", "x"], c44_bool(kids[0])]
        return ["set_union", _LIST([["finiteset", _LIST([c44_arith(kids[0])])], simple_set(bits)])]
    if k < 5:
        return ["finiteset", _LIST([c44_arith(q) for q in kids])]
    return [pick(bits, ["set_union", "set_intersection"]), _LIST([simple_set(Bits(q if not isinstance(q, list) else q[0])) for q in kids])]


def c44_item_from(plan, sel):
    bits = Bits(sel)
    k = bits.take(8)
    if k == 6:
        return c44_bool(plan)
    if k == 7:
        return c44_set(plan)
    return c44_arith(plan)


def c44_item(max_leaves=12):
    return st.builds(c44_item_from, plans(max_leaves), st.integers(0, 2 ** 20))


def recipe_names(r, acc=None):
    """symbol and function-symbol names used by a recipe"""
    acc = acc if acc is not None else set()
    if isinstance(r, list) and r:
        if r[0] in ("symbol", "function_symbol", "dummy") and len(r) >= 2 and isinstance(r[1], str):
            acc.add(r[1])
        for x in r[1:]:
            recipe_names(x, acc)
    return acc


def recipe_depth(r):
    if not isinstance(r, list) or not r:
        return 0
    if r[0] in ("symbol", "integer", "rational", "real_double", "complex_double", "constant"):
        return 1
    if r[0] == "list":
        return max([recipe_depth(x) for x in r[1:]] + [0])
    return 1 + max([recipe_depth(x) for x in r[1:]] + [0])


# ---- LaTeX: groups must nest properly:  { }   \left<delim> \right<delim>   \begin{env} \end{env}
LATEX_DELIMS = set("()[]|/.<>") | {"\\{", "\\}", "\\|", "\\langle", "\\rangle", "\\lfloor", "\\rfloor", "\\lceil", "\\rceil",
                                   "\\vert", "\\Vert", "\\backslash", "\\uparrow", "\\downarrow"}


def _latex_tokens(s):
    i, n = 0, len(s)
    while i < n:
        c = s[i]
        if c == "\\":
            j = i + 1
            if j < n and s[j].isalpha():
                while j < n and s[j].isalpha():
                    j += 1
                yield s[i:j]
                i = j
            else:
                yield s[i:i + 2]
                i += 2
        else:
            yield c
            i += 1


def latex_problem(s):
    """None when the groups of a LaTeX string nest properly, else a description"""
    toks = [t for t in _latex_tokens(s)]
    stack = []
    i = 0
    while i < len(toks):
        t = toks[i]
        if t in ("\\left", "\\right"):
            j = i + 1
            while j < len(toks) and toks[j].isspace():
                j += 1
            d = toks[j] if j < len(toks) else None
            if d not in LATEX_DELIMS:
                return "%s is followed by %r, which is not a delimiter (a bare brace opens/closes a group instead)" % (t, d)
            if t == "\\left":
                stack.append("\\left")
            else:
                if not stack or stack[-1] != "\\left":
                    return "\\right without matching \\left (open: %s)" % (stack[-1] if stack else "nothing")
                stack.pop()
            i = j + 1
            continue
        if t in ("\\begin", "\\end"):
            j = i + 1
            if j >= len(toks) or toks[j] != "{":
                return "%s without {environment}" % t
            k = j + 1
            name = ""
            while k < len(toks) and toks[k] != "}":
                name += toks[k]
                k += 1
            if k >= len(toks):
                return "%s{%s unterminated" % (t, name)
            if t == "\\begin":
                stack.append("env:" + name)
            else:
                if not stack or stack[-1] != "env:" + name:
                    return "\\end{%s} does not match %s" % (name, stack[-1] if stack else "nothing")
                stack.pop()
            i = k + 1
            continue
        if t == "{":
            stack.append("{")
        elif t == "}":
            if not stack or stack[-1] != "{":
                return "} closes %s" % (stack[-1] if stack else "nothing")
            stack.pop()
        i += 1
    if stack:
        return "unclosed %s" % stack[-1]
    return None


def from_driver_utf8(s):
    """driver strings are bytes in latin-1 clothing: give the unicode text (None when not valid UTF-8)"""
    try:
        return s.encode("latin-1").decode("utf-8")
    except (UnicodeDecodeError, UnicodeEncodeError):
        return None


def unicode_problem(text):
    """rows of the box must have one common width (counted in code points, the printer's own convention)"""
    rows = text.split("\n")
    widths = [len(r) for r in rows]
    if len(set(widths)) > 1:
        return "rows have widths %s" % widths
    return None


def paren_problem(s):
    depth = 0
    for c in s:
        if c == "(":
            depth += 1
        elif c == ")":
            depth -= 1
            if depth < 0:
                return "unbalanced )"
    return "unbalanced (" if depth else None


# ---- SBML fragment (printers/sbml.cpp names  x  parser/sbml/sbml_parser.cpp tables)
SBML_HEADS = {"Integer", "Rational", "RealDouble", "Symbol", "Constant", "Infty", "NaN", "Add", "Mul", "Pow", "FunctionSymbol",
              "Piecewise", "BooleanAtom", "And", "Or", "Xor", "Not", "Equality", "Unequality", "LessThan", "StrictLessThan",
              "Sin", "Cos", "Tan", "Cot", "Csc", "Sec", "ASin", "ACos", "ATan", "ASec", "ACsc", "ACot", "Sinh", "Cosh", "Tanh",
              "Coth", "Sech", "Csch", "ASinh", "ACosh", "ATanh", "ASech", "ACoth", "ACsch", "Gamma", "Abs", "Floor", "Ceiling",
              "Log", "Max", "Min"}
SBML_RESERVED_IDENT = {"pi", "exponentiale", "avogadro", "time", "inf", "infinity", "nan", "notanumber", "true", "false"}
SBML_FUNC_NAMES = {"sin", "cos", "tan", "cot", "csc", "sec", "asin", "arcsin", "acos", "arccos", "atan", "arctan", "asec", "arcsec",
                   "acsc", "arccsc", "acot", "arccot", "sinh", "cosh", "tanh", "coth", "sech", "csch", "asinh", "arcsinh", "acosh",
                   "arccosh", "atanh", "arctanh", "asech", "arcsech", "acoth", "arccoth", "acsch", "arccsch", "sqrt", "abs", "exp",
                   "floor", "ceil", "ceiling", "ln", "log", "log10", "factorial", "root", "sqr", "minus", "divide", "pow", "power",
                   "max", "min", "plus", "times", "not", "eq", "neq", "geq", "gt", "leq", "lt", "xor", "and", "or", "piecewise"}


def dump_atoms(d, acc=None):
    """(kind, payload) of symbols, constants, function symbols, infinities in a dump"""
    acc = acc if acc is not None else []
    if isinstance(d, list) and d:
        if d[0] in ("Symbol", "Constant"):
            acc.append((d[0], d[1]))
            return acc
        if d[0] == "FunctionSymbol":
            acc.append((d[0], d[1]))
            for x in d[2:]:
                dump_atoms(x, acc)
            return acc
        if d[0] == "Infty":
            acc.append(("Infty", d[1]))
            return acc
        if d[0] in ("Integer", "Rational", "RealDouble", "ComplexDouble"):
            return acc
        for x in kids(d):
            dump_atoms(x, acc)
    return acc


def sbml_identifier_ok(name):
    return re.fullmatch(r"[A-Za-z_\x80-\xff][A-Za-z_0-9\x80-\xff]*", name) is not None


def in_sbml_fragment(d):
    """(True, None) or (False, reason)"""
    heads = dump_heads(d)
    out = heads - SBML_HEADS
    if out:
        return False, "class:" + sorted(out)[0]
    for kind, p in dump_atoms(d):
        if kind == "Symbol" and (not sbml_identifier_ok(p) or p.lower() in SBML_RESERVED_IDENT):
            return False, "symbol_name"
        if kind == "FunctionSymbol" and (not sbml_identifier_ok(p) or p.lower() in SBML_FUNC_NAMES):
            return False, "function_name"
        if kind == "Constant" and p not in ("pi", "E"):
            return False, "constant:" + p
        if kind == "Infty" and p == ["Integer", "0"]:
            return False, "zoo"
    return True, None


def has_nested_add_unit(d):
    """an Add holding another Add as a term with coefficient 1 (non-canonical: handle_minus of the trigonometric /
    hyperbolic constructors negates -1*(a+b) inside a sum without merging it)"""
    if isinstance(d, list) and d:
        if d[0] == "Add":
            for t, c in d[2]:
                if isinstance(t, list) and t[:1] == ["Add"] and c == ["Integer", "1"]:
                    return True
        if d[0] in ("Symbol", "Constant", "Integer", "Rational", "RealDouble", "ComplexDouble"):
            return False
        return any(has_nested_add_unit(x) for x in kids(d))
    return False
