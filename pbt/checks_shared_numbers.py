"""representative numbers of every kind (used by C06 table and by the structured pools)"""
INF = float("inf")
NANF = float("nan")
REPS = {
    "Integer": [["integer", n] for n in (0, 1, -1, 2, -2, 3, 2 ** 70, -(2 ** 70), 2 ** 64, 2 ** 64 + 1, 1 - 2 ** 64)],
    "Rational": [["rational", 1, 2], ["rational", -1, 2], ["rational", 3, 2], ["rational", -3, 2], ["rational", 1, 3],
                 ["rational", 2 ** 64 + 1, 2], ["rational", 1, 2 ** 64 + 1]],
    "Complex": [["complex", ["integer", 0], ["integer", 1]], ["complex", ["integer", 0], ["integer", -2]],
                ["complex", ["integer", 1], ["integer", 1]], ["complex", ["rational", 1, 2], ["rational", -3, 2]],
                ["complex", ["integer", -1], ["integer", -1]]],
    "RealDouble": [["real_double", f] for f in (0.0, -0.0, 1.0, -1.0, 1.5, -1.5, 0.5, 2.0, INF, -INF, NANF, 1e308, 5e-324)],
    "ComplexDouble": [["complex_double", 1.5, 0.5], ["complex_double", 0.0, 1.0], ["complex_double", -2.0, -0.25],
                      ["complex_double", 0.0, 0.0], ["complex_double", -0.0, 0.0], ["complex_double", 0.0, -0.0]],
    "Infty": [["oo"], ["noo"], ["zoo"]],
    "NaN": [["nan"]],
}
