#!/usr/bin/env python3
"""Regenerates the committed seed corpus and dictionary of the C18 fuzz target (drv/fz_parse.cpp):

    python3 corpus/gen_c18.py          (writes corpus/C18/* and corpus/C18.dict; deterministic)

Sources: every C string literal of /repo/symengine/tests/basic/test_parser.cpp and
test_sbml_parser.cpp (mode bytes 0/1 resp. 2), strings of a small random grammar (fixed seed),
truncations of them, a few history units (mode | 0x80, strings joined by 0x1e), and a dictionary of
operators / function names / constants read from the parser sources' own tables.
Unit layout: see drv/fz_parse.cpp."""
import hashlib
import os
import random
import re
import shutil

REPO = os.environ.get("VERIF_REPO", "/repo")
HERE = os.path.dirname(os.path.abspath(__file__))
OUT = os.path.join(HERE, "C18")

LIT = re.compile(r'"((?:[^"\\\n]|\\.)*)"')


def unescape(s):
    return bytes(s, "latin-1").decode("unicode_escape").encode("latin-1", "replace")


def literals(path):
    out = []
    with open(path, encoding="utf-8", errors="replace") as f:
        for line in f:
            if line.lstrip().startswith("#include"):
                continue
            for m in LIT.finditer(line):
                try:
                    b = unescape(m.group(1))
                except Exception:
                    continue
                if 0 < len(b) <= 120:
                    out.append(b)
    return sorted(set(out))


def table_names(path):
    """{"name", ...} entries of the function / constant maps in a parser source"""
    names = set()
    with open(path, encoding="utf-8", errors="replace") as f:
        for m in re.finditer(r'\{\s*"([A-Za-z_][A-Za-z_0-9]*)"\s*,', f.read()):
            names.add(m.group(1))
    return sorted(names)


def grammar(rng, names1, sbml):
    atoms = ["x", "y", "z1", "_a", "2", "0", "10", "3.5", "1e3", "2.", ".5", "1e-2", "007", "0x10", "2x", "3.5y", "1e2z",
             "pi", "E", "I", "oo", "nan", "True", "False", "zoo", "inf", "\xfc"]
    if sbml:
        atoms += ["time", "avogadro", "exponentiale", "true", "false", "infinity", "notanumber"]
    binops = ["+", "-", "*", "/", "**", "^", "<", ">", "<=", ">=", "==", "!=", " + ", "*-"]
    binops += ["&&", "||", "%"] if sbml else ["|", "&", "@"]

    def e(d):
        r = rng.random()
        if d <= 0 or r < 0.3:
            return rng.choice(atoms)
        if r < 0.6:
            return e(d - 1) + rng.choice(binops) + e(d - 1)
        if r < 0.7:
            return "(" + e(d - 1) + ")"
        if r < 0.75:
            return rng.choice(["-", "+", "!" if sbml else "~"]) + e(d - 1)
        if r < 0.95:
            n = rng.choice(names1)
            k = rng.choice([1, 1, 1, 2, 2, 3, 0 if sbml else 1])
            return n + "(" + ", ".join(e(d - 1) for _ in range(k)) + ")"
        if sbml:
            return "piecewise(" + e(d - 1) + ", " + e(d - 1) + "<" + e(d - 1) + ", " + e(d - 1) + ")"
        return "Piecewise((" + e(d - 1) + ", " + e(d - 1) + "<" + e(d - 1) + "), (" + e(d - 1) + ", True))"
    return e(rng.randint(1, 4))


def main():
    rng = random.Random(18)
    tp = literals(os.path.join(REPO, "symengine/tests/basic/test_parser.cpp"))
    ts = literals(os.path.join(REPO, "symengine/tests/basic/test_sbml_parser.cpp"))
    n_parse = table_names(os.path.join(REPO, "symengine/parser/parser.cpp"))
    n_sbml = table_names(os.path.join(REPO, "symengine/parser/sbml/sbml_parser.cpp"))
    units = set()
    for b in tp:
        units.add(bytes([0]) + b)
        if b"^" in b:
            units.add(bytes([1]) + b)
    for b in ts:
        units.add(bytes([2]) + b)
    gen_p = [grammar(rng, n_parse + ["f", "g"], False).encode("latin-1") for _ in range(160)]
    gen_s = [grammar(rng, n_sbml + ["f", "g"], True).encode("latin-1") for _ in range(120)]
    for b in gen_p:
        if len(b) <= 120:
            units.add(bytes([rng.choice([0, 0, 1])]) + b)
    for b in gen_s:
        if len(b) <= 120:
            units.add(bytes([2]) + b)
    # truncated / damaged strings
    for b in rng.sample(gen_p + tp, 40):
        if len(b) > 3:
            units.add(bytes([0]) + b[:rng.randint(1, len(b) - 1)])
    for b in rng.sample(gen_s + ts, 30):
        if len(b) > 3:
            units.add(bytes([2]) + b[:rng.randint(1, len(b) - 1)])
    units.add(bytes([0]) + b"x\x00+")          # embedded NUL
    units.add(bytes([2]) + b"a\x00)")
    units.add(bytes([0]))
    units.add(bytes([2]))
    # histories: valid / invalid / truncated strings through one parser object
    for k in range(40):
        sb = k % 3 == 2
        pool = (gen_s + ts) if sb else (gen_p + tp)
        parts = []
        for _ in range(rng.randint(2, 6)):
            b = rng.choice(pool)
            if rng.random() < 0.3 and len(b) > 2:
                b = b[:rng.randint(1, len(b) - 1)]
            parts.append(b.replace(b"\x1e", b""))
        u = bytes([0x80 | (2 if sb else rng.choice([0, 1]))]) + b"\x1e".join(parts)
        if len(u) <= 250:
            units.add(u)
    if os.path.isdir(OUT):
        shutil.rmtree(OUT)
    os.makedirs(OUT)
    for u in sorted(units):
        with open(os.path.join(OUT, hashlib.sha1(u).hexdigest()[:16]), "wb") as f:
            f.write(u)
    toks = ["+", "-", "*", "/", "**", "^", "@", "(", ")", ",", "<", ">", "<=", ">=", "==", "!=", "|", "&", "~", "!", "&&",
            "||", "%", ".", "e", "E", "1e", "0x", "\\x1e", " ", "Piecewise", "piecewise"]
    with open(os.path.join(HERE, "C18.dict"), "w") as f:
        f.write("# generated by corpus/gen_c18.py: operators and the names of the parser tables\n")
        for t in toks:
            f.write('"%s"\n' % t.replace("\\", "\\\\").replace('"', '\\"') if not t.startswith("\\x") else '"%s"\n' % t)
        for n in sorted(set(n_parse + n_sbml)):
            f.write('"%s"\n' % n)
            f.write('"%s("\n' % n)
    print("wrote %d units, %d dictionary names" % (len(units), len(set(n_parse + n_sbml))))


if __name__ == "__main__":
    main()
