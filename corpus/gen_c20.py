#!/usr/bin/env python3
"""Regenerates the committed seed corpus of the C20 fuzz target (drv/fz_loads.cpp):

    python3-vt corpus/gen_c20.py        (writes corpus/C20/*; deterministic: derandomized Hypothesis + fixed seeds)

Units: mode-A units "\\x00" + Basic::dumps(e) for ~300 expressions of the C19 generator (checks/c19.py: every
serialisable class, shared nodes, special doubles) written by the driver op `save_unit` (main variant, driver_ser), plus
a few mode-B units (byte 0 odd + op-program bytes for the structure-aware half) from a fixed-seed RNG.
The address fields inside the dumps are whatever the driver process had; loads only uses them as keys."""
import hashlib
import os
import random
import shutil
import sys

HERE = os.path.dirname(os.path.abspath(__file__))
sys.path.insert(0, os.path.dirname(HERE))
sys.path.insert(0, os.path.join(os.path.dirname(HERE), "checks"))
from hypothesis import given, settings, HealthCheck
from pbt import engine
import c19

OUT = os.path.join(HERE, "C20")
TMP = os.path.join(engine.WORK, "gen_c20")


def main():
    engine.ensure_built("main", ["driver_ser"])
    for d in (OUT, TMP):
        if os.path.isdir(d):
            shutil.rmtree(d)
        os.makedirs(d)
    drv = engine.Driver("main", "driver_ser", 30.0)
    sp = c19.special_cases()
    cases = [c for c in sp if c.get("tour")] + [c for c in sp if not c.get("tour")][::7]

    @settings(max_examples=420, database=None, deadline=None, derandomize=True, suppress_health_check=list(HealthCheck))
    @given(c19.cases())
    def collect(case):
        if case["kind"] == "expr":
            cases.append(case)
    collect()
    n = 0
    seen = set()
    classes = set()
    for i, case in enumerate(cases):
        stmts = [["let", d] for d in case["defs"]]
        k = len(stmts)
        stmts.append(["id", case["root"]])
        stmts.append(["save_unit", TMP, "u%d" % i, ["$", k]])
        try:
            res = drv.run(stmts)
        except (engine.DriverCrash, engine.DriverTimeout):
            continue
        if engine.is_exc(res[k + 1]) or not isinstance(res[k + 1], int) or res[k + 1] > 1500:
            continue
        with open(os.path.join(TMP, "u%d" % i), "rb") as f:
            data = f.read()
        key = repr(engine.B(res[k]))
        if key in seen:
            continue
        seen.add(key)
        c19.classes_of(engine.B(res[k]), classes)
        with open(os.path.join(OUT, "a" + hashlib.sha1(key.encode()).hexdigest()[:15]), "wb") as f:
            f.write(data)
        n += 1
        if n >= 320:
            break
    drv.stop()
    rng = random.Random(20)
    for j in range(24):
        body = bytes(rng.randrange(256) for _ in range(rng.randrange(8, 96)))
        with open(os.path.join(OUT, "b%02d" % j), "wb") as f:
            f.write(bytes([1]) + body)
    shutil.rmtree(TMP)
    missing = sorted(set(c19.SUPPORTED) - classes)
    print("wrote %d dump units + 24 program units; serialisable classes covered: %d of %d; missing: %s"
          % (n, len(set(c19.SUPPORTED) & classes), len(c19.SUPPORTED), missing))


if __name__ == "__main__":
    main()
