// Dense and CSR matrix ops (C24, C25).  Matrices are opaque objects:
//   Val::object("DM", shared_ptr<DenseMatrix>)   Val::object("CSR", shared_ptr<CSRMatrix>)
// Observation: (mat_obs X) where X is a DM, a CSR, or a vector/map containing them.
//   DM  -> {"r":rows,"c":cols,"v":[dump|null ...]}   (null = entry never assigned)
//   CSR -> {"r":rows,"c":cols,"p":[...],"j":[...],"x":[dumps]}   (as_vectors())
// Ops that mutate in the C++ API (set, row_del, row_exchange_dense, ...) work on a copy and
// return the copy, except csr_set / csr_scale_* with the in-place flag (histories, C25).
// Arguments outside a routine's dimension precondition (the SYMENGINE_ASSERTs / the shape the
// caller must allocate) are Declined here; value preconditions (non-singular, SPD, ...) are the
// Python side's business.
#include "drv.h"
#include <symengine/matrix.h>
#include <symengine/cwrapper.h>

using namespace SymEngine;
using namespace vd;

typedef std::shared_ptr<DenseMatrix> DMP;
typedef std::shared_ptr<CSRMatrix> CSRP;

static const unsigned MAXDIM = 64;

static DMP argDM(Args &a, size_t i)
{
    return argObj<DenseMatrix>(a, i, "DM");
}
static CSRP argCSR(Args &a, size_t i)
{
    return argObj<CSRMatrix>(a, i, "CSR");
}
static unsigned argU(Args &a, size_t i, unsigned max = MAXDIM)
{
    long v = argLong(a, i);
    if (v < 0 || v > (long)max)
        throw Decline("unsigned argument out of the supported range");
    return (unsigned)v;
}
static std::vector<unsigned> argVecU(Args &a, size_t i, unsigned max = 100000)
{
    std::vector<unsigned> r;
    for (auto &x : argVec(a, i)) {
        if (x.k != Val::INT)
            throw Decline("sort: want Vec of Int");
        integer_class z(x.s);
        if (z < 0 || z > max)
            throw Decline("index out of the supported range");
        r.push_back((unsigned)mp_get_ui(z));
    }
    return r;
}
static DMP newDM(unsigned r, unsigned c)
{
    return std::make_shared<DenseMatrix>(r, c);
}
static DMP copyDM(const DenseMatrix &m)
{
    return std::make_shared<DenseMatrix>(m);
}
static Val vDM(const DMP &p)
{
    return Val::object("DM", p);
}
static Val vCSR(const CSRP &p)
{
    return Val::object("CSR", p);
}
static void need_square(const DenseMatrix &A)
{
    if (A.nrows() != A.ncols() || A.nrows() == 0)
        throw Decline("needs a non-empty square matrix");
}
static void need_init(const DenseMatrix &A)
{
    for (unsigned i = 0; i < A.nrows(); i++)
        for (unsigned j = 0; j < A.ncols(); j++)
            if (A.get(i, j).is_null())
                throw Decline("matrix has unassigned entries");
}

static Val obsDM(const DenseMatrix &m)
{
    Val r = Val::map();
    r.put("r", Val::uinteger(m.nrows()));
    r.put("c", Val::uinteger(m.ncols()));
    Val v = Val::vec();
    vec_basic flat = m.as_vec_basic();
    for (auto &e : flat)
        v.v.push_back(e.is_null() ? Val::nil() : Val::basic(e));
    r.put("v", v);
    return r;
}
static Val vecU(const std::vector<unsigned> &u)
{
    Val v = Val::vec();
    for (unsigned x : u)
        v.v.push_back(Val::uinteger(x));
    return v;
}
static Val obsCSR(const CSRMatrix &m)
{
    Val r = Val::map();
    r.put("r", Val::uinteger(m.nrows()));
    r.put("c", Val::uinteger(m.ncols()));
    auto t = m.as_vectors();
    r.put("p", vecU(std::get<0>(t)));
    r.put("j", vecU(std::get<1>(t)));
    Val x = Val::vec();
    for (auto &e : std::get<2>(t))
        x.v.push_back(e.is_null() ? Val::nil() : Val::basic(e));
    r.put("x", x);
    return r;
}
static Val obsAny(const Val &x)
{
    if (x.k == Val::OBJ && x.s == "DM")
        return obsDM(*std::static_pointer_cast<DenseMatrix>(x.obj));
    if (x.k == Val::OBJ && x.s == "CSR")
        return obsCSR(*std::static_pointer_cast<CSRMatrix>(x.obj));
    if (x.k == Val::VEC) {
        Val r = Val::vec();
        for (auto &y : x.v)
            r.v.push_back(obsAny(y));
        return r;
    }
    if (x.k == Val::MAP) {
        Val r = Val::map();
        for (size_t i = 0; i < x.v.size(); i++)
            r.put(x.keys[i], obsAny(x.v[i]));
        return r;
    }
    return x;
}
static Val plist(const permutelist &pl)
{
    Val v = Val::vec();
    for (auto &p : pl)
        v.v.push_back(Val::vec({Val::integer((long)p.first), Val::integer((long)p.second)}));
    return v;
}

OP(mat_obs)
{
    need(a, 1);
    return obsAny(a[0]);
}

// ------------------------------------------------------------ dense: construction
OP(dm_new)
{
    unsigned r = argU(a, 0), c = argU(a, 1);
    vec_basic l = argVecB(a, 2);
    if (l.size() != (size_t)r * c)
        throw Decline("DenseMatrix(row, col, l): l.size() == row*col");
    return vDM(std::make_shared<DenseMatrix>(r, c, l));
}
OP(dm_col)
{
    return vDM(std::make_shared<DenseMatrix>(argVecB(a, 0)));
}
OP(dm_uninit)
{
    return vDM(newDM(argU(a, 0), argU(a, 1)));
}
OP(dm_copy)
{
    return vDM(copyDM(*argDM(a, 0)));
}
OP(dm_assign)
{
    // operator=
    DMP r = newDM(1, 1);
    *r = *argDM(a, 0);
    return vDM(r);
}
OP(dm_resize)
{
    DMP r = copyDM(*argDM(a, 0));
    r->resize(argU(a, 1), argU(a, 2));
    return vDM(r);
}
OP(dm_get)
{
    DMP m = argDM(a, 0);
    unsigned i = argU(a, 1), j = argU(a, 2);
    if (i >= m->nrows() || j >= m->ncols())
        throw Decline("get: index range");
    RCP<const Basic> e = m->get(i, j);
    if (e.is_null())
        return Val::nil();
    return Val::basic(e);
}
OP(dm_set)
{
    DMP m = copyDM(*argDM(a, 0));
    unsigned i = argU(a, 1), j = argU(a, 2);
    if (i >= m->nrows() || j >= m->ncols())
        throw Decline("set: index range");
    m->set(i, j, argB(a, 3));
    return vDM(m);
}
OP(dm_as_vec)
{
    DMP m = argDM(a, 0);
    need_init(*m);
    return vecB(m->as_vec_basic());
}
OP(dm_shape)
{
    DMP m = argDM(a, 0);
    return Val::vec({Val::uinteger(m->nrows()), Val::uinteger(m->ncols()), Val::boolean(m->is_square())});
}
OP(dm_eye)
{
    // an offset outside the matrix is allowed by the routine (it handles it with zeros(A))
    unsigned r = argU(a, 0), c = argU(a, 1);
    long k = argLong(a, 2);
    if (r == 0 || c == 0 || k > (long)MAXDIM || -k > (long)MAXDIM)
        throw Decline("eye: non-empty matrix, bounded offset");
    DMP m = newDM(r, c);
    eye(*m, (int)k);
    return vDM(m);
}
OP(dm_diag)
{
    unsigned r = argU(a, 0), c = argU(a, 1);
    vec_basic v = argVecB(a, 2);
    long k = argLong(a, 3);
    if (r == 0 || c == 0 || k >= (long)c || -k >= (long)r)
        throw Decline("diag: diagonal offset outside the matrix");
    size_t cnt = k >= 0 ? std::min<size_t>(r, c - k) : std::min<size_t>(c, r + k);
    if (v.size() < cnt || v.empty())
        throw Decline("diag: v shorter than the diagonal");
    DMP m = newDM(r, c);
    diag(*m, v, (int)k);
    return vDM(m);
}
OP(dm_ones)
{
    DMP m = newDM(argU(a, 0), argU(a, 1));
    ones(*m);
    return vDM(m);
}
OP(dm_zeros)
{
    DMP m = newDM(argU(a, 0), argU(a, 1));
    zeros(*m);
    return vDM(m);
}

// ------------------------------------------------------------ dense: algebra (virtual interface)
OP(dm_add)
{
    DMP A = argDM(a, 0), B = argDM(a, 1);
    if (A->nrows() != B->nrows() || A->ncols() != B->ncols())
        throw Decline("add_matrix: equal shapes");
    DMP C = newDM(A->nrows(), A->ncols());
    const MatrixBase &mb = *B;
    A->add_matrix(mb, *C);
    return vDM(C);
}
OP(dm_mul)
{
    DMP A = argDM(a, 0), B = argDM(a, 1);
    if (A->ncols() != B->nrows())
        throw Decline("mul_matrix: inner dimensions");
    DMP C = newDM(A->nrows(), B->ncols());
    A->mul_matrix(*B, *C);
    return vDM(C);
}
OP(dm_mul_alias)
{
    // result aliases an operand (the tmp branch of mul_dense_dense); which: 0 -> C is A, 1 -> C is B
    DMP A = copyDM(*argDM(a, 0)), B = copyDM(*argDM(a, 1));
    long which = argLong(a, 2);
    if (A->ncols() != B->nrows())
        throw Decline("mul_matrix: inner dimensions");
    if (which == 0) {
        if (B->ncols() != A->ncols())
            throw Decline("alias: result shape must equal A's");
        A->mul_matrix(*B, *A);
        return vDM(A);
    }
    if (A->nrows() != B->nrows())
        throw Decline("alias: result shape must equal B's");
    A->mul_matrix(*B, *B);
    return vDM(B);
}
OP(dm_emul)
{
    DMP A = argDM(a, 0), B = argDM(a, 1);
    if (A->nrows() != B->nrows() || A->ncols() != B->ncols())
        throw Decline("elementwise_mul_matrix: equal shapes");
    DMP C = newDM(A->nrows(), A->ncols());
    A->elementwise_mul_matrix(*B, *C);
    return vDM(C);
}
OP(dm_add_scalar)
{
    DMP A = argDM(a, 0);
    DMP C = newDM(A->nrows(), A->ncols());
    A->add_scalar(argB(a, 1), *C);
    return vDM(C);
}
OP(dm_mul_scalar)
{
    DMP A = argDM(a, 0);
    DMP C = newDM(A->nrows(), A->ncols());
    A->mul_scalar(argB(a, 1), *C);
    return vDM(C);
}
OP(dm_transpose)
{
    DMP A = argDM(a, 0);
    DMP C = newDM(A->ncols(), A->nrows());
    A->transpose(*C);
    return vDM(C);
}
OP(dm_conjugate)
{
    DMP A = argDM(a, 0);
    DMP C = newDM(A->nrows(), A->ncols());
    A->conjugate(*C);
    return vDM(C);
}
OP(dm_conjugate_transpose)
{
    DMP A = argDM(a, 0);
    DMP C = newDM(A->ncols(), A->nrows());
    A->conjugate_transpose(*C);
    return vDM(C);
}
OP(dm_submatrix)
{
    // (dm_submatrix A r0 c0 r1 c1 [rstep cstep [free]])  inclusive end indices as in the API
    DMP A = argDM(a, 0);
    unsigned r0 = argU(a, 1), c0 = argU(a, 2), r1 = argU(a, 3), c1 = argU(a, 4);
    unsigned rs = a.size() > 5 ? argU(a, 5) : 1, cs = a.size() > 6 ? argU(a, 6) : 1;
    bool freefn = a.size() > 7 ? argFlag(a, 7) : false;
    if (r1 < r0 || c1 < c0 || r1 >= A->nrows() || c1 >= A->ncols() || rs == 0 || cs == 0)
        throw Decline("submatrix: index range");
    DMP C = newDM(r1 - r0 + 1, c1 - c0 + 1);
    if (freefn)
        submatrix_dense(*A, *C, r0, c0, r1, c1, rs, cs);
    else if (a.size() > 5)
        A->submatrix(*C, r0, c0, r1, c1, rs, cs);
    else
        A->submatrix(*C, r0, c0, r1, c1);
    return vDM(C);
}
OP(dm_submatrix_c)
{
    // the C wrapper allocates the result itself: (dm_submatrix_c A r0 c0 r1 c1 rstep cstep)
#if defined(WITH_SYMENGINE_RCP)
    DMP A = argDM(a, 0);
    unsigned r0 = argU(a, 1), c0 = argU(a, 2), r1 = argU(a, 3), c1 = argU(a, 4), rs = argU(a, 5), cs = argU(a, 6);
    if (r1 < r0 || c1 < c0 || r1 >= A->nrows() || c1 >= A->ncols() || rs == 0 || cs == 0)
        throw Decline("submatrix: index range");
    need_init(*A);
    CDenseMatrix *ca = dense_matrix_new_rows_cols(A->nrows(), A->ncols());
    CDenseMatrix *cs_ = dense_matrix_new();
    basic x;
    basic_new_stack(x);
    struct Guard {
        CDenseMatrix *p, *q;
        basic_struct *x;
        ~Guard()
        {
            basic_free_stack(x);
            dense_matrix_free(p);
            dense_matrix_free(q);
        }
    } guard{ca, cs_, x};
    for (unsigned i = 0; i < A->nrows(); i++)
        for (unsigned j = 0; j < A->ncols(); j++) {
            // hand the entry over through the C handle (same layout as RCP<const Basic>, see cwrapper.h)
            RCP<const Basic> e = A->get(i, j);
            basic_free_stack(x);
            basic_new_stack(x);
            static_assert(sizeof(basic_struct) == sizeof(RCP<const Basic>), "basic_struct layout");
            *reinterpret_cast<RCP<const Basic> *>(x) = e;
            if (dense_matrix_set_basic(ca, i, j, x) != 0)
                throw SymEngineException("dense_matrix_set_basic failed");
        }
    int rc = dense_matrix_submatrix(cs_, ca, r0, c0, r1, c1, rs, cs);
    if (rc != 0)
        throw SymEngineException("dense_matrix_submatrix returned error code " + std::to_string(rc));
    unsigned rr = (unsigned)dense_matrix_rows(cs_), cc = (unsigned)dense_matrix_cols(cs_);
    DMP R_ = newDM(rr, cc);
    for (unsigned i = 0; i < rr; i++)
        for (unsigned j = 0; j < cc; j++) {
            if (dense_matrix_get_basic(x, cs_, i, j) != 0)
                throw SymEngineException("dense_matrix_get_basic failed");
            R_->set(i, j, *reinterpret_cast<RCP<const Basic> *>(x)); // may be null: entry never assigned
        }
    return vDM(R_);
#else
    throw Decline("needs WITH_SYMENGINE_RCP");
#endif
}
OP(dm_row_join)
{
    DMP A = copyDM(*argDM(a, 0)), B = argDM(a, 1);
    if (A->nrows() != B->nrows())
        throw Decline("row_join: equal row counts");
    A->row_join(*B);
    return vDM(A);
}
OP(dm_col_join)
{
    DMP A = copyDM(*argDM(a, 0)), B = argDM(a, 1);
    if (A->ncols() != B->ncols())
        throw Decline("col_join: equal column counts");
    A->col_join(*B);
    return vDM(A);
}
OP(dm_row_insert)
{
    DMP A = copyDM(*argDM(a, 0)), B = argDM(a, 1);
    unsigned pos = argU(a, 2);
    if (A->ncols() != B->ncols() || pos > A->nrows())
        throw Decline("row_insert: col_ == B.col_ and pos <= row_");
    A->row_insert(*B, pos);
    return vDM(A);
}
OP(dm_col_insert)
{
    DMP A = copyDM(*argDM(a, 0)), B = argDM(a, 1);
    unsigned pos = argU(a, 2);
    if (A->nrows() != B->nrows() || pos > A->ncols())
        throw Decline("col_insert: row_ == B.row_ and pos <= col_");
    A->col_insert(*B, pos);
    return vDM(A);
}
OP(dm_row_del)
{
    DMP A = copyDM(*argDM(a, 0));
    unsigned k = argU(a, 1);
    if (k >= A->nrows())
        throw Decline("row_del: k < row_");
    A->row_del(k);
    return vDM(A);
}
OP(dm_col_del)
{
    DMP A = copyDM(*argDM(a, 0));
    unsigned k = argU(a, 1);
    if (k >= A->ncols())
        throw Decline("col_del: k < col_");
    A->col_del(k);
    return vDM(A);
}
OP(dm_row_exchange)
{
    DMP A = copyDM(*argDM(a, 0));
    unsigned i = argU(a, 1), j = argU(a, 2);
    if (i == j || i >= A->nrows() || j >= A->nrows())
        throw Decline("row_exchange_dense: i != j, in range");
    row_exchange_dense(*A, i, j);
    return vDM(A);
}
OP(dm_col_exchange)
{
    DMP A = copyDM(*argDM(a, 0));
    unsigned i = argU(a, 1), j = argU(a, 2);
    if (i == j || i >= A->ncols() || j >= A->ncols())
        throw Decline("column_exchange_dense: i != j, in range");
    column_exchange_dense(*A, i, j);
    return vDM(A);
}
OP(dm_row_mul_scalar)
{
    DMP A = copyDM(*argDM(a, 0));
    unsigned i = argU(a, 1);
    RCP<const Basic> c = argB(a, 2);
    if (i >= A->nrows())
        throw Decline("row_mul_scalar_dense: i < row_");
    row_mul_scalar_dense(*A, i, c);
    return vDM(A);
}
OP(dm_row_add_row)
{
    DMP A = copyDM(*argDM(a, 0));
    unsigned i = argU(a, 1), j = argU(a, 2);
    RCP<const Basic> c = argB(a, 3);
    if (i == j || i >= A->nrows() || j >= A->nrows())
        throw Decline("row_add_row_dense: i != j, in range");
    row_add_row_dense(*A, i, j, c);
    return vDM(A);
}
OP(dm_permute_fwd)
{
    DMP A = copyDM(*argDM(a, 0));
    permutelist pl;
    for (auto &p : argVec(a, 1)) {
        if (p.k != Val::VEC || p.v.size() != 2 || p.v[0].k != Val::INT || p.v[1].k != Val::INT)
            throw Decline("sort: want [[i j]...]");
        long i = std::stol(p.v[0].s), j = std::stol(p.v[1].s);
        if (i < 0 || j < 0 || i == j || i >= (long)A->nrows() || j >= (long)A->nrows())
            throw Decline("permuteFwd: pairs of distinct rows");
        pl.push_back({(int)i, (int)j});
    }
    permuteFwd(*A, pl);
    return vDM(A);
}
OP(dm_trace)
{
    DMP A = argDM(a, 0);
    need_square(*A);
    return Val::basic(A->trace());
}
OP(mat_eq)
{
    // MatrixBase::eq / CSRMatrix::eq through operator==
    std::shared_ptr<MatrixBase> x, y;
    if (a.size() < 2 || a[0].k != Val::OBJ || a[1].k != Val::OBJ)
        throw Decline("sort: want matrices");
    const MatrixBase *m[2];
    for (int i = 0; i < 2; i++) {
        if (a[i].s == "DM")
            m[i] = std::static_pointer_cast<DenseMatrix>(a[i].obj).get();
        else if (a[i].s == "CSR")
            m[i] = std::static_pointer_cast<CSRMatrix>(a[i].obj).get();
        else
            throw Decline("sort: want matrices");
    }
    return Val::vec({Val::boolean(*m[0] == *m[1]), Val::boolean(*m[0] != *m[1])});
}
OP(mat_str)
{
    if (a.size() < 1 || a[0].k != Val::OBJ)
        throw Decline("sort: want matrix");
    if (a[0].s == "DM") {
        DMP m = argDM(a, 0);
        need_init(*m);
        return Val::str(m->__str__());
    }
    return Val::str(argCSR(a, 0)->__str__());
}

// ------------------------------------------------------------ dense: predicates
OP(dm_pred)
{
    DMP A = argDM(a, 0);
    const std::string &w = argStr(a, 1);
    if (w == "is_lower" || w == "is_upper") {
        // loops over i,j < nrows: only meaningful for square matrices
        need_square(*A);
        return Val::boolean(w == "is_lower" ? A->is_lower() : A->is_upper());
    }
    if (w == "is_symmetric_dense")
        return Val::boolean(is_symmetric_dense(*A));
    if (w == "is_square")
        return Val::boolean(A->is_square());
    if (w == "is_zero")
        return tri(A->is_zero());
    if (w == "is_diagonal")
        return tri(A->is_diagonal());
    if (w == "is_real")
        return tri(A->is_real());
    if (w == "is_symmetric")
        return tri(A->is_symmetric());
    if (w == "is_hermitian")
        return tri(A->is_hermitian());
    if (w == "is_weakly_diagonally_dominant")
        return tri(A->is_weakly_diagonally_dominant());
    if (w == "is_strictly_diagonally_dominant")
        return tri(A->is_strictly_diagonally_dominant());
    if (w == "is_positive_definite")
        return tri(A->is_positive_definite());
    if (w == "is_negative_definite")
        return tri(A->is_negative_definite());
    throw Decline("unknown predicate");
}

// ------------------------------------------------------------ dense: determinant family
OP(dm_det)
{
    DMP A = argDM(a, 0);
    const std::string &w = argStr(a, 1);
    need_square(*A);
    if (w == "bareis")
        return Val::basic(det_bareis(*A));
    if (w == "berkowitz")
        return Val::basic(det_berkowitz(*A));
    if (w == "det") {
        const MatrixBase &mb = *A;
        return Val::basic(mb.det());
    }
    throw Decline("unknown determinant algorithm");
}
OP(dm_rank)
{
    const MatrixBase &mb = *argDM(a, 0);
    return Val::uinteger(mb.rank());
}
OP(dm_char_poly)
{
    DMP A = argDM(a, 0);
    need_square(*A);
    DMP B = newDM(A->nrows() + 1, 1);
    char_poly(*A, *B);
    return vDM(B);
}
OP(dm_berkowitz)
{
    DMP A = argDM(a, 0);
    need_square(*A);
    std::vector<DenseMatrix> polys;
    berkowitz(*A, polys);
    Val v = Val::vec();
    for (auto &p : polys)
        v.v.push_back(vDM(copyDM(p)));
    return v;
}

// ------------------------------------------------------------ dense: inverses
OP(dm_inverse)
{
    DMP A = argDM(a, 0);
    const std::string &w = argStr(a, 1);
    need_square(*A);
    DMP B = newDM(A->nrows(), A->ncols());
    if (w == "fraction_free_LU")
        inverse_fraction_free_LU(*A, *B);
    else if (w == "LU")
        inverse_LU(*A, *B);
    else if (w == "pivoted_LU")
        inverse_pivoted_LU(*A, *B);
    else if (w == "gauss_jordan")
        inverse_gauss_jordan(*A, *B);
    else if (w == "inv") {
        const MatrixBase &mb = *A;
        mb.inv(*B);
    } else
        throw Decline("unknown inverse algorithm");
    return vDM(B);
}

// ------------------------------------------------------------ dense: factorisations
OP(dm_LU)
{
    DMP A = argDM(a, 0);
    bool method = a.size() > 1 ? argFlag(a, 1) : false;
    need_square(*A);
    unsigned n = A->nrows();
    DMP L = newDM(n, n), U = newDM(n, n);
    if (method) {
        const MatrixBase &mb = *A;
        mb.LU(*L, *U);
    } else
        LU(*A, *L, *U);
    return Val::map().put("L", vDM(L)).put("U", vDM(U));
}
OP(dm_pivoted_LU)
{
    // combined LU matrix + permutation list
    DMP A = argDM(a, 0);
    need_square(*A);
    unsigned n = A->nrows();
    DMP M = newDM(n, n);
    permutelist pl;
    pivoted_LU(*A, *M, pl);
    return Val::map().put("LU", vDM(M)).put("pl", plist(pl));
}
OP(dm_pivoted_LU2)
{
    DMP A = argDM(a, 0);
    need_square(*A);
    unsigned n = A->nrows();
    DMP L = newDM(n, n), U = newDM(n, n);
    permutelist pl;
    pivoted_LU(*A, *L, *U, pl);
    return Val::map().put("L", vDM(L)).put("U", vDM(U)).put("pl", plist(pl));
}
OP(dm_fraction_free_LU)
{
    DMP A = argDM(a, 0);
    bool method = a.size() > 1 ? argFlag(a, 1) : false;
    need_square(*A);
    unsigned n = A->nrows();
    DMP M = newDM(n, n);
    if (method) {
        const MatrixBase &mb = *A;
        mb.FFLU(*M);
    } else
        fraction_free_LU(*A, *M);
    return vDM(M);
}
OP(dm_fraction_free_LDU)
{
    DMP A = argDM(a, 0);
    bool method = a.size() > 1 ? argFlag(a, 1) : false;
    need_square(*A);
    unsigned n = A->nrows();
    DMP L = newDM(n, n), D = newDM(n, n), U = newDM(n, n);
    if (method) {
        const MatrixBase &mb = *A;
        mb.FFLDU(*L, *D, *U);
    } else
        fraction_free_LDU(*A, *L, *D, *U);
    return Val::map().put("L", vDM(L)).put("D", vDM(D)).put("U", vDM(U));
}
OP(dm_QR)
{
    DMP A = argDM(a, 0);
    bool method = a.size() > 1 ? argFlag(a, 1) : false;
    unsigned r = A->nrows(), c = A->ncols();
    if (r == 0 || c == 0)
        throw Decline("QR: non-empty matrix");
    DMP Q = newDM(r, c), R = newDM(c, c);
    if (method) {
        const MatrixBase &mb = *A;
        mb.QR(*Q, *R);
    } else
        QR(*A, *Q, *R);
    return Val::map().put("Q", vDM(Q)).put("R", vDM(R));
}
OP(dm_LDL)
{
    DMP A = argDM(a, 0);
    bool method = a.size() > 1 ? argFlag(a, 1) : false;
    need_square(*A);
    unsigned n = A->nrows();
    DMP L = newDM(n, n), D = newDM(n, n);
    if (method) {
        const MatrixBase &mb = *A;
        mb.LDL(*L, *D);
    } else
        LDL(*A, *L, *D);
    return Val::map().put("L", vDM(L)).put("D", vDM(D));
}
OP(dm_cholesky)
{
    DMP A = argDM(a, 0);
    bool method = a.size() > 1 ? argFlag(a, 1) : false;
    need_square(*A);
    unsigned n = A->nrows();
    DMP L = newDM(n, n);
    if (method) {
        const MatrixBase &mb = *A;
        mb.cholesky(*L);
    } else
        cholesky(*A, *L);
    return vDM(L);
}

// ------------------------------------------------------------ dense: solving
OP(dm_solve)
{
    // (dm_solve "which" A b [flag])
    const std::string &w = argStr(a, 0);
    DMP A = argDM(a, 1), b = argDM(a, 2);
    need_square(*A);
    if (b->nrows() != A->nrows() || b->ncols() == 0)
        throw Decline("solve: b.nrows() == A.nrows()");
    need_init(*A);
    need_init(*b);
    DMP x = newDM(b->nrows(), b->ncols());
    if (w == "LU")
        LU_solve(*A, *b, *x);
    else if (w == "LU_method") {
        const MatrixBase &mb = *A;
        mb.LU_solve(*b, *x);
    } else if (w == "pivoted_LU")
        pivoted_LU_solve(*A, *b, *x);
    else if (w == "LDL")
        LDL_solve(*A, *b, *x);
    else if (w == "fraction_free_LU")
        fraction_free_LU_solve(*A, *b, *x);
    else if (w == "fraction_free_gaussian_elimination")
        fraction_free_gaussian_elimination_solve(*A, *b, *x);
    else if (w == "fraction_free_gauss_jordan")
        fraction_free_gauss_jordan_solve(*A, *b, *x, a.size() > 3 ? argFlag(a, 3) : true);
    else if (w == "fraction_free_gauss_jordan_default")
        fraction_free_gauss_jordan_solve(*A, *b, *x);
    else if (w == "diagonal")
        diagonal_solve(*A, *b, *x);
    else if (w == "back_substitution")
        back_substitution(*A, *b, *x);
    else if (w == "forward_substitution")
        forward_substitution(*A, *b, *x);
    else
        throw Decline("unknown solver");
    return vDM(x);
}

// ------------------------------------------------------------ dense: elimination
OP(dm_eliminate)
{
    // (dm_eliminate "which" A) -> {"B": DM, "pl": [[k index]...]}
    const std::string &w = argStr(a, 0);
    DMP A = argDM(a, 1);
    if (A->nrows() == 0 || A->ncols() == 0)
        throw Decline("elimination: non-empty matrix");
    need_init(*A);
    DMP B = newDM(A->nrows(), A->ncols());
    permutelist pl;
    if (w == "pivoted_gaussian")
        pivoted_gaussian_elimination(*A, *B, pl);
    else if (w == "fraction_free_gaussian")
        fraction_free_gaussian_elimination(*A, *B);
    else if (w == "pivoted_fraction_free_gaussian")
        pivoted_fraction_free_gaussian_elimination(*A, *B, pl);
    else if (w == "pivoted_gauss_jordan")
        pivoted_gauss_jordan_elimination(*A, *B, pl);
    else if (w == "fraction_free_gauss_jordan")
        fraction_free_gauss_jordan_elimination(*A, *B);
    else if (w == "pivoted_fraction_free_gauss_jordan")
        pivoted_fraction_free_gauss_jordan_elimination(*A, *B, pl);
    else
        throw Decline("unknown elimination");
    return Val::map().put("B", vDM(B)).put("pl", plist(pl));
}
OP(dm_pivot)
{
    DMP A = copyDM(*argDM(a, 0));
    unsigned r = argU(a, 1), c = argU(a, 2);
    if (r > A->nrows() || c >= A->ncols())
        throw Decline("pivot: index range");
    need_init(*A);
    return Val::uinteger(pivot(*A, r, c));
}
OP(dm_rref)
{
    DMP A = argDM(a, 0);
    if (A->nrows() == 0 || A->ncols() == 0)
        throw Decline("rref: non-empty matrix");
    need_init(*A);
    DMP B = newDM(A->nrows(), A->ncols());
    vec_uint piv;
    if (a.size() > 1)
        reduced_row_echelon_form(*A, *B, piv, argFlag(a, 1));
    else
        reduced_row_echelon_form(*A, *B, piv);
    return Val::map().put("B", vDM(B)).put("piv", vecU(piv));
}

// ------------------------------------------------------------ dense: vectors, calculus
OP(dm_dot)
{
    DMP A = argDM(a, 0), B = argDM(a, 1);
    need_init(*A);
    need_init(*B);
    DMP C = newDM(1, 1);
    dot(*A, *B, *C);
    return vDM(C);
}
OP(dm_cross)
{
    DMP A = argDM(a, 0), B = argDM(a, 1);
    if (A->nrows() * A->ncols() != 3 || B->nrows() * B->ncols() != 3)
        throw Decline("cross: 3-vectors");
    DMP C = newDM(A->nrows(), A->ncols());
    cross(*A, *B, *C);
    return vDM(C);
}
static void need_column(const DenseMatrix &A)
{
    if (A.ncols() != 1)
        throw Decline("needs a column vector");
}
OP(dm_jacobian)
{
    // (dm_jacobian A x [sympy-style]) ; x must contain Symbols for the plain version (else the library throws)
    DMP A = argDM(a, 0), x = argDM(a, 1);
    bool s = a.size() > 2 ? argFlag(a, 2) : false;
    need_column(*A);
    need_column(*x);
    need_init(*A);
    need_init(*x);
    DMP J = newDM(A->nrows(), x->nrows());
    if (s)
        sjacobian(*A, *x, *J);
    else
        jacobian(*A, *x, *J);
    return vDM(J);
}
OP(dm_diff)
{
    DMP A = argDM(a, 0);
    need_init(*A);
    DMP R = newDM(A->nrows(), A->ncols());
    diff(*A, argSym(a, 1), *R);
    return vDM(R);
}

// ------------------------------------------------------------ CSR
static bool csr_input_ok(unsigned r, unsigned c, const std::vector<unsigned> &p, const std::vector<unsigned> &j,
                         size_t nx)
{
    // the documented precondition of the array constructor: canonical CSR arrays
    if (p.size() != (size_t)r + 1 || p[0] != 0 || j.size() != p[r] || nx != p[r])
        return false;
    for (unsigned i = 0; i < r; i++) {
        if (p[i] > p[i + 1])
            return false;
        for (unsigned k = p[i]; k < p[i + 1]; k++) {
            if (j[k] >= c)
                return false;
            if (k > p[i] && j[k - 1] >= j[k])
                return false;
        }
    }
    return true;
}
OP(csr_new)
{
    unsigned r = argU(a, 0), c = argU(a, 1);
    std::vector<unsigned> p = argVecU(a, 2), j = argVecU(a, 3);
    vec_basic x = argVecB(a, 4);
    bool mv = a.size() > 5 ? argFlag(a, 5) : false;
    if (!csr_input_ok(r, c, p, j, x.size()))
        throw Decline("CSRMatrix(row, col, p, j, x): arrays must be canonical");
    if (mv)
        return vCSR(std::make_shared<CSRMatrix>(r, c, std::move(p), std::move(j), std::move(x)));
    return vCSR(std::make_shared<CSRMatrix>(r, c, p, j, x));
}
OP(csr_empty)
{
    return vCSR(std::make_shared<CSRMatrix>(argU(a, 0), argU(a, 1)));
}
OP(csr_from_coo)
{
    unsigned r = argU(a, 0), c = argU(a, 1);
    std::vector<unsigned> i = argVecU(a, 2), j = argVecU(a, 3);
    vec_basic x = argVecB(a, 4);
    if (i.size() != x.size() || j.size() != x.size())
        throw Decline("from_coo: equal lengths");
    for (size_t k = 0; k < i.size(); k++)
        if (i[k] >= r || j[k] >= c)
            throw Decline("from_coo: index range");
    return vCSR(std::make_shared<CSRMatrix>(CSRMatrix::from_coo(r, c, i, j, x)));
}
OP(csr_copy)
{
    return vCSR(std::make_shared<CSRMatrix>(*argCSR(a, 0)));
}
OP(csr_get)
{
    CSRP m = argCSR(a, 0);
    unsigned i = argU(a, 1), j = argU(a, 2);
    if (i >= m->nrows() || j >= m->ncols())
        throw Decline("get: index range");
    return Val::basic(m->get(i, j));
}
OP(csr_set)
{
    // in place (a history step); returns the matrix itself
    CSRP m = argCSR(a, 0);
    unsigned i = argU(a, 1), j = argU(a, 2);
    if (i >= m->nrows() || j >= m->ncols())
        throw Decline("set: index range");
    m->set(i, j, argB(a, 3));
    return vCSR(m);
}
OP(csr_is_canonical)
{
    return Val::boolean(argCSR(a, 0)->is_canonical());
}
OP(csr_is_real)
{
    return tri(argCSR(a, 0)->is_real());
}
OP(csr_transpose)
{
    // (csr_transpose A)            -> virtual transpose(MatrixBase&)
    // (csr_transpose A flag)       -> CSRMatrix::transpose(bool conjugate)
    CSRP A = argCSR(a, 0);
    if (a.size() > 1)
        return vCSR(std::make_shared<CSRMatrix>(A->transpose(argFlag(a, 1))));
    CSRP R = std::make_shared<CSRMatrix>(A->ncols(), A->nrows());
    const MatrixBase &mb = *A;
    mb.transpose(*R);
    return vCSR(R);
}
OP(csr_conjugate)
{
    CSRP A = argCSR(a, 0);
    CSRP R = std::make_shared<CSRMatrix>(A->nrows(), A->ncols());
    const MatrixBase &mb = *A;
    mb.conjugate(*R);
    return vCSR(R);
}
OP(csr_conjugate_transpose)
{
    CSRP A = argCSR(a, 0);
    CSRP R = std::make_shared<CSRMatrix>(A->ncols(), A->nrows());
    const MatrixBase &mb = *A;
    mb.conjugate_transpose(*R);
    return vCSR(R);
}
OP(csr_emul)
{
    CSRP A = argCSR(a, 0), B = argCSR(a, 1);
    if (A->nrows() != B->nrows() || A->ncols() != B->ncols())
        throw Decline("elementwise_mul_matrix: equal shapes");
    CSRP C = std::make_shared<CSRMatrix>(A->nrows(), A->ncols());
    const MatrixBase &mb = *A;
    mb.elementwise_mul_matrix(*B, *C);
    return vCSR(C);
}
OP(csr_binop)
{
    // csr_binop_csr_canonical(A, B, C, op)
    const std::string &w = argStr(a, 0);
    CSRP A = argCSR(a, 1), B = argCSR(a, 2);
    if (A->nrows() != B->nrows() || A->ncols() != B->ncols())
        throw Decline("csr_binop_csr_canonical: equal shapes");
    CSRP C = std::make_shared<CSRMatrix>(A->nrows(), A->ncols());
    if (w == "add")
        csr_binop_csr_canonical(*A, *B, *C, add);
    else if (w == "sub")
        csr_binop_csr_canonical(*A, *B, *C, sub);
    else if (w == "mul")
        csr_binop_csr_canonical(*A, *B, *C, mul);
    else
        throw Decline("unknown binop");
    return vCSR(C);
}
OP(csr_matmat)
{
    // C = A*B through csr_matmat_pass1 (row pointer / nnz bound) and csr_matmat_pass2 (entries).
    // The caller has to provide C with room for the pass-1 count; the only public way to size
    // j_/x_ is the array constructor, so C is built with canonical placeholder arrays.
    CSRP A = argCSR(a, 0), B = argCSR(a, 1);
    if (A->ncols() != B->nrows())
        throw Decline("csr_matmat: inner dimensions");
    unsigned r = A->nrows(), c = B->ncols();
    CSRMatrix C0(r, c);
    csr_matmat_pass1(*A, *B, C0);
    std::vector<unsigned> p = std::get<0>(C0.as_vectors());
    unsigned bound = p[r];
    std::vector<unsigned> j(bound);
    vec_basic x(bound, zero);
    for (unsigned i = 0; i < r; i++) {
        if (p[i + 1] < p[i] || p[i + 1] - p[i] > c)
            return Val::map().put("pass1_p", vecU(p)); // inconsistent count: report, do not run pass 2
        for (unsigned k = p[i]; k < p[i + 1]; k++)
            j[k] = k - p[i];
    }
    CSRP C = std::make_shared<CSRMatrix>(r, c, p, j, x);
    csr_matmat_pass2(*A, *B, *C);
    return Val::map().put("pass1_p", vecU(p)).put("C", vCSR(C));
}
OP(csr_diagonal)
{
    CSRP A = argCSR(a, 0);
    unsigned n = std::min(A->nrows(), A->ncols());
    DMP D = newDM(n, 1);
    csr_diagonal(*A, *D);
    return vDM(D);
}
OP(csr_scale_rows)
{
    CSRP A = std::make_shared<CSRMatrix>(*argCSR(a, 0));
    DMP X = argDM(a, 1);
    if (X->nrows() != A->nrows() || X->ncols() != 1)
        throw Decline("csr_scale_rows: X is a column of length nrows");
    need_init(*X);
    csr_scale_rows(*A, *X);
    return vCSR(A);
}
OP(csr_scale_columns)
{
    CSRP A = std::make_shared<CSRMatrix>(*argCSR(a, 0));
    DMP X = argDM(a, 1);
    if (X->nrows() != A->ncols() || X->ncols() != 1)
        throw Decline("csr_scale_columns: X is a column of length ncols");
    need_init(*X);
    csr_scale_columns(*A, *X);
    return vCSR(A);
}
OP(csr_jacobian)
{
    // (csr_jacobian [exprs] [symbols])  or  (csr_jacobian A x) with column DenseMatrices
    if (a.size() >= 2 && a[0].k == Val::OBJ) {
        DMP A = argDM(a, 0), x = argDM(a, 1);
        need_column(*A);
        need_column(*x);
        need_init(*A);
        need_init(*x);
        return vCSR(std::make_shared<CSRMatrix>(CSRMatrix::jacobian(*A, *x)));
    }
    vec_basic e = argVecB(a, 0);
    vec_sym s;
    for (auto &v : argVec(a, 1)) {
        if (v.k != Val::B || !is_a<Symbol>(*v.b))
            throw Decline("sort: want Vec of Symbol");
        s.push_back(rcp_static_cast<const Symbol>(v.b));
    }
    if (a.size() > 2)
        return vCSR(std::make_shared<CSRMatrix>(CSRMatrix::jacobian(e, s, argFlag(a, 2))));
    return vCSR(std::make_shared<CSRMatrix>(CSRMatrix::jacobian(e, s)));
}
OP(csr_arrays)
{
    // the static array helpers: (csr_arrays "which" [p] [j] [x] row)
    const std::string &w = argStr(a, 0);
    std::vector<unsigned> p = argVecU(a, 1), j = argVecU(a, 2);
    vec_basic x = argVecB(a, 3);
    unsigned row = argU(a, 4);
    // shape precondition shared by all helpers: p has row+1 monotone entries inside j/x
    if (p.size() != (size_t)row + 1 || x.size() != j.size())
        throw Decline("csr arrays: p.size() == row+1, j.size() == x.size()");
    for (unsigned i = 0; i < row; i++)
        if (p[i] > p[i + 1])
            throw Decline("csr arrays: p monotone");
    if (p[0] != 0 || p[row] > j.size())
        throw Decline("csr arrays: p within j");
    if (w == "has_canonical_format")
        return Val::boolean(CSRMatrix::csr_has_canonical_format(p, j, row));
    if (w == "has_sorted_indices")
        return Val::boolean(CSRMatrix::csr_has_sorted_indices(p, j, row));
    if (w == "has_duplicates")
        return Val::boolean(CSRMatrix::csr_has_duplicates(p, j, row));
    if (w == "sort_indices")
        CSRMatrix::csr_sort_indices(p, j, x, row);
    else if (w == "sum_duplicates") {
        if (p[row] != j.size())
            throw Decline("csr_sum_duplicates: p[row] == nnz");
        CSRMatrix::csr_sum_duplicates(p, j, x, row);
    } else
        throw Decline("unknown helper");
    return Val::map().put("p", vecU(p)).put("j", vecU(j)).put("x", vecB(x));
}
OP(csr_unimplemented)
{
    // the virtual interface members that CSRMatrix declares but does not implement: they
    // must throw (NotImplementedError), not crash
    const std::string &w = argStr(a, 0);
    CSRP A = argCSR(a, 1);
    const MatrixBase &m = *A;
    CSRMatrix R1(A->nrows(), A->ncols()), R2(A->nrows(), A->ncols()), R3(A->nrows(), A->ncols());
    if (w == "rank")
        return Val::uinteger(m.rank());
    if (w == "det")
        return Val::basic(m.det());
    if (w == "inv")
        m.inv(R1);
    else if (w == "add_matrix")
        m.add_matrix(*A, R1);
    else if (w == "mul_matrix")
        m.mul_matrix(*A, R1);
    else if (w == "add_scalar")
        m.add_scalar(one, R1);
    else if (w == "mul_scalar")
        m.mul_scalar(one, R1);
    else if (w == "submatrix")
        m.submatrix(R1, 0, 0, 0, 0);
    else if (w == "LU")
        m.LU(R1, R2);
    else if (w == "LDL")
        m.LDL(R1, R2);
    else if (w == "LU_solve")
        m.LU_solve(R1, R2);
    else if (w == "FFLU")
        m.FFLU(R1);
    else if (w == "FFLDU")
        m.FFLDU(R1, R2, R3);
    else if (w == "QR")
        m.QR(R1, R2);
    else if (w == "cholesky")
        m.cholesky(R1);
    else
        throw Decline("unknown member");
    return vCSR(std::make_shared<CSRMatrix>(R1));
}
