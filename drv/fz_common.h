// Shared bookkeeping of the libFuzzer targets (engine "fz", DESIGN.md 2.1 / 2.7).
//
// The *target* measures what the campaign covered: a set of 64-bit hashes of the inputs that are
// non-trivial by the property's rule, class counters, exclusion counters and a few sample inputs.
// They are appended to the file named by env VERIF_FZ_STATS
//   - every 1000 executions,
//   - at normal exit (atexit),
//   - before every deliberate trap (sanitizer aborts bypass atexit),
// as text lines which pbt/fuzz.py merges over all processes of a campaign:
//   E <n>            executions since the previous flush
//   C <class> <n>    class counter delta
//   X <tag> <n>      inputs excluded by construction (known finding <tag> active, or resource guard)
//   H <hex16> ...    new hashes of distinct non-trivial inputs
//   S <class> <hex>  a sample input (whole unit, hex)
// Env VERIF_KNOWN_TAGS=tag1,tag2 activates the by-construction exclusions of known findings.
#ifndef VERIF_FZ_COMMON_H
#define VERIF_FZ_COMMON_H

#include <cstdint>
#include <cstdio>
#include <cstdlib>
#include <cstring>
#include <map>
#include <set>
#include <string>
#include <vector>
#include <unistd.h>
#include <gmp.h>

extern "C" void __sanitizer_print_stack_trace(void);

namespace fz
{

struct Stats {
    std::string path;
    uint64_t execs = 0, flushed_execs = 0;
    std::map<std::string, uint64_t> cls, cls_flushed;
    std::map<std::string, uint64_t> excl, excl_flushed;
    // open-addressing table allocated once: the bookkeeping must not allocate per execution, otherwise
    // libFuzzer sees "more mallocs than frees" and runs an (expensive) LeakSanitizer pass after the unit
    static const size_t TABLE = 1u << 21;
    uint64_t *table = nullptr;
    size_t nhashes = 0;
    std::vector<uint64_t> pending;
    std::map<std::string, int> sample_count;
    std::vector<std::pair<std::string, std::string>> pending_samples;
    std::set<std::string> tags;
    uint64_t rng = 0x9e3779b97f4a7c15ull;
    bool inited = false;

    void init()
    {
        if (inited)
            return;
        inited = true;
        table = (uint64_t *)calloc(TABLE, sizeof(uint64_t));
        pending.reserve(4096);
        pending_samples.reserve(64);
        const char *p = getenv("VERIF_FZ_STATS");
        if (p)
            path = p;
        const char *t = getenv("VERIF_KNOWN_TAGS");
        if (t) {
            std::string s(t), cur;
            for (char c : s) {
                if (c == ',') {
                    if (!cur.empty())
                        tags.insert(cur);
                    cur.clear();
                } else
                    cur.push_back(c);
            }
            if (!cur.empty())
                tags.insert(cur);
        }
    }
    bool tag(const char *name) const
    {
        return tags.count(name) != 0;
    }
    void count(const char *c, uint64_t n = 1)
    {
        cls[c] += n;
    }
    void exclude(const char *tag, uint64_t n = 1)
    {
        excl[tag] += n;
    }
    // returns true when the hash is new
    bool nontrivial(uint64_t h)
    {
        if (h == 0)
            h = 1;
        if (nhashes >= TABLE / 2)
            return false;
        size_t i = (size_t)(h & (TABLE - 1));
        while (table[i] != 0) {
            if (table[i] == h)
                return false;
            i = (i + 1) & (TABLE - 1);
        }
        table[i] = h;
        nhashes++;
        pending.push_back(h);
        if (pending.size() >= 4000)
            flush();
        return true;
    }
    static std::string hex(const uint8_t *d, size_t n)
    {
        static const char *dg = "0123456789abcdef";
        std::string o;
        o.reserve(2 * n);
        for (size_t i = 0; i < n; i++) {
            o.push_back(dg[d[i] >> 4]);
            o.push_back(dg[d[i] & 15]);
        }
        return o;
    }
    // up to 3 samples per class and process (first one, then two pseudo-random later ones)
    void sample(const char *c, const uint8_t *d, size_t n)
    {
        int &k = sample_count[c];
        bool take = false;
        if (k == 0)
            take = true;
        else if (k < 3) {
            rng = rng * 6364136223846793005ull + 1442695040888963407ull;
            take = ((rng >> 33) % 97) == 0;
        }
        if (take && n <= 400) {
            k++;
            pending_samples.emplace_back(c, hex(d, n));
        }
    }
    void tick()
    {
        execs++;
        if (execs - flushed_execs >= 1000)
            flush();
    }
    void flush()
    {
        if (path.empty())
            return;
        std::string out;
        char buf[64];
        if (execs != flushed_execs) {
            snprintf(buf, sizeof buf, "E %llu\n", (unsigned long long)(execs - flushed_execs));
            out += buf;
            flushed_execs = execs;
        }
        for (auto &kv : cls) {
            uint64_t &f = cls_flushed[kv.first];
            if (kv.second != f) {
                snprintf(buf, sizeof buf, " %llu\n", (unsigned long long)(kv.second - f));
                out += "C " + kv.first + buf;
                f = kv.second;
            }
        }
        for (auto &kv : excl) {
            uint64_t &f = excl_flushed[kv.first];
            if (kv.second != f) {
                snprintf(buf, sizeof buf, " %llu\n", (unsigned long long)(kv.second - f));
                out += "X " + kv.first + buf;
                f = kv.second;
            }
        }
        for (size_t i = 0; i < pending.size(); i += 16) {
            out += "H";
            for (size_t j = i; j < pending.size() && j < i + 16; j++) {
                snprintf(buf, sizeof buf, " %016llx", (unsigned long long)pending[j]);
                out += buf;
            }
            out += "\n";
        }
        pending.clear();
        for (auto &s : pending_samples)
            out += "S " + s.first + " " + s.second + "\n";
        pending_samples.clear();
        if (out.empty())
            return;
        FILE *f = fopen(path.c_str(), "a");
        if (f) {
            fwrite(out.data(), 1, out.size(), f);
            fclose(f);
        }
    }
};

inline Stats &stats()
{
    static Stats *s = new Stats(); // never destroyed: used from atexit
    return *s;
}

inline void flush_at_exit()
{
    stats().flush();
}

inline uint64_t fnv(const uint8_t *d, size_t n, uint64_t h = 1469598103934665603ull)
{
    for (size_t i = 0; i < n; i++) {
        h ^= d[i];
        h *= 1099511628211ull;
    }
    // final avalanche
    h ^= h >> 33;
    h *= 0xff51afd7ed558ccdull;
    h ^= h >> 33;
    return h;
}

// A violation detected by the in-target oracle: report, flush, trap (libFuzzer saves crash-*).
[[noreturn]] inline void violation(const std::string &msg)
{
    fprintf(stderr, "\nVERIF-ORACLE-VIOLATION: %s\n", msg.c_str());
    fflush(stderr);
    stats().flush();
    __builtin_trap();
}

// A resource blow-up that would abort the process for reasons outside the property (e.g. GMP
// refusing a > 2^31-limb number).  Leaves no artifact; pbt/fuzz.py counts exit code 77 as noise
// and restarts the worker with its remaining run budget.
[[noreturn]] inline void resource_exit(const char *why)
{
    fprintf(stderr, "\nVERIF-RESOURCE-EXIT: %s\n", why);
    __sanitizer_print_stack_trace();
    fflush(stderr);
    stats().exclude("resource_exit");
    stats().flush();
    _exit(77);
}

// GMP aborts the process when an allocation fails ("GNU MP: Cannot allocate memory").  Requests above
// 256 MiB (numbers of > 2^31 bits: gamma(10**18), 2**(10**12) ...) are a resource blow-up of the
// *computation*, not the property under test: leave quietly with the noise exit code.
inline void *gmp_alloc(size_t n)
{
    if (n > ((size_t)1 << 28))
        resource_exit("GMP allocation above 256 MiB");
    void *p = malloc(n ? n : 1);
    if (!p)
        resource_exit("GMP allocation failed");
    return p;
}
inline void *gmp_realloc(void *q, size_t, size_t n)
{
    if (n > ((size_t)1 << 28))
        resource_exit("GMP allocation above 256 MiB");
    void *p = realloc(q, n ? n : 1);
    if (!p)
        resource_exit("GMP allocation failed");
    return p;
}
inline void gmp_free(void *p, size_t)
{
    free(p);
}
inline void install_gmp_guard()
{
    mp_set_memory_functions(gmp_alloc, gmp_realloc, gmp_free);
}

inline std::string printable(const std::string &s, size_t lim = 200)
{
    std::string o;
    for (unsigned char c : s) {
        if (o.size() > lim) {
            o += "...";
            break;
        }
        if (c >= 0x20 && c < 0x7f && c != '\\')
            o.push_back((char)c);
        else {
            char b[8];
            snprintf(b, sizeof b, "\\x%02x", c);
            o += b;
        }
    }
    return o;
}

} // namespace fz
#endif
