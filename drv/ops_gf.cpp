// GF(p)[x] ops (property C23): GaloisFieldDict arithmetic / factorisation and
// the GaloisField Basic wrapper.  A polynomial is the opaque object "GF"
// (shared_ptr<GaloisFieldDict>); (gf_obs v) turns objects (also inside vectors
// and maps) into {"p": modulus, "c": [coefficients low->high]}.
#include "drv.h"
#include <symengine/fields.h>
#include <symengine/polys/uintpoly.h>
#include <cstdlib>

using namespace SymEngine;
using namespace vd;

namespace
{
typedef GaloisFieldDict GFD;

std::shared_ptr<GFD> G(Args &a, size_t i)
{
    return argObj<GFD>(a, i, "GF");
}
Val mk(const GFD &d)
{
    return Val::object("GF", std::make_shared<GFD>(d));
}
Val obs1(const GFD &d)
{
    Val c = Val::vec();
    for (auto &x : d.get_dict())
        c.v.push_back(Val::integer(x));
    Val m = Val::map();
    m.put("p", Val::integer(d.modulo_));
    m.put("c", c);
    return m;
}
Val obs(const Val &v)
{
    if (v.k == Val::OBJ && v.s == "GF")
        return obs1(*std::static_pointer_cast<GFD>(v.obj));
    if (v.k == Val::VEC) {
        Val r = Val::vec();
        for (auto &x : v.v)
            r.v.push_back(obs(x));
        return r;
    }
    if (v.k == Val::MAP) {
        Val r = Val::map();
        for (size_t i = 0; i < v.v.size(); i++)
            r.put(v.keys[i], obs(v.v[i]));
        return r;
    }
    return v;
}
std::vector<integer_class> ivec(Args &a, size_t i)
{
    std::vector<integer_class> r;
    for (auto &x : argVec(a, i)) {
        if (x.k != Val::INT)
            throw Decline("sort: want Vec of Int");
        r.push_back(integer_class(x.s));
    }
    return r;
}
integer_class modulus(Args &a, size_t i)
{
    integer_class p = argInt(a, i);
    if (p < 2)
        throw Decline("modulus must be >= 2 (a prime is intended)");
    return p;
}
unsigned long small(Args &a, size_t i, long hi)
{
    long n = argLong(a, i);
    if (n < 0 || n > hi)
        throw Decline("count out of the bounded range");
    return (unsigned long)n;
}
Val pairs(const std::vector<std::pair<GFD, unsigned>> &v)
{
    Val r = Val::vec();
    for (auto &f : v)
        r.v.push_back(Val::vec({mk(f.first), Val::uinteger(f.second)}));
    return r;
}
Val gset(const std::set<GFD, GFD::DictLess> &s)
{
    Val r = Val::vec();
    for (auto &f : s)
        r.v.push_back(mk(f));
    return r;
}
} // namespace

// ---- harness only: the library seeds its gmp random states from std::rand()
OP(gf_srand)
{
    std::srand((unsigned)small(a, 0, 2147483647L));
    return Val::nil();
}

// ---- constructors / observers
OP(gf_from_vec)
{
    return mk(GFD::from_vec(ivec(a, 0), modulus(a, 1)));
}
OP(gf_from_map)
{
    // [[exp coef] ...]
    map_uint_mpz m;
    for (auto &x : argVec(a, 0)) {
        if (x.k != Val::VEC || x.v.size() != 2 || x.v[0].k != Val::INT || x.v[1].k != Val::INT)
            throw Decline("sort: want [[exp coef] ...]");
        integer_class e(x.v[0].s);
        if (e < 0 || e > 100000)
            throw Decline("exponent out of the bounded range");
        m[(unsigned)mp_get_ui(e)] = integer_class(x.v[1].s);
    }
    return mk(GFD(m, modulus(a, 1)));
}
OP(gf_from_int)
{
    return mk(GFD(argInt(a, 0), modulus(a, 1)));
}
OP(gf_from_cint)
{
    long v = argLong(a, 0);
    if (v < -2147483647L || v > 2147483647L)
        throw Decline("int range");
    int i = (int)v;
    return mk(GFD(i, modulus(a, 1)));
}
OP(gf_obs)
{
    need(a, 1);
    return obs(a[0]);
}
OP(gf_degree)
{
    return Val::uinteger(G(a, 0)->degree());
}
OP(gf_size)
{
    return Val::uinteger(G(a, 0)->size());
}
OP(gf_empty)
{
    return Val::boolean(G(a, 0)->empty());
}
OP(gf_is_one)
{
    return Val::boolean(G(a, 0)->is_one());
}
OP(gf_get_coeff)
{
    return Val::integer(G(a, 0)->get_coeff((unsigned)small(a, 1, 1000000)));
}
OP(gf_eq)
{
    return Val::boolean(*G(a, 0) == *G(a, 1));
}
OP(gf_ne)
{
    return Val::boolean(*G(a, 0) != *G(a, 1));
}

// ---- ring operations
OP(gf_add)
{
    return mk(*G(a, 0) + *G(a, 1));
}
OP(gf_sub)
{
    return mk(*G(a, 0) - *G(a, 1));
}
OP(gf_mul)
{
    return mk(*G(a, 0) * *G(a, 1));
}
OP(gf_mul_ip)
{
    GFD c = *G(a, 0);
    c *= *G(a, 1);
    return mk(c);
}
OP(gf_quo)
{
    return mk(*G(a, 0) / *G(a, 1));
}
OP(gf_rem)
{
    return mk(*G(a, 0) % *G(a, 1));
}
OP(gf_neg)
{
    return mk(-*G(a, 0));
}
OP(gf_negate)
{
    GFD c = *G(a, 0);
    c.negate();
    return mk(c);
}
OP(gf_add_int)
{
    return mk(*G(a, 0) + argInt(a, 1));
}
OP(gf_sub_int)
{
    return mk(*G(a, 0) - argInt(a, 1));
}
OP(gf_mul_int)
{
    GFD c = *G(a, 0);
    c *= argInt(a, 1);
    return mk(c);
}
OP(gf_quo_int)
{
    return mk(*G(a, 0) / argInt(a, 1));
}
OP(gf_rem_int)
{
    return mk(*G(a, 0) % argInt(a, 1));
}
OP(gf_div)
{
    GFD q, r;
    G(a, 0)->gf_div(*G(a, 1), outArg(q), outArg(r));
    return Val::vec({mk(q), mk(r)});
}
OP(gf_lshift)
{
    return mk(G(a, 0)->gf_lshift(integer_class(small(a, 1, 100000))));
}
OP(gf_rshift)
{
    GFD q, r;
    G(a, 0)->gf_rshift(integer_class(small(a, 1, 100000)), outArg(q), outArg(r));
    return Val::vec({mk(q), mk(r)});
}
OP(gf_sqr)
{
    return mk(G(a, 0)->gf_sqr());
}
OP(gf_pow)
{
    return mk(G(a, 0)->gf_pow(small(a, 1, 5000)));
}
OP(gf_pow_static)
{
    return mk(GFD::pow(*G(a, 0), (unsigned)small(a, 1, 5000)));
}
OP(gf_monic)
{
    integer_class lc;
    GFD m;
    G(a, 0)->gf_monic(lc, outArg(m));
    return Val::vec({Val::integer(lc), mk(m)});
}
OP(gf_gcd)
{
    return mk(G(a, 0)->gf_gcd(*G(a, 1)));
}
OP(gf_lcm)
{
    return mk(G(a, 0)->gf_lcm(*G(a, 1)));
}
OP(gf_diff)
{
    return mk(G(a, 0)->gf_diff());
}
OP(gf_eval)
{
    return Val::integer(G(a, 0)->gf_eval(argInt(a, 1)));
}
OP(gf_multi_eval)
{
    vec_integer_class v = ivec(a, 1);
    vec_integer_class r = G(a, 0)->gf_multi_eval(v);
    Val o = Val::vec();
    for (auto &x : r)
        o.v.push_back(Val::integer(x));
    return o;
}

// ---- modular operations: first argument is the modulus polynomial (*this)
OP(gf_compose_mod)
{
    // g(h) mod f
    return mk(G(a, 0)->gf_compose_mod(*G(a, 1), *G(a, 2)));
}
OP(gf_pow_mod)
{
    // g**n mod f
    return mk(G(a, 0)->gf_pow_mod(*G(a, 1), small(a, 2, 1000000000L)));
}
OP(gf_frobenius_monomial_base)
{
    Val r = Val::vec();
    for (auto &x : G(a, 0)->gf_frobenius_monomial_base())
        r.v.push_back(mk(x));
    return r;
}
OP(gf_frobenius_map)
{
    // f**p mod g, with the monomial base of g as the header prescribes
    auto f = G(a, 0), g = G(a, 1);
    std::vector<GFD> b = g->gf_frobenius_monomial_base();
    return mk(f->gf_frobenius_map(*g, b));
}
OP(gf_trace_map)
{
    // f.gf_trace_map(a, b, c, n)
    auto r = G(a, 0)->gf_trace_map(*G(a, 1), *G(a, 2), *G(a, 3), small(a, 4, 100000));
    return Val::vec({mk(r.first), mk(r.second)});
}
OP(gf_trace_map_frob)
{
    // f._gf_trace_map(g, n, monomial base of f): g + g**p + ... + g**(p**(n-1)) mod f
    // (the helper of gf_edf_shoup; contract of sympy's _gf_trace_map, which it ports)
    auto f = G(a, 0), g = G(a, 1);
    std::vector<GFD> b = f->gf_frobenius_monomial_base();
    return mk(f->_gf_trace_map(*g, small(a, 2, 1000), b));
}

// ---- square-free / factorisation
OP(gf_is_sqf)
{
    return Val::boolean(G(a, 0)->gf_is_sqf());
}
OP(gf_sqf_list)
{
    return pairs(G(a, 0)->gf_sqf_list());
}
OP(gf_sqf_part)
{
    return mk(G(a, 0)->gf_sqf_part());
}
OP(gf_ddf_zassenhaus)
{
    return pairs(G(a, 0)->gf_ddf_zassenhaus());
}
OP(gf_ddf_shoup)
{
    return pairs(G(a, 0)->gf_ddf_shoup());
}
OP(gf_edf_zassenhaus)
{
    unsigned n = (unsigned)small(a, 1, 100000);
    if (n == 0)
        throw Decline("edf: n must be a positive divisor of the degree");
    return gset(G(a, 0)->gf_edf_zassenhaus(n));
}
OP(gf_edf_shoup)
{
    unsigned n = (unsigned)small(a, 1, 100000);
    if (n == 0)
        throw Decline("edf: n must be a positive divisor of the degree");
    return gset(G(a, 0)->gf_edf_shoup(n));
}
OP(gf_zassenhaus)
{
    return gset(G(a, 0)->gf_zassenhaus());
}
OP(gf_shoup)
{
    return gset(G(a, 0)->gf_shoup());
}
OP(gf_factor)
{
    auto r = G(a, 0)->gf_factor();
    Val fs = Val::vec();
    for (auto &f : r.second)
        fs.v.push_back(Val::vec({mk(f.first), Val::uinteger(f.second)}));
    return Val::vec({Val::integer(r.first), fs});
}

// ---- GaloisField (the Basic wrapper); variable name, coefficient vector, modulus
static RCP<const GaloisField> GB(Args &a, size_t i)
{
    RCP<const Basic> b = argB(a, i);
    if (!is_a<GaloisField>(*b))
        throw Decline("sort: want GaloisField");
    return rcp_static_cast<const GaloisField>(b);
}
OP(gfb_from_vec)
{
    return Val::basic(GaloisField::from_vec(symbol(argStr(a, 0)), ivec(a, 1), modulus(a, 2)));
}
OP(gfb_from_dict)
{
    GFD d = *G(a, 1);
    return Val::basic(GaloisField::from_dict(symbol(argStr(a, 0)), std::move(d)));
}
OP(gfb_from_uintpoly)
{
    RCP<const UIntPoly> u = UIntPoly::from_vec(symbol(argStr(a, 0)), ivec(a, 1));
    return Val::basic(GaloisField::from_uintpoly(*u, modulus(a, 2)));
}
OP(gfb_poly)
{
    return mk(GB(a, 0)->get_poly());
}
OP(gfb_add)
{
    return Val::basic(add_upoly(*GB(a, 0), *GB(a, 1)));
}
OP(gfb_sub)
{
    return Val::basic(sub_upoly(*GB(a, 0), *GB(a, 1)));
}
OP(gfb_mul)
{
    return Val::basic(mul_upoly(*GB(a, 0), *GB(a, 1)));
}
OP(gfb_neg)
{
    return Val::basic(neg_upoly(*GB(a, 0)));
}
OP(gfb_quo)
{
    return Val::basic(quo_upoly(*GB(a, 0), *GB(a, 1)));
}
OP(gfb_pow)
{
    return Val::basic(pow_upoly(*GB(a, 0), (unsigned)small(a, 1, 5000)));
}
OP(gfb_eval)
{
    return Val::integer(GB(a, 0)->eval(argInt(a, 1)));
}
OP(gfb_multieval)
{
    vec_integer_class r = GB(a, 0)->multieval(ivec(a, 1));
    Val o = Val::vec();
    for (auto &x : r)
        o.v.push_back(Val::integer(x));
    return o;
}
OP(gfb_get_coeff)
{
    return Val::integer(GB(a, 0)->get_coeff((unsigned)small(a, 1, 1000000)));
}
OP(gfb_degree)
{
    return Val::uinteger(GB(a, 0)->get_degree());
}
OP(gfb_size)
{
    return Val::integer((long)GB(a, 0)->size());
}
OP(gfb_eq)
{
    return Val::boolean(eq(*GB(a, 0), *GB(a, 1)));
}
OP(gfb_hash_eq)
{
    return Val::boolean(GB(a, 0)->hash() == GB(a, 1)->hash());
}
OP(gfb_compare)
{
    return Val::integer((long)GB(a, 0)->__cmp__(*GB(a, 1)));
}
