// Machine-precision evaluators: eval_double family (C12), lambda double visitors (C13)
#include "drv.h"
#include <symengine/eval_double.h>
#include <symengine/lambda_double.h>

#include <complex>

using namespace SymEngine;
using namespace vd;

// ---- C12: eval_double.h
OP(eval_double)
{
    return Val::dbl(eval_double(*argB(a, 0)));
}
OP(eval_double_sd)
{
    return Val::dbl(eval_double_single_dispatch(*argB(a, 0)));
}
OP(eval_double_vp)
{
    return Val::dbl(eval_double_visitor_pattern(*argB(a, 0)));
}
OP(eval_complex_double)
{
    std::complex<double> c = eval_complex_double(*argB(a, 0));
    return Val::vec({Val::dbl(c.real()), Val::dbl(c.imag())});
}

// ---- C13: lambda_double.h
// The visitor does not expose the number of outputs of its last init; the
// wrapper remembers it (and whether the last init returned normally) so that
// call() is only issued with a correctly sized output buffer.  The buffer is
// a heap vector of exactly that size: a visitor that writes more results than
// outputs were given is an ASan heap-buffer-overflow.
namespace
{
struct LamR {
    LambdaRealDoubleVisitor v;
    size_t nin = 0, nout = 0;
    bool valid = false;
};
struct LamC {
    LambdaComplexDoubleVisitor v;
    size_t nin = 0, nout = 0;
    bool valid = false;
};
} // namespace

OP(lam_new)
{
    const std::string &k = argStr(a, 0);
    if (k == "real")
        return Val::object("LamR", std::make_shared<LamR>());
    if (k == "complex")
        return Val::object("LamC", std::make_shared<LamC>());
    throw Decline("lam_new: real|complex");
}

template <class W>
static Val lam_init_impl(W &w, Args &a)
{
    vec_basic inputs = argVecB(a, 1);
    vec_basic outputs = argVecB(a, 2);
    bool cse = argFlag(a, 3);
    for (auto &s : inputs)
        if (!is_a_sub<Symbol>(*s))
            throw Decline("lam_init: inputs must be symbols");
    if (outputs.empty())
        throw Decline("lam_init: no outputs");
    w.valid = false;
    w.v.init(inputs, outputs, cse); // may throw: the object stays !valid
    w.nin = inputs.size();
    w.nout = outputs.size();
    w.valid = true;
    return Val::integer((long)w.nout);
}

OP(lam_init)
{
    if (a.size() < 4 || a[0].k != Val::OBJ)
        throw Decline("lam_init obj [syms] [outs] cse");
    if (a[0].s == "LamR")
        return lam_init_impl(*argObj<LamR>(a, 0, "LamR"), a);
    if (a[0].s == "LamC")
        return lam_init_impl(*argObj<LamC>(a, 0, "LamC"), a);
    throw Decline("sort: want LamR/LamC");
}

OP(lam_call)
{
    if (a.size() < 2 || a[0].k != Val::OBJ)
        throw Decline("lam_call obj [inputs]");
    std::vector<Val> &in = argVec(a, 1);
    if (a[0].s == "LamR") {
        auto w = argObj<LamR>(a, 0, "LamR");
        if (!w->valid)
            throw Decline("lam_call: no successful init");
        if (in.size() != w->nin)
            throw Decline("lam_call: wrong number of inputs");
        std::vector<double> x(in.size());
        for (size_t i = 0; i < in.size(); i++) {
            if (in[i].k != Val::DBL && in[i].k != Val::INT)
                throw Decline("lam_call: inputs must be doubles");
            x[i] = in[i].k == Val::DBL ? in[i].d : std::stod(in[i].s);
        }
        std::vector<double> out(w->nout);
        w->v.call(out.data(), x.data());
        Val r = Val::vec();
        for (double d : out)
            r.v.push_back(Val::dbl(d));
        return r;
    }
    if (a[0].s == "LamC") {
        auto w = argObj<LamC>(a, 0, "LamC");
        if (!w->valid)
            throw Decline("lam_call: no successful init");
        if (in.size() != w->nin)
            throw Decline("lam_call: wrong number of inputs");
        std::vector<std::complex<double>> x(in.size());
        for (size_t i = 0; i < in.size(); i++) {
            if (in[i].k != Val::VEC || in[i].v.size() != 2 || in[i].v[0].k != Val::DBL
                || in[i].v[1].k != Val::DBL)
                throw Decline("lam_call: complex inputs are [re im] pairs of doubles");
            x[i] = std::complex<double>(in[i].v[0].d, in[i].v[1].d);
        }
        std::vector<std::complex<double>> out(w->nout);
        w->v.call(out.data(), x.data());
        Val r = Val::vec();
        for (auto &c : out)
            r.v.push_back(Val::vec({Val::dbl(c.real()), Val::dbl(c.imag())}));
        return r;
    }
    throw Decline("sort: want LamR/LamC");
}
