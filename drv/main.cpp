// Driver process: one request line (a program) -> one response line (JSON).
#include "drv.h"
#include <iostream>
#include <cstdio>

int main(int argc, char **argv)
{
    std::ios::sync_with_stdio(false);
    if (argc > 1 && std::string(argv[1]) == "--ops") {
        for (auto &p : vd::optable())
            std::cout << p.first << "\n";
        return 0;
    }
    std::string line;
    while (std::getline(std::cin, line)) {
        std::string out = vd::run_program(line);
        out.push_back('\n');
        fwrite(out.data(), 1, out.size(), stdout);
        fflush(stdout);
    }
    return 0;
}
