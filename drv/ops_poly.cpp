// Polynomial ops (C21 univariate: UIntPoly URatPoly UExprPoly; C22 multivariate: MIntPoly MExprPoly).
// Polynomials are Basic values; the raw dump (dump.cpp) prints their variable(s) and coefficient dictionary.
// Every op is one public API call; argument shapes outside an API's documented precondition are declined.
#include "drv.h"
#include <symengine/polys/uintpoly.h>
#include <symengine/polys/uratpoly.h>
#include <symengine/polys/uexprpoly.h>
#include <symengine/polys/msymenginepoly.h>
#include <symengine/polys/basic_conversions.h>
#include <symengine/expression.h>
#include <set>

using namespace SymEngine;
using namespace vd;

namespace
{

unsigned argUInt(Args &a, size_t i, unsigned long max = 0xffffffffUL)
{
    integer_class z = argInt(a, i);
    if (z < 0 || z > integer_class(max))
        throw Decline("unsigned out of range");
    return (unsigned)mp_get_ui(z);
}

integer_class valInt(const Val &v)
{
    if (v.k == Val::INT)
        return integer_class(v.s);
    if (v.k == Val::B && is_a<Integer>(*v.b))
        return down_cast<const Integer &>(*v.b).as_integer_class();
    throw Decline("sort: want Int");
}

unsigned valUInt(const Val &v)
{
    integer_class z = valInt(v);
    if (z < 0 || z > integer_class(0x7fffffffL))
        throw Decline("exponent out of range");
    return (unsigned)mp_get_ui(z);
}

// a rational literal: an int, a [num den] pair, or an Integer/Rational Basic
rational_class valRat(const Val &v)
{
    if (v.k == Val::INT)
        return rational_class(integer_class(v.s));
    if (v.k == Val::VEC && v.v.size() == 2) {
        integer_class n = valInt(v.v[0]), d = valInt(v.v[1]);
        if (d == 0)
            throw Decline("zero denominator");
        rational_class q(n, d);
        canonicalize(q);
        return q;
    }
    if (v.k == Val::B && is_a<Integer>(*v.b))
        return rational_class(down_cast<const Integer &>(*v.b).as_integer_class());
    if (v.k == Val::B && is_a<Rational>(*v.b))
        return down_cast<const Rational &>(*v.b).as_rational_class();
    throw Decline("sort: want Rat");
}

Expression valExpr(const Val &v)
{
    if (v.k == Val::B)
        return Expression(v.b);
    if (v.k == Val::INT)
        return Expression(SymEngine::integer(integer_class(v.s)));
    throw Decline("sort: want Expr");
}

Val ratVal(const rational_class &q)
{
    return Val::vec({Val::integer(get_num(q)), Val::integer(get_den(q))});
}

const std::vector<Val> &pairList(const Val &v, size_t n)
{
    if (v.k != Val::VEC || v.v.size() != n)
        throw Decline("sort: want tuple");
    return v.v;
}

enum Kind { KI, KQ, KE, KMI, KME, KNONE };
Kind kindOf(const Basic &b)
{
    if (is_a<UIntPoly>(b))
        return KI;
    if (is_a<URatPoly>(b))
        return KQ;
    if (is_a<UExprPoly>(b))
        return KE;
    if (is_a<MIntPoly>(b))
        return KMI;
    if (is_a<MExprPoly>(b))
        return KME;
    return KNONE;
}
Kind kindName(const std::string &s)
{
    if (s == "UIntPoly")
        return KI;
    if (s == "URatPoly")
        return KQ;
    if (s == "UExprPoly")
        return KE;
    if (s == "MIntPoly")
        return KMI;
    if (s == "MExprPoly")
        return KME;
    throw Decline("unknown polynomial class");
}
template <class P>
const P &as(const RCP<const Basic> &b)
{
    return down_cast<const P &>(*b);
}
// both operands must be of one univariate class
Kind same2(Args &a)
{
    Kind k = kindOf(*argB(a, 0));
    if (k == KNONE || k != kindOf(*argB(a, 1)))
        throw Decline("sort: want two polynomials of one class");
    return k;
}

} // namespace

// ------------------------------------------------------------ univariate constructors
// (uint_from_dict var [[exp coef] ...])      UIntPoly::from_dict
OP(uint_from_dict)
{
    map_uint_mpz d;
    for (auto &p : argVec(a, 1)) {
        auto &t = pairList(p, 2);
        if (!d.insert({valUInt(t[0]), valInt(t[1])}).second)
            throw Decline("duplicate exponent");
    }
    return Val::basic(UIntPoly::from_dict(argB(a, 0), std::move(d)));
}
// (uint_from_vec var [c0 c1 ...])            UIntPoly::from_vec
OP(uint_from_vec)
{
    std::vector<integer_class> v;
    for (auto &c : argVec(a, 1))
        v.push_back(valInt(c));
    return Val::basic(UIntPoly::from_vec(argB(a, 0), v));
}
// (urat_from_dict var [[exp q] ...]) q = int | [num den] | Number
OP(urat_from_dict)
{
    map_uint_mpq d;
    for (auto &p : argVec(a, 1)) {
        auto &t = pairList(p, 2);
        if (!d.insert({valUInt(t[0]), valRat(t[1])}).second)
            throw Decline("duplicate exponent");
    }
    return Val::basic(URatPoly::from_dict(argB(a, 0), std::move(d)));
}
OP(urat_from_vec)
{
    std::vector<rational_class> v;
    for (auto &c : argVec(a, 1))
        v.push_back(valRat(c));
    return Val::basic(URatPoly::from_vec(argB(a, 0), v));
}
// (uexpr_from_dict var [[exp B] ...])  (exponents >= 0 only: polynomials)
OP(uexpr_from_dict)
{
    map_int_Expr d;
    for (auto &p : argVec(a, 1)) {
        auto &t = pairList(p, 2);
        if (!d.insert({(int)valUInt(t[0]), valExpr(t[1])}).second)
            throw Decline("duplicate exponent");
    }
    return Val::basic(UExprPoly::from_dict(argB(a, 0), std::move(d)));
}
OP(uexpr_from_vec)
{
    std::vector<Expression> v;
    for (auto &c : argVec(a, 1))
        v.push_back(valExpr(c));
    return Val::basic(UExprPoly::from_vec(argB(a, 0), v));
}

// ------------------------------------------------------------ univariate arithmetic
#define UP_BIN(opname, fn)                                                                         \
    OP(opname)                                                                                     \
    {                                                                                              \
        switch (same2(a)) {                                                                        \
            case KI:                                                                               \
                return Val::basic(fn(as<UIntPoly>(a[0].b), as<UIntPoly>(a[1].b)));                 \
            case KQ:                                                                               \
                return Val::basic(fn(as<URatPoly>(a[0].b), as<URatPoly>(a[1].b)));                 \
            case KE:                                                                               \
                return Val::basic(fn(as<UExprPoly>(a[0].b), as<UExprPoly>(a[1].b)));               \
            default:                                                                               \
                throw Decline("sort: want univariate polynomials");                                \
        }                                                                                          \
    }
UP_BIN(add_upoly, add_upoly)
UP_BIN(sub_upoly, sub_upoly)
UP_BIN(mul_upoly, mul_upoly)

OP(neg_upoly)
{
    RCP<const Basic> p = argB(a, 0);
    switch (kindOf(*p)) {
        case KI:
            return Val::basic(neg_upoly(as<UIntPoly>(p)));
        case KQ:
            return Val::basic(neg_upoly(as<URatPoly>(p)));
        case KE:
            return Val::basic(neg_upoly(as<UExprPoly>(p)));
        default:
            throw Decline("sort: want univariate polynomial");
    }
}
// (pow_upoly p n)  n is an `unsigned int`
OP(pow_upoly)
{
    RCP<const Basic> p = argB(a, 0);
    unsigned n = argUInt(a, 1);
    switch (kindOf(*p)) {
        case KI:
            return Val::basic(pow_upoly(as<UIntPoly>(p), n));
        case KQ:
            return Val::basic(pow_upoly(as<URatPoly>(p), n));
        case KE:
            return Val::basic(pow_upoly(as<UExprPoly>(p), n));
        default:
            throw Decline("sort: want univariate polynomial");
    }
}
// (divides_upoly a b) -> [flag, quotient-or-null] ; "true & sets out to b/a if a exactly divides b"
// (only UIntPoly / URatPoly have it; quo_upoly is not instantiable for the SymEngine containers: no operator/=)
OP(divides_upoly)
{
    switch (same2(a)) {
        case KI: {
            RCP<const UIntPoly> q;
            bool r = divides_upoly(as<UIntPoly>(a[0].b), as<UIntPoly>(a[1].b), outArg(q));
            return Val::vec({Val::boolean(r), r ? Val::basic(q) : Val::nil()});
        }
        case KQ: {
            RCP<const URatPoly> q;
            bool r = divides_upoly(as<URatPoly>(a[0].b), as<URatPoly>(a[1].b), outArg(q));
            return Val::vec({Val::boolean(r), r ? Val::basic(q) : Val::nil()});
        }
        default:
            throw Decline("divides_upoly: UIntPoly/URatPoly only");
    }
}

// ------------------------------------------------------------ univariate queries
// (upoly_eval p x)   x: int (UIntPoly) | rational literal (URatPoly) | Basic (UExprPoly)
OP(upoly_eval)
{
    RCP<const Basic> p = argB(a, 0);
    need(a, 2);
    switch (kindOf(*p)) {
        case KI:
            return Val::integer(as<UIntPoly>(p).eval(valInt(a[1])));
        case KQ:
            return ratVal(as<URatPoly>(p).eval(valRat(a[1])));
        case KE:
            return Val::basic(as<UExprPoly>(p).eval(valExpr(a[1])).get_basic());
        default:
            throw Decline("sort: want univariate polynomial");
    }
}
// (upoly_multieval p [x ...])  UNonExprPoly::multieval
OP(upoly_multieval)
{
    RCP<const Basic> p = argB(a, 0);
    std::vector<Val> out;
    switch (kindOf(*p)) {
        case KI: {
            std::vector<integer_class> v;
            for (auto &x : argVec(a, 1))
                v.push_back(valInt(x));
            for (auto &r : as<UIntPoly>(p).multieval(v))
                out.push_back(Val::integer(r));
            return Val::vec(out);
        }
        case KQ: {
            std::vector<rational_class> v;
            for (auto &x : argVec(a, 1))
                v.push_back(valRat(x));
            for (auto &r : as<URatPoly>(p).multieval(v))
                out.push_back(ratVal(r));
            return Val::vec(out);
        }
        default:
            throw Decline("multieval: UIntPoly/URatPoly only");
    }
}
OP(upoly_get_coeff)
{
    RCP<const Basic> p = argB(a, 0);
    unsigned i = argUInt(a, 1, 0x7fffffffUL);
    switch (kindOf(*p)) {
        case KI:
            return Val::integer(as<UIntPoly>(p).get_coeff(i));
        case KQ:
            return ratVal(as<URatPoly>(p).get_coeff(i));
        case KE:
            return Val::basic(as<UExprPoly>(p).get_coeff((int)i).get_basic());
        default:
            throw Decline("sort: want univariate polynomial");
    }
}
OP(upoly_get_degree)
{
    RCP<const Basic> p = argB(a, 0);
    switch (kindOf(*p)) {
        case KI:
            return Val::integer((long)as<UIntPoly>(p).get_degree());
        case KQ:
            return Val::integer((long)as<URatPoly>(p).get_degree());
        case KE:
            return Val::integer((long)as<UExprPoly>(p).get_degree());
        default:
            throw Decline("sort: want univariate polynomial");
    }
}
OP(upoly_get_lc)
{
    RCP<const Basic> p = argB(a, 0);
    switch (kindOf(*p)) {
        case KI:
            return Val::integer(as<UIntPoly>(p).get_lc());
        case KQ:
            return ratVal(as<URatPoly>(p).get_lc());
        case KE: // UExprPolyBase has no get_lc; the container's accessor is the public route
            return Val::basic(as<UExprPoly>(p).get_poly().get_lc().get_basic());
        default:
            throw Decline("sort: want univariate polynomial");
    }
}
// size(): degree + 1, 0 for the zero polynomial
OP(upoly_size)
{
    RCP<const Basic> p = argB(a, 0);
    switch (kindOf(*p)) {
        case KI:
            return Val::integer((long)as<UIntPoly>(p).size());
        case KQ:
            return Val::integer((long)as<URatPoly>(p).size());
        case KE:
            return Val::integer((long)as<UExprPoly>(p).size());
        default:
            throw Decline("sort: want univariate polynomial");
    }
}
OP(upoly_as_symbolic)
{
    RCP<const Basic> p = argB(a, 0);
    switch (kindOf(*p)) {
        case KI:
            return Val::basic(as<UIntPoly>(p).as_symbolic());
        case KQ:
            return Val::basic(as<URatPoly>(p).as_symbolic());
        case KE:
            return Val::basic(as<UExprPoly>(p).as_symbolic());
        default:
            throw Decline("sort: want univariate polynomial");
    }
}
// (upoly_from_basic "UIntPoly" e [ex])       generator found automatically
OP(upoly_from_basic)
{
    Kind k = kindName(argStr(a, 0));
    RCP<const Basic> e = argB(a, 1);
    bool ex = a.size() > 2 ? argFlag(a, 2) : false;
    switch (k) {
        case KI:
            return Val::basic(from_basic<UIntPoly>(e, ex));
        case KQ:
            return Val::basic(from_basic<URatPoly>(e, ex));
        case KE:
            return Val::basic(from_basic<UExprPoly>(e, ex));
        default:
            throw Decline("want a univariate class name");
    }
}
// (upoly_from_basic_gen "UIntPoly" e gen [ex])
OP(upoly_from_basic_gen)
{
    Kind k = kindName(argStr(a, 0));
    RCP<const Basic> e = argB(a, 1), g = argB(a, 2);
    bool ex = a.size() > 3 ? argFlag(a, 3) : false;
    switch (k) {
        case KI:
            return Val::basic(from_basic<UIntPoly>(e, g, ex));
        case KQ:
            return Val::basic(from_basic<URatPoly>(e, g, ex));
        case KE:
            return Val::basic(from_basic<UExprPoly>(e, g, ex));
        default:
            throw Decline("want a univariate class name");
    }
}
// (find_gens_poly e) -> [[base exp] ...]
OP(find_gens_poly)
{
    umap_basic_num g = _find_gens_poly(argB(a, 0));
    std::vector<Val> out;
    for (auto &p : g)
        out.push_back(Val::vec({Val::basic(p.first), Val::basic(p.second)}));
    return Val::vec(out);
}

// ------------------------------------------------------------ multivariate
namespace
{
// distinct generators only: from_dict maps every position of the vector to one variable
vec_basic argVars(Args &a, size_t i)
{
    vec_basic v = argVecB(a, i);
    set_basic s(v.begin(), v.end());
    if (s.size() != v.size())
        throw Decline("from_dict: repeated variable");
    return v;
}
} // namespace

// (mint_from_dict [vars] [[[e1 e2 ...] coef] ...])
OP(mint_from_dict)
{
    vec_basic vars = argVars(a, 0);
    umap_uvec_mpz d;
    for (auto &p : argVec(a, 1)) {
        auto &t = pairList(p, 2);
        auto &ev = pairList(t[0], vars.size());
        vec_uint e;
        for (auto &x : ev)
            e.push_back(valUInt(x));
        if (!d.insert({e, valInt(t[1])}).second)
            throw Decline("duplicate monomial");
    }
    return Val::basic(MIntPoly::from_dict(vars, std::move(d)));
}
OP(mexpr_from_dict)
{
    vec_basic vars = argVars(a, 0);
    umap_vec_expr d;
    for (auto &p : argVec(a, 1)) {
        auto &t = pairList(p, 2);
        auto &ev = pairList(t[0], vars.size());
        vec_int e;
        for (auto &x : ev)
            e.push_back((int)valUInt(x));
        if (!d.insert({e, valExpr(t[1])}).second)
            throw Decline("duplicate monomial");
    }
    return Val::basic(MExprPoly::from_dict(vars, std::move(d)));
}

#define MP_BIN(opname, fn)                                                                         \
    OP(opname)                                                                                     \
    {                                                                                              \
        switch (same2(a)) {                                                                        \
            case KMI:                                                                              \
                return Val::basic(fn(as<MIntPoly>(a[0].b), as<MIntPoly>(a[1].b)));                 \
            case KME:                                                                              \
                return Val::basic(fn(as<MExprPoly>(a[0].b), as<MExprPoly>(a[1].b)));               \
            default:                                                                               \
                throw Decline("sort: want multivariate polynomials");                              \
        }                                                                                          \
    }
MP_BIN(add_mpoly, add_mpoly)
MP_BIN(sub_mpoly, sub_mpoly)
MP_BIN(mul_mpoly, mul_mpoly)

OP(neg_mpoly)
{
    RCP<const Basic> p = argB(a, 0);
    switch (kindOf(*p)) {
        case KMI:
            return Val::basic(neg_mpoly(as<MIntPoly>(p)));
        case KME:
            return Val::basic(neg_mpoly(as<MExprPoly>(p)));
        default:
            throw Decline("sort: want multivariate polynomial");
    }
}
OP(pow_mpoly)
{
    RCP<const Basic> p = argB(a, 0);
    unsigned n = argUInt(a, 1);
    switch (kindOf(*p)) {
        case KMI:
            return Val::basic(pow_mpoly(as<MIntPoly>(p), n));
        case KME:
            return Val::basic(pow_mpoly(as<MExprPoly>(p), n));
        default:
            throw Decline("sort: want multivariate polynomial");
    }
}
// (mpoly_eval p [[var value] ...]) ; a value is required for every variable of p ("TODO: handle missing values")
OP(mpoly_eval)
{
    RCP<const Basic> p = argB(a, 0);
    Kind k = kindOf(*p);
    if (k != KMI && k != KME)
        throw Decline("sort: want multivariate polynomial");
    std::map<RCP<const Basic>, integer_class, RCPBasicKeyLess> vi;
    std::map<RCP<const Basic>, Expression, RCPBasicKeyLess> ve;
    for (auto &q : argVec(a, 1)) {
        auto &t = pairList(q, 2);
        if (t[0].k != Val::B)
            throw Decline("sort: want variable");
        if (k == KMI)
            vi[t[0].b] = valInt(t[1]);
        else
            ve[t[0].b] = valExpr(t[1]);
    }
    const set_basic &vars = k == KMI ? as<MIntPoly>(p).get_vars() : as<MExprPoly>(p).get_vars();
    for (auto &s : vars)
        if (k == KMI ? vi.find(s) == vi.end() : ve.find(s) == ve.end())
            throw Decline("eval: value missing for a variable");
    if (k == KMI)
        return Val::integer(as<MIntPoly>(p).eval(vi));
    return Val::basic(as<MExprPoly>(p).eval(ve).get_basic());
}
OP(mpoly_as_symbolic)
{
    RCP<const Basic> p = argB(a, 0);
    switch (kindOf(*p)) {
        case KMI:
            return Val::basic(as<MIntPoly>(p).as_symbolic());
        case KME:
            return Val::basic(as<MExprPoly>(p).as_symbolic());
        default:
            throw Decline("sort: want multivariate polynomial");
    }
}
// (mpoly_from_basic "MIntPoly" e [ex])
OP(mpoly_from_basic)
{
    Kind k = kindName(argStr(a, 0));
    RCP<const Basic> e = argB(a, 1);
    bool ex = a.size() > 2 ? argFlag(a, 2) : false;
    switch (k) {
        case KMI:
            return Val::basic(from_basic<MIntPoly>(e, ex));
        case KME:
            return Val::basic(from_basic<MExprPoly>(e, ex));
        default:
            throw Decline("want a multivariate class name");
    }
}
// (mpoly_from_basic_gens "MIntPoly" e [gens] [ex])
OP(mpoly_from_basic_gens)
{
    Kind k = kindName(argStr(a, 0));
    RCP<const Basic> e = argB(a, 1);
    set_basic gens;
    for (auto &g : argVecB(a, 2))
        gens.insert(g);
    bool ex = a.size() > 3 ? argFlag(a, 3) : false;
    switch (k) {
        case KMI:
            return Val::basic(from_basic<MIntPoly>(e, gens, ex));
        case KME:
            return Val::basic(from_basic<MExprPoly>(e, gens, ex));
        default:
            throw Decline("want a multivariate class name");
    }
}
