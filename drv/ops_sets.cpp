// Logic, relationals, piecewise, sets, solvers
#include "drv.h"
#include <symengine/solve.h>
#include <symengine/matrix.h>

using namespace SymEngine;
using namespace vd;

#define REL(name, fn)                                                          \
    OP(name)                                                                   \
    {                                                                          \
        return Val::basic(fn(argB(a, 0), argB(a, 1)));                         \
    }
REL(Eq, Eq)
REL(Ne, Ne)
REL(Lt, Lt)
REL(Le, Le)
REL(Gt, Gt)
REL(Ge, Ge)
OP(Eq1)
{
    return Val::basic(Eq(argB(a, 0)));
}

static set_boolean argSetBool(Args &a, size_t i)
{
    set_boolean s;
    for (auto &x : argVec(a, i)) {
        if (x.k != Val::B || !is_a_Boolean(*x.b))
            throw Decline("sort: want Boolean vec");
        s.insert(rcp_static_cast<const Boolean>(x.b));
    }
    return s;
}
static vec_boolean argVecBool(Args &a, size_t i)
{
    vec_boolean s;
    for (auto &x : argVec(a, i)) {
        if (x.k != Val::B || !is_a_Boolean(*x.b))
            throw Decline("sort: want Boolean vec");
        s.push_back(rcp_static_cast<const Boolean>(x.b));
    }
    return s;
}
OP(true)
{
    return Val::basic(boolTrue);
}
OP(false)
{
    return Val::basic(boolFalse);
}
OP(and)
{
    return Val::basic(logical_and(argSetBool(a, 0)));
}
OP(or)
{
    return Val::basic(logical_or(argSetBool(a, 0)));
}
OP(nand)
{
    return Val::basic(logical_nand(argSetBool(a, 0)));
}
OP(nor)
{
    return Val::basic(logical_nor(argSetBool(a, 0)));
}
OP(not)
{
    return Val::basic(logical_not(argBool(a, 0)));
}
OP(xor)
{
    return Val::basic(logical_xor(argVecBool(a, 0)));
}
OP(xnor)
{
    return Val::basic(logical_xnor(argVecBool(a, 0)));
}
OP(contains)
{
    return Val::basic(contains(argB(a, 0), argSet(a, 1)));
}
OP(piecewise)
{
    // [[expr cond] ...]
    PiecewiseVec pv;
    for (auto &p : argVec(a, 0)) {
        if (p.k != Val::VEC || p.v.size() != 2 || p.v[0].k != Val::B || p.v[1].k != Val::B
            || !is_a_Boolean(*p.v[1].b))
            throw Decline("sort: want [[expr cond]...]");
        pv.push_back({p.v[0].b, rcp_static_cast<const Boolean>(p.v[1].b)});
    }
    if (pv.empty())
        throw Decline("piecewise: empty");
    return Val::basic(piecewise(std::move(pv)));
}

// ---- sets
OP(emptyset)
{
    return Val::basic(emptyset());
}
OP(universalset)
{
    return Val::basic(universalset());
}
OP(reals)
{
    return Val::basic(reals());
}
OP(rationals)
{
    return Val::basic(rationals());
}
OP(integers)
{
    return Val::basic(integers());
}
OP(naturals)
{
    return Val::basic(naturals());
}
OP(naturals0)
{
    return Val::basic(naturals0());
}
OP(complexes)
{
    return Val::basic(complexes());
}
OP(finiteset)
{
    set_basic s;
    for (auto &x : argVecB(a, 0))
        s.insert(x);
    return Val::basic(finiteset(s));
}
OP(interval)
{
    bool lo = a.size() > 2 ? argFlag(a, 2) : false;
    bool ro = a.size() > 3 ? argFlag(a, 3) : false;
    return Val::basic(interval(argNum(a, 0), argNum(a, 1), lo, ro));
}
static set_set argSetSet(Args &a, size_t i)
{
    set_set s;
    for (auto &x : argVec(a, i)) {
        if (x.k != Val::B || !is_a_Set(*x.b))
            throw Decline("sort: want Set vec");
        s.insert(rcp_static_cast<const Set>(x.b));
    }
    return s;
}
OP(set_union)
{
    return Val::basic(set_union(argSetSet(a, 0)));
}
OP(set_intersection)
{
    return Val::basic(set_intersection(argSetSet(a, 0)));
}
OP(set_complement)
{
    // (set_complement universe container)
    return Val::basic(set_complement(argSet(a, 0), argSet(a, 1)));
}
OP(m_union)
{
    return Val::basic(argSet(a, 0)->set_union(argSet(a, 1)));
}
OP(m_intersection)
{
    return Val::basic(argSet(a, 0)->set_intersection(argSet(a, 1)));
}
OP(m_complement)
{
    // self.set_complement(universe) = universe \ self
    return Val::basic(argSet(a, 0)->set_complement(argSet(a, 1)));
}
OP(set_contains)
{
    return Val::basic(argSet(a, 0)->contains(argB(a, 1)));
}
OP(is_subset)
{
    return Val::boolean(argSet(a, 0)->is_subset(argSet(a, 1)));
}
OP(is_proper_subset)
{
    return Val::boolean(argSet(a, 0)->is_proper_subset(argSet(a, 1)));
}
OP(is_superset)
{
    return Val::boolean(argSet(a, 0)->is_superset(argSet(a, 1)));
}
OP(sup)
{
    return Val::basic(sup(*argSet(a, 0)));
}
OP(inf)
{
    return Val::basic(inf(*argSet(a, 0)));
}
OP(boundary)
{
    return Val::basic(boundary(*argSet(a, 0)));
}
OP(interior)
{
    return Val::basic(interior(*argSet(a, 0)));
}
OP(closure)
{
    return Val::basic(closure(*argSet(a, 0)));
}
OP(conditionset)
{
    return Val::basic(conditionset(argB(a, 0), argBool(a, 1)));
}
OP(imageset)
{
    return Val::basic(imageset(argB(a, 0), argB(a, 1), argSet(a, 2)));
}

// ---- solvers
OP(solve)
{
    RCP<const Set> dom = a.size() > 2 ? argSet(a, 2) : rcp_static_cast<const Set>(universalset());
    return Val::basic(solve(argB(a, 0), argSym(a, 1), dom));
}
OP(solve_poly)
{
    RCP<const Set> dom = a.size() > 2 ? argSet(a, 2) : rcp_static_cast<const Set>(universalset());
    return Val::basic(solve_poly(argB(a, 0), argSym(a, 1), dom));
}
OP(solve_rational)
{
    RCP<const Set> dom = a.size() > 2 ? argSet(a, 2) : rcp_static_cast<const Set>(universalset());
    return Val::basic(solve_rational(argB(a, 0), argSym(a, 1), dom));
}
OP(solve_trig)
{
    RCP<const Set> dom = a.size() > 2 ? argSet(a, 2) : rcp_static_cast<const Set>(universalset());
    return Val::basic(solve_trig(argB(a, 0), argSym(a, 1), dom));
}
OP(is_linear_trig_eq)
{
    return Val::boolean(is_a_LinearArgTrigEquation(*argB(a, 0), *argSym(a, 1)));
}
OP(linsolve)
{
    // (linsolve [eqs] [syms])
    vec_sym syms;
    for (auto &x : argVecB(a, 1)) {
        if (!is_a_sub<Symbol>(*x))
            throw Decline("sort: want Symbol vec");
        syms.push_back(rcp_static_cast<const Symbol>(x));
    }
    return vecB(linsolve(argVecB(a, 0), syms));
}
