// Serialization round trips (C19) and helpers for the C20 corpus.
#include "drv.h"
#include <symengine/matrix.h>
#include <symengine/tuple.h>
#include <symengine/polys/uintpoly.h>
#include <symengine/polys/uratpoly.h>
#include <symengine/polys/uexprpoly.h>
#include <symengine/polys/msymenginepoly.h>
#include <symengine/fields.h>
#include <symengine/series_generic.h>
#include <symengine/matrix_expressions.h>
#include <symengine/printers.h>
#include <algorithm>
#include <cstring>
#include <unordered_map>

using namespace SymEngine;
using namespace vd;

static std::string bits_hex(double d)
{
    uint64_t u;
    memcpy(&u, &d, 8);
    char buf[24];
    snprintf(buf, sizeof buf, "%016llx", (unsigned long long)u);
    return buf;
}
static double bits_dbl(const std::string &s)
{
    if (s.size() != 16)
        throw Decline("want 16 hex digits");
    uint64_t u = std::stoull(s, nullptr, 16);
    double d;
    memcpy(&d, &u, 8);
    return d;
}

// RealDouble / ComplexDouble from raw IEEE-754 bit patterns (NaN payloads, signed zeros, subnormals)
OP(real_double_bits)
{
    return Val::basic(real_double(bits_dbl(argStr(a, 0))));
}
OP(complex_double_bits)
{
    return Val::basic(complex_double(std::complex<double>(bits_dbl(argStr(a, 0)), bits_dbl(argStr(a, 1)))));
}

// The stored children of a node, exactly the RCPs that the save_basic overload of its class writes
// (symengine/serialize-cereal.h:163-404), in that order.
static void ser_children(const Basic &b, vec_basic &out)
{
    switch (b.get_type_code()) {
        case SYMENGINE_ADD: {
            const Add &x = down_cast<const Add &>(b);
            out.push_back(x.get_coef());
            for (auto &p : x.get_dict()) {
                out.push_back(p.first);
                out.push_back(p.second);
            }
            return;
        }
        case SYMENGINE_MUL: {
            const Mul &x = down_cast<const Mul &>(b);
            out.push_back(x.get_coef());
            for (auto &p : x.get_dict()) {
                out.push_back(p.first);
                out.push_back(p.second);
            }
            return;
        }
        case SYMENGINE_POW: {
            const Pow &x = down_cast<const Pow &>(b);
            out.push_back(x.get_base());
            out.push_back(x.get_exp());
            return;
        }
        case SYMENGINE_RATIONAL: {
            const Rational &x = down_cast<const Rational &>(b);
            out.push_back(x.get_num()); // temporaries
            out.push_back(x.get_den());
            return;
        }
        case SYMENGINE_COMPLEX:
        case SYMENGINE_COMPLEX_DOUBLE: {
            const ComplexBase &x = down_cast<const ComplexBase &>(b);
            out.push_back(x.real_part()); // temporaries
            out.push_back(x.imaginary_part());
            return;
        }
        case SYMENGINE_INFTY:
            out.push_back(down_cast<const Infty &>(b).get_direction());
            return;
        case SYMENGINE_INTERVAL: {
            const Interval &x = down_cast<const Interval &>(b);
            out.push_back(x.get_start());
            out.push_back(x.get_end());
            return;
        }
        case SYMENGINE_PIECEWISE:
            for (auto &p : down_cast<const Piecewise &>(b).get_vec()) {
                out.push_back(p.first);
                out.push_back(p.second);
            }
            return;
        case SYMENGINE_DERIVATIVE: {
            const Derivative &x = down_cast<const Derivative &>(b);
            out.push_back(x.get_arg());
            for (auto &s : x.get_symbols())
                out.push_back(s);
            return;
        }
        case SYMENGINE_SUBS: {
            const Subs &x = down_cast<const Subs &>(b);
            out.push_back(x.get_arg());
            for (auto &p : x.get_dict()) {
                out.push_back(p.first);
                out.push_back(p.second);
            }
            return;
        }
        case SYMENGINE_AND:
            for (auto &p : down_cast<const And &>(b).get_container())
                out.push_back(p);
            return;
        case SYMENGINE_OR:
            for (auto &p : down_cast<const Or &>(b).get_container())
                out.push_back(p);
            return;
        case SYMENGINE_XOR:
            for (auto &p : down_cast<const Xor &>(b).get_container())
                out.push_back(p);
            return;
        case SYMENGINE_NOT:
            out.push_back(down_cast<const Not &>(b).get_arg());
            return;
        case SYMENGINE_CONTAINS: {
            const Contains &x = down_cast<const Contains &>(b);
            out.push_back(x.get_expr());
            out.push_back(x.get_set());
            return;
        }
        case SYMENGINE_FINITESET:
            for (auto &p : down_cast<const FiniteSet &>(b).get_container())
                out.push_back(p);
            return;
        case SYMENGINE_UNION:
            for (auto &p : down_cast<const Union &>(b).get_container())
                out.push_back(p);
            return;
        case SYMENGINE_COMPLEMENT: {
            const Complement &x = down_cast<const Complement &>(b);
            out.push_back(x.get_universe());
            out.push_back(x.get_container());
            return;
        }
        case SYMENGINE_IMAGESET: {
            const ImageSet &x = down_cast<const ImageSet &>(b);
            out.push_back(x.get_symbol());
            out.push_back(x.get_expr());
            out.push_back(x.get_baseset());
            return;
        }
        case SYMENGINE_CONDITIONSET: {
            const ConditionSet &x = down_cast<const ConditionSet &>(b);
            out.push_back(x.get_symbol());
            out.push_back(x.get_condition());
            return;
        }
        default:
            break;
    }
    if (is_a_sub<OneArgFunction>(b)) {
        out.push_back(down_cast<const OneArgFunction &>(b).get_arg());
        return;
    }
    if (is_a_sub<TwoArgFunction>(b)) {
        const TwoArgFunction &x = down_cast<const TwoArgFunction &>(b);
        out.push_back(x.get_arg1());
        out.push_back(x.get_arg2());
        return;
    }
    if (is_a_Relational(b)) {
        const Relational &x = down_cast<const Relational &>(b);
        out.push_back(x.get_arg1());
        out.push_back(x.get_arg2());
        return;
    }
    if (is_a_sub<MultiArgFunction>(b)) {
        for (auto &p : down_cast<const MultiArgFunction &>(b).get_args())
            out.push_back(p);
        return;
    }
    // atoms and classes without stored children (or unsupported ones): nothing
}

static std::vector<std::string> collect_bits(const RCP<const Basic> &root)
{
    std::vector<std::string> acc;
    std::vector<RCP<const Basic>> stack{root};
    size_t budget = 200000;
    while (!stack.empty() && budget-- > 0) {
        RCP<const Basic> n = stack.back();
        stack.pop_back();
        if (is_a<RealDouble>(*n)) {
            acc.push_back(bits_hex(down_cast<const RealDouble &>(*n).i));
            continue;
        }
        if (is_a<ComplexDouble>(*n)) {
            std::complex<double> c = down_cast<const ComplexDouble &>(*n).i;
            acc.push_back(bits_hex(c.real()) + "+" + bits_hex(c.imag()) + "i");
            continue;
        }
        // visit every reference (not only distinct nodes): multiset of stored doubles
        vec_basic ch;
        ser_children(*n, ch);
        for (auto &c : ch)
            stack.push_back(c);
    }
    std::sort(acc.begin(), acc.end());
    return acc;
}

// (double_bits e) -> sorted list of the bit patterns (16 hex digits; "re+imi" for a ComplexDouble) of every double stored in e
OP(double_bits)
{
    Val r = Val::vec();
    for (auto &s : collect_bits(argB(a, 0)))
        r.v.push_back(Val::str(s));
    return r;
}

// (share_classes e) -> pointer-identity classes of the nodes reachable through the serialized fields:
// list of [key, distinct_objects, references, str] where key = "<type code>:<hash>" (+ ":<str>" for leaves; str cut at 60);
// temporaries created by accessors (Rational::get_num, Complex::real_part) are listed like any other node.
OP(share_classes)
{
    RCP<const Basic> root = argB(a, 0);
    struct Info {
        size_t objects = 0, refs = 0;
    };
    std::map<std::string, Info> classes;
    std::map<std::string, std::string> texts;
    std::unordered_map<const Basic *, std::string> seen;
    std::vector<RCP<const Basic>> keep; // keep temporaries alive so that addresses stay unique
    std::vector<RCP<const Basic>> stack{root};
    size_t budget = 20000;
    while (!stack.empty() && budget-- > 0) {
        RCP<const Basic> n = stack.back();
        stack.pop_back();
        auto it = seen.find(n.get());
        if (it != seen.end()) {
            classes[it->second].refs++;
            continue;
        }
        keep.push_back(n);
        std::string s = n->__str__();
        if (s.size() > 60)
            s = s.substr(0, 60);
        // the printed form is informative only: term order of an Add holding NaN doubles is not a function of its value
        std::string key = std::to_string((int)n->get_type_code()) + ":" + std::to_string((unsigned long long)n->hash());
        if (n->get_args().empty())
            key += ":" + s;
        texts[key] = s;
        seen[n.get()] = key;
        Info &inf = classes[key];
        inf.objects++;
        inf.refs++;
        vec_basic ch;
        ser_children(*n, ch);
        for (auto &c : ch)
            stack.push_back(c);
    }
    Val r = Val::vec();
    for (auto &kv : classes) {
        Val e = Val::vec();
        e.v.push_back(Val::str(kv.first));
        e.v.push_back(Val::integer((long)kv.second.objects));
        e.v.push_back(Val::integer((long)kv.second.refs));
        e.v.push_back(Val::str(texts[kv.first]));
        r.v.push_back(e);
    }
    return r;
}

// (dm_roundtrip rows cols [elements]) -> DenseMatrix::dumps / DenseMatrix::loads
OP(dm_roundtrip)
{
    long r = argLong(a, 0), c = argLong(a, 1);
    vec_basic el = argVecB(a, 2);
    if (r < 0 || c < 0 || (size_t)(r * c) != el.size() || r > 64 || c > 64)
        throw Decline("shape");
    DenseMatrix m((unsigned)r, (unsigned)c, el);
    std::string d = m.dumps();
    DenseMatrix m2 = DenseMatrix::loads(d);
    Val out = Val::map();
    out.put("rows", Val::integer((long)m2.nrows()));
    out.put("cols", Val::integer((long)m2.ncols()));
    Val elems = Val::vec();
    Val eqs = Val::vec();
    bool alleq = m2.nrows() == m.nrows() && m2.ncols() == m.ncols();
    if (alleq) {
        for (unsigned i = 0; i < m2.nrows(); i++)
            for (unsigned j = 0; j < m2.ncols(); j++) {
                elems.v.push_back(Val::basic(m2.get(i, j)));
                eqs.v.push_back(Val::boolean(eq(*m2.get(i, j), *m.get(i, j))));
            }
    }
    out.put("elems", elems);
    out.put("eq", eqs);
    Val bits = Val::vec();
    if (alleq)
        for (unsigned i = 0; i < m2.nrows(); i++)
            for (unsigned j = 0; j < m2.ncols(); j++) {
                Val one = Val::vec();
                for (auto &s : collect_bits(m2.get(i, j)))
                    one.v.push_back(Val::str(s));
                bits.v.push_back(one);
            }
    out.put("bits", bits);
    out.put("str_equal", Val::boolean(alleq && m.__str__() == m2.__str__()));
    // sharing across elements: the same element object referenced from several cells
    size_t distinct_in = 0, distinct_out = 0;
    {
        std::set<const Basic *> s1, s2;
        for (auto &e : el)
            s1.insert(e.get());
        distinct_in = s1.size();
        if (alleq)
            for (unsigned i = 0; i < m2.nrows(); i++)
                for (unsigned j = 0; j < m2.ncols(); j++)
                    s2.insert(m2.get(i, j).get());
        distinct_out = s2.size();
    }
    out.put("distinct_in", Val::integer((long)distinct_in));
    out.put("distinct_out", Val::integer((long)distinct_out));
    out.put("dumps_len", Val::integer((long)d.size()));
    return out;
}

// (ser_unsupported k) -> an object of a class for which the pinned tree has no working saver or loader
OP(ser_unsupported)
{
    long k = argLong(a, 0);
    RCP<const Symbol> x = symbol("x");
    switch (k) {
        case 0:
            return Val::basic(URatPoly::from_dict(x, {{0, rational_class(1, 2)}, {2, rational_class(3)}}));
        case 1:
            return Val::basic(UIntPoly::from_dict(x, {{0, integer_class(1)}, {3, integer_class(-2)}}));
        case 2:
            return Val::basic(UExprPoly::from_dict(x, {{0, Expression(1)}, {1, Expression(symbol("a"))}}));
        case 3:
            return Val::basic(tuple({x, integer(2)}));
        case 4:
            return Val::basic(GaloisField::from_vec(x, {integer_class(1), integer_class(2)}, integer_class(5)));
        case 5:
            return Val::basic(UnivariateSeries::series(add(x, integer(1)), "x", 3));
        case 6:
            return Val::basic(identity_matrix(integer(3)));
        case 7:
            return Val::basic(matrix_symbol("A"));
        case 8:
            return Val::basic(naturals());
        case 9:
            return Val::basic(naturals0());
        case 10:
            return Val::basic(complexes());
        case 11:
            return Val::basic(make_rcp<const Intersection>(set_set{integers(), interval(integer(0), integer(5))}));
        default:
            throw Decline("index");
    }
}

// (save_corpus dir name e) -> writes "\0" + dumps(e) (a mode-A unit of drv/fz_loads.cpp) to dir/name; returns the length
OP(save_unit)
{
    std::string path = argStr(a, 0) + "/" + argStr(a, 1);
    std::string d = argB(a, 2)->dumps();
    FILE *f = fopen(path.c_str(), "wb");
    if (!f)
        throw Decline("cannot open " + path);
    fputc(0, f);
    fwrite(d.data(), 1, d.size(), f);
    fclose(f);
    return Val::integer((long)d.size());
}
