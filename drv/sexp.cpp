// S-expression reader, evaluator and JSON writer of the driver.
#include "drv.h"
#include <symengine/prime_sieve.h>
#include <symengine/ntheory.h>
#include <cmath>
#include <cstring>
#include <cxxabi.h>
#include <sstream>

namespace vd
{
using namespace SymEngine;

std::map<std::string, OpFn> &optable()
{
    static std::map<std::string, OpFn> t;
    return t;
}

Val Val::integer(const integer_class &i)
{
    Val r;
    r.k = INT;
    std::ostringstream ss;
    ss << i;
    r.s = ss.str();
    return r;
}

// ---------------------------------------------------------------- accessors
void need(Args &a, size_t n)
{
    if (a.size() < n)
        throw Decline("arity");
}
RCP<const Basic> argB(Args &a, size_t i)
{
    if (i >= a.size() || a[i].k != Val::B)
        throw Decline("sort: want Basic");
    return a[i].b;
}
RCP<const Number> argNum(Args &a, size_t i)
{
    RCP<const Basic> b = argB(a, i);
    if (!is_a_Number(*b))
        throw Decline("sort: want Number");
    return rcp_static_cast<const Number>(b);
}
RCP<const Symbol> argSym(Args &a, size_t i)
{
    RCP<const Basic> b = argB(a, i);
    if (!is_a_sub<Symbol>(*b))
        throw Decline("sort: want Symbol");
    return rcp_static_cast<const Symbol>(b);
}
RCP<const Boolean> argBool(Args &a, size_t i)
{
    RCP<const Basic> b = argB(a, i);
    if (!is_a_Boolean(*b))
        throw Decline("sort: want Boolean");
    return rcp_static_cast<const Boolean>(b);
}
RCP<const Set> argSet(Args &a, size_t i)
{
    RCP<const Basic> b = argB(a, i);
    if (!is_a_Set(*b))
        throw Decline("sort: want Set");
    return rcp_static_cast<const Set>(b);
}
integer_class argInt(Args &a, size_t i)
{
    if (i >= a.size())
        throw Decline("arity");
    if (a[i].k == Val::INT)
        return integer_class(a[i].s);
    if (a[i].k == Val::B && is_a<Integer>(*a[i].b))
        return down_cast<const Integer &>(*a[i].b).as_integer_class();
    throw Decline("sort: want Int");
}
long argLong(Args &a, size_t i)
{
    integer_class z = argInt(a, i);
    if (!mp_fits_slong_p(z))
        throw Decline("int too large");
    return mp_get_si(z);
}
double argDbl(Args &a, size_t i)
{
    if (i >= a.size())
        throw Decline("arity");
    if (a[i].k == Val::DBL)
        return a[i].d;
    if (a[i].k == Val::INT)
        return std::stod(a[i].s);
    throw Decline("sort: want Dbl");
}
bool argFlag(Args &a, size_t i)
{
    if (i >= a.size())
        throw Decline("arity");
    if (a[i].k == Val::BOOL)
        return a[i].t;
    if (a[i].k == Val::INT)
        return a[i].s != "0";
    throw Decline("sort: want Bool");
}
const std::string &argStr(Args &a, size_t i)
{
    if (i >= a.size() || a[i].k != Val::STR)
        throw Decline("sort: want Str");
    return a[i].s;
}
std::vector<Val> &argVec(Args &a, size_t i)
{
    if (i >= a.size() || a[i].k != Val::VEC)
        throw Decline("sort: want Vec");
    return a[i].v;
}
vec_basic argVecB(Args &a, size_t i)
{
    std::vector<Val> &v = argVec(a, i);
    vec_basic r;
    for (auto &x : v) {
        if (x.k != Val::B)
            throw Decline("sort: want Vec of Basic");
        r.push_back(x.b);
    }
    return r;
}
Val vecB(const vec_basic &v)
{
    Val r = Val::vec();
    for (auto &x : v)
        r.v.push_back(Val::basic(x));
    return r;
}
Val setB(const set_basic &v)
{
    Val r = Val::vec();
    for (auto &x : v)
        r.v.push_back(Val::basic(x));
    return r;
}
Val tri(tribool t)
{
    if (is_true(t))
        return Val::str("T");
    if (is_false(t))
        return Val::str("F");
    return Val::str("U");
}

// ---------------------------------------------------------------- json
void json_str(const std::string &s, std::string &out)
{
    out.push_back('"');
    for (unsigned char c : s) {
        if (c == '"')
            out += "\\\"";
        else if (c == '\\')
            out += "\\\\";
        else if (c < 0x20 || c >= 0x7f) {
            char buf[8];
            snprintf(buf, sizeof buf, "\\u%04x", c);
            out += buf;
        } else
            out.push_back((char)c);
    }
    out.push_back('"');
}

std::string hexfloat(double d)
{
    if (std::isnan(d))
        return std::signbit(d) ? "-nan" : "nan";
    if (std::isinf(d))
        return d < 0 ? "-inf" : "inf";
    char buf[64];
    snprintf(buf, sizeof buf, "%a", d);
    return buf;
}

double parse_hexfloat(const std::string &s)
{
    if (s == "nan")
        return std::nan("");
    if (s == "-nan")
        return -std::nan("");
    if (s == "inf")
        return INFINITY;
    if (s == "-inf")
        return -INFINITY;
    char *end = nullptr;
    double d = strtod(s.c_str(), &end);
    if (end == s.c_str() || *end != 0)
        throw Decline("bad float literal " + s);
    return d;
}

void val_json(const Val &v, std::string &out)
{
    switch (v.k) {
        case Val::NIL:
            out += "null";
            break;
        case Val::ERR:
            out += "{\"exc\":";
            json_str(v.s, out);
            out += ",\"what\":";
            json_str(v.s2.substr(0, 400), out);
            out += "}";
            break;
        case Val::B:
            out += "{\"B\":";
            dump(*v.b, out);
            out += "}";
            break;
        case Val::INT:
            out += v.s;
            break;
        case Val::STR:
            json_str(v.s, out);
            break;
        case Val::DBL:
            out += "{\"f\":\"" + hexfloat(v.d) + "\"}";
            break;
        case Val::BOOL:
            out += v.t ? "true" : "false";
            break;
        case Val::VEC:
            out += "[";
            for (size_t i = 0; i < v.v.size(); i++) {
                if (i)
                    out += ",";
                val_json(v.v[i], out);
            }
            out += "]";
            break;
        case Val::MAP:
            out += "{";
            for (size_t i = 0; i < v.v.size(); i++) {
                if (i)
                    out += ",";
                json_str(v.keys[i], out);
                out += ":";
                val_json(v.v[i], out);
            }
            out += "}";
            break;
        case Val::OBJ:
            out += "{\"obj\":";
            json_str(v.s, out);
            out += "}";
            break;
    }
}

// ---------------------------------------------------------------- reader
struct Node {
    enum T { CALL, REG, LIT } t = LIT;
    std::string op;
    std::vector<Node> kids;
    Val lit;
    size_t reg = 0;
};

struct Reader {
    const std::string &s;
    size_t p = 0;
    explicit Reader(const std::string &str) : s(str) {}
    void ws()
    {
        while (p < s.size() && (s[p] == ' ' || s[p] == '\t' || s[p] == '\n' || s[p] == '\r'))
            p++;
    }
    bool eof()
    {
        ws();
        return p >= s.size();
    }
    [[noreturn]] void fail(const char *m)
    {
        throw std::invalid_argument(std::string("syntax: ") + m + " at " + std::to_string(p));
    }
    std::string token()
    {
        size_t q = p;
        while (q < s.size() && !strchr(" \t\r\n()[]\"", s[q]))
            q++;
        std::string t = s.substr(p, q - p);
        p = q;
        return t;
    }
    Node read()
    {
        ws();
        if (p >= s.size())
            fail("eof");
        char c = s[p];
        Node n;
        if (c == '(') {
            p++;
            ws();
            n.t = Node::CALL;
            n.op = token();
            if (n.op.empty())
                fail("op");
            for (;;) {
                ws();
                if (p >= s.size())
                    fail("unclosed (");
                if (s[p] == ')') {
                    p++;
                    break;
                }
                n.kids.push_back(read());
            }
            return n;
        }
        if (c == '[') {
            p++;
            n.t = Node::CALL;
            n.op = "list";
            for (;;) {
                ws();
                if (p >= s.size())
                    fail("unclosed [");
                if (s[p] == ']') {
                    p++;
                    break;
                }
                n.kids.push_back(read());
            }
            return n;
        }
        if (c == '"') {
            p++;
            std::string out;
            for (;;) {
                if (p >= s.size())
                    fail("unclosed string");
                char d = s[p++];
                if (d == '"')
                    break;
                if (d == '\\') {
                    if (p >= s.size())
                        fail("escape");
                    char e = s[p++];
                    if (e == 'n')
                        out.push_back('\n');
                    else if (e == 't')
                        out.push_back('\t');
                    else if (e == 'x') {
                        if (p + 2 > s.size())
                            fail("hex escape");
                        out.push_back((char)strtol(s.substr(p, 2).c_str(), nullptr, 16));
                        p += 2;
                    } else
                        out.push_back(e);
                } else
                    out.push_back(d);
            }
            n.lit = Val::str(out);
            return n;
        }
        std::string t = token();
        if (t.empty())
            fail("token");
        if (t[0] == '$') {
            n.t = Node::REG;
            n.reg = strtoul(t.c_str() + 1, nullptr, 10);
            return n;
        }
        if (t == "#t") {
            n.lit = Val::boolean(true);
            return n;
        }
        if (t == "#f") {
            n.lit = Val::boolean(false);
            return n;
        }
        if (t == "#n") {
            return n;
        }
        if (t.size() > 2 && t[0] == 'd' && t[1] == ':') {
            n.lit = Val::dbl(parse_hexfloat(t.substr(2)));
            return n;
        }
        size_t i = (t[0] == '-' || t[0] == '+') ? 1 : 0;
        if (i >= t.size())
            fail("bad atom");
        for (size_t j = i; j < t.size(); j++)
            if (t[j] < '0' || t[j] > '9')
                fail("bad atom");
        n.lit.k = Val::INT;
        n.lit.s = (t[0] == '+') ? t.substr(1) : t;
        return n;
    }
};

// ---------------------------------------------------------------- exceptions
static std::string demangle(const char *name)
{
    int st = 0;
    char *d = abi::__cxa_demangle(name, nullptr, nullptr, &st);
    std::string r = (st == 0 && d) ? d : name;
    free(d);
    return r;
}

Val classify_exception()
{
    try {
        throw;
    } catch (Decline &e) {
        return Val::err("Decline", e.what());
#ifdef SYMENGINE_VERIF
    } catch (VerifAssertFailure &e) {
        return Val::err("VerifAssertFailure", e.what());
#endif
    } catch (NotImplementedError &e) {
        return Val::err("NotImplementedError", e.what());
    } catch (DivisionByZeroError &e) {
        return Val::err("DivisionByZeroError", e.what());
    } catch (DomainError &e) {
        return Val::err("DomainError", e.what());
    } catch (ParseError &e) {
        return Val::err("ParseError", e.what());
    } catch (SerializationError &e) {
        return Val::err("SerializationError", e.what());
    } catch (SymEngineException &e) {
        return Val::err("SymEngineException", e.what());
    } catch (std::exception &e) {
        return Val::err(demangle(typeid(e).name()), e.what());
    } catch (...) {
        return Val::err("unknown", "non-std exception");
    }
}

// ---------------------------------------------------------------- evaluator
struct DepError : public std::runtime_error {
    DepError() : std::runtime_error("operand is an error value") {}
};

static Val eval(const Node &n, std::vector<Val> &regs)
{
    switch (n.t) {
        case Node::LIT:
            return n.lit;
        case Node::REG:
            if (n.reg >= regs.size())
                throw Decline("no such register");
            if (regs[n.reg].k == Val::ERR)
                throw DepError();
            return regs[n.reg];
        case Node::CALL: {
            if (n.op == "list") {
                Val r = Val::vec();
                for (auto &k : n.kids)
                    r.v.push_back(eval(k, regs));
                return r;
            }
            if (n.op == "collect") {
                // (collect a b ...) -> {"v":[Basic values], "kept":[positions]}; operands that
                // are error registers / non-Basic values are dropped instead of failing the statement
                Val v = Val::vec(), kept = Val::vec();
                for (size_t i = 0; i < n.kids.size(); i++) {
                    try {
                        Val x = eval(n.kids[i], regs);
                        if (x.k == Val::B) {
                            v.v.push_back(x);
                            kept.v.push_back(Val::integer((long)i));
                        }
                    } catch (DepError &) {
                    } catch (Decline &) {
                    }
                }
                Val m = Val::map();
                m.put("v", v);
                m.put("kept", kept);
                return m;
            }
            auto it = optable().find(n.op);
            if (it == optable().end())
                throw Decline("unknown op " + n.op);
            Args a;
            a.reserve(n.kids.size());
            for (auto &k : n.kids)
                a.push_back(eval(k, regs));
            return it->second(a);
        }
    }
    return Val::nil();
}

void reset_global_state()
{
    Sieve::clear();
    Sieve::set_clear(true);
    Sieve::set_sieve_size(32);
}

std::string run_program(const std::string &line)
{
    std::string out = "[";
    std::vector<Val> regs;
    reset_global_state();
    try {
        Reader rd(line);
        bool first = true;
        while (!rd.eof()) {
            Node n = rd.read();
            bool quiet = false;
            const Node *body = &n;
            if (n.t == Node::CALL && n.op == "let" && n.kids.size() == 1) {
                quiet = true;
                body = &n.kids[0];
            }
            Val v;
            try {
                v = eval(*body, regs);
            } catch (DepError &) {
                v = Val::err("Dep", "operand is an error value");
            } catch (...) {
                v = classify_exception();
            }
            if (!first)
                out += ",";
            first = false;
            if (quiet && v.k != Val::ERR)
                out += "null";
            else
                val_json(v, out);
            regs.push_back(std::move(v));
        }
    } catch (std::invalid_argument &e) {
        std::string o = "{\"protocol_error\":";
        json_str(e.what(), o);
        return o + "}";
    }
    out += "]";
    return out;
}

} // namespace vd
