// Core ops: numbers, symbols, arithmetic, Number methods, observations.
#include "drv.h"
#include <symengine/eval_double.h>
#ifdef HAVE_SYMENGINE_MPFR
#include <symengine/real_mpfr.h>
#endif
#ifdef HAVE_SYMENGINE_MPC
#include <symengine/complex_mpc.h>
#endif

using namespace SymEngine;
using namespace vd;

// ---- constructors
OP(integer)
{
    return Val::basic(SymEngine::integer(argInt(a, 0)));
}
OP(rational)
{
    // Rational::from_two_ints requires a non-zero denominator (callers check)
    integer_class n = argInt(a, 0), d = argInt(a, 1);
    if (d == 0)
        throw Decline("rational: zero denominator is outside the constructor's domain");
    return Val::basic(Rational::from_two_ints(*SymEngine::integer(n), *SymEngine::integer(d)));
}
OP(complex)
{
    // Complex::from_two_nums(re, im) with exact rational parts
    RCP<const Number> re = argNum(a, 0), im = argNum(a, 1);
    if (!(is_a<Integer>(*re) || is_a<Rational>(*re)) || !(is_a<Integer>(*im) || is_a<Rational>(*im)))
        throw Decline("complex: parts must be Integer/Rational");
    return Val::basic(Complex::from_two_nums(*re, *im));
}
OP(real_double)
{
    return Val::basic(SymEngine::real_double(argDbl(a, 0)));
}
OP(complex_double)
{
    return Val::basic(SymEngine::complex_double(std::complex<double>(argDbl(a, 0), argDbl(a, 1))));
}
OP(symbol)
{
    return Val::basic(SymEngine::symbol(argStr(a, 0)));
}
OP(dummy)
{
    if (a.empty())
        return Val::basic(SymEngine::dummy());
    return Val::basic(SymEngine::dummy(argStr(a, 0)));
}
OP(constant)
{
    const std::string &n = argStr(a, 0);
    if (n == "pi")
        return Val::basic(pi);
    if (n == "E")
        return Val::basic(E);
    if (n == "EulerGamma")
        return Val::basic(EulerGamma);
    if (n == "Catalan")
        return Val::basic(Catalan);
    if (n == "GoldenRatio")
        return Val::basic(GoldenRatio);
    if (n == "I")
        return Val::basic(I);
    throw Decline("constant name");
}
OP(oo)
{
    return Val::basic(Inf);
}
OP(noo)
{
    return Val::basic(NegInf);
}
OP(zoo)
{
    return Val::basic(ComplexInf);
}
OP(nan)
{
    return Val::basic(Nan);
}
#ifdef HAVE_SYMENGINE_MPFR
OP(real_mpfr)
{
    // (real_mpfr "decimal-or-hex string" prec) ; base 10 unless prefixed 0x
    const std::string &s = argStr(a, 0);
    long prec = argLong(a, 1);
    if (prec < 2 || prec > 100000)
        throw Decline("precision");
    mpfr_class m(prec);
    if (mpfr_set_str(m.get_mpfr_t(), s.c_str(), 0, MPFR_RNDN) != 0)
        throw Decline("bad mpfr literal");
    return Val::basic(real_mpfr(std::move(m)));
}
#endif
#ifdef HAVE_SYMENGINE_MPC
OP(complex_mpc)
{
    const std::string &re = argStr(a, 0), &im = argStr(a, 1);
    long prec = argLong(a, 2);
    if (prec < 2 || prec > 100000)
        throw Decline("precision");
    mpfr_class r(prec), i(prec);
    if (mpfr_set_str(r.get_mpfr_t(), re.c_str(), 0, MPFR_RNDN) != 0
        || mpfr_set_str(i.get_mpfr_t(), im.c_str(), 0, MPFR_RNDN) != 0)
        throw Decline("bad mpfr literal");
    mpc_class c(prec);
    mpc_set_fr_fr(c.get_mpc_t(), r.get_mpfr_t(), i.get_mpfr_t(), MPC_RNDNN);
    return Val::basic(complex_mpc(std::move(c)));
}
#endif

// ---- arithmetic
OP(add)
{
    return Val::basic(add(argB(a, 0), argB(a, 1)));
}
OP(sub)
{
    return Val::basic(sub(argB(a, 0), argB(a, 1)));
}
OP(mul)
{
    return Val::basic(mul(argB(a, 0), argB(a, 1)));
}
OP(div)
{
    return Val::basic(div(argB(a, 0), argB(a, 1)));
}
OP(pow)
{
    return Val::basic(pow(argB(a, 0), argB(a, 1)));
}
OP(neg)
{
    return Val::basic(neg(argB(a, 0)));
}
OP(sqrt)
{
    return Val::basic(SymEngine::sqrt(argB(a, 0)));
}
OP(cbrt)
{
    return Val::basic(SymEngine::cbrt(argB(a, 0)));
}
OP(exp)
{
    return Val::basic(SymEngine::exp(argB(a, 0)));
}
OP(add_vec)
{
    return Val::basic(add(argVecB(a, 0)));
}
OP(mul_vec)
{
    return Val::basic(mul(argVecB(a, 0)));
}

// ---- Number methods (double dispatch entry points)
OP(addnum)
{
    return Val::basic(addnum(argNum(a, 0), argNum(a, 1)));
}
OP(subnum)
{
    return Val::basic(subnum(argNum(a, 0), argNum(a, 1)));
}
OP(mulnum)
{
    return Val::basic(mulnum(argNum(a, 0), argNum(a, 1)));
}
OP(divnum)
{
    return Val::basic(divnum(argNum(a, 0), argNum(a, 1)));
}
OP(pownum)
{
    return Val::basic(pownum(argNum(a, 0), argNum(a, 1)));
}
OP(num_rsub)
{
    return Val::basic(argNum(a, 0)->rsub(*argNum(a, 1)));
}
OP(num_rdiv)
{
    return Val::basic(argNum(a, 0)->rdiv(*argNum(a, 1)));
}
OP(num_rpow)
{
    return Val::basic(argNum(a, 0)->rpow(*argNum(a, 1)));
}
OP(num_props)
{
    RCP<const Number> n = argNum(a, 0);
    Val m = Val::map();
    m.put("zero", Val::boolean(n->is_zero()));
    m.put("one", Val::boolean(n->is_one()));
    m.put("minus_one", Val::boolean(n->is_minus_one()));
    m.put("negative", Val::boolean(n->is_negative()));
    m.put("positive", Val::boolean(n->is_positive()));
    m.put("complex", Val::boolean(n->is_complex()));
    m.put("exact", Val::boolean(n->is_exact()));
    return m;
}

// ---- observations
OP(str)
{
    return Val::str(argB(a, 0)->__str__());
}
OP(hash)
{
    return Val::uinteger(argB(a, 0)->hash());
}
OP(eq)
{
    return Val::boolean(eq(*argB(a, 0), *argB(a, 1)));
}
OP(neq)
{
    return Val::boolean(neq(*argB(a, 0), *argB(a, 1)));
}
OP(cmp)
{
    return Val::integer((long)argB(a, 0)->__cmp__(*argB(a, 1)));
}
OP(compare)
{
    // same-type compare() only
    RCP<const Basic> x = argB(a, 0), y = argB(a, 1);
    if (x->get_type_code() != y->get_type_code())
        throw Decline("compare needs equal type codes");
    return Val::integer((long)x->compare(*y));
}
OP(type)
{
    return Val::str(type_code_name(argB(a, 0)->get_type_code()));
}
OP(obs)
{
    // dump + str + hash in one go
    RCP<const Basic> x = argB(a, 0);
    Val m = Val::map();
    m.put("d", Val::basic(x));
    m.put("s", Val::str(x->__str__()));
    m.put("h", Val::uinteger(x->hash()));
    return m;
}
OP(args)
{
    return vecB(argB(a, 0)->get_args());
}
OP(same)
{
    // pointer identity
    return Val::boolean(argB(a, 0).get() == argB(a, 1).get());
}
OP(nth)
{
    std::vector<Val> &v = argVec(a, 0);
    long i = argLong(a, 1);
    if (i < 0 || (size_t)i >= v.size())
        throw Decline("index");
    return v[i];
}
OP(len)
{
    return Val::integer((long)argVec(a, 0).size());
}
OP(field)
{
    if (a.size() < 2 || a[0].k != Val::MAP)
        throw Decline("sort: want Map");
    const std::string &k = argStr(a, 1);
    for (size_t i = 0; i < a[0].keys.size(); i++)
        if (a[0].keys[i] == k)
            return a[0].v[i];
    throw Decline("no such field");
}
OP(id)
{
    need(a, 1);
    return a[0];
}
