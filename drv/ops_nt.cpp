// Number theory (ntheory.h, ntheory_funcs.h), prime sieve (prime_sieve.h) and
// linear Diophantine systems (diophantine.h): driver ops for C32, C33, C46.
//
// Every op declines (vd::Decline) arguments outside the documented domain of the
// bound function (zero divisors/moduli, counts that do not fit the C++ parameter
// type, sizes that would only test the machine).  Library exceptions propagate.
#include "drv.h"
#include <symengine/ntheory.h>
#include <symengine/ntheory_funcs.h>
#include <symengine/prime_sieve.h>
#include <symengine/diophantine.h>
#include <symengine/matrix.h>

using namespace SymEngine;
using namespace vd;

namespace
{
RCP<const Integer> argI(Args &a, size_t i)
{
    return integer(argInt(a, i));
}
unsigned long argUL(Args &a, size_t i, unsigned long maxv)
{
    integer_class z = argInt(a, i);
    if (z < 0 || !mp_fits_ulong_p(z) || mp_get_ui(z) > maxv)
        throw Decline("unsigned argument out of the op's range");
    return mp_get_ui(z);
}
Val vI(const RCP<const Integer> &x)
{
    if (x.is_null())
        return Val::nil();
    return Val::integer(x->as_integer_class());
}
Val vecI(const std::vector<RCP<const Integer>> &v)
{
    Val r = Val::vec();
    for (auto &x : v)
        r.v.push_back(vI(x));
    return r;
}
RCP<const Number> argQ(Args &a, size_t i)
{
    // exact rational given as Basic (Integer/Rational) or as an int literal
    if (i < a.size() && a[i].k == Val::INT)
        return integer(argInt(a, i));
    RCP<const Number> n = argNum(a, i);
    if (!is_a<Integer>(*n) && !is_a<Rational>(*n))
        throw Decline("sort: want Integer or Rational");
    return n;
}
std::vector<RCP<const Integer>> argVecI(Args &a, size_t i)
{
    std::vector<Val> &v = argVec(a, i);
    std::vector<RCP<const Integer>> r;
    for (size_t k = 0; k < v.size(); k++) {
        Args one{v[k]};
        r.push_back(integer(argInt(one, 0)));
    }
    return r;
}
void nonzero(const RCP<const Integer> &d, const char *what)
{
    if (d->is_zero())
        throw Decline(std::string("zero ") + what);
}
} // namespace

// ---------------------------------------------------------------- gcd & co
OP(nt_gcd)
{
    return vI(gcd(*argI(a, 0), *argI(a, 1)));
}
OP(nt_lcm)
{
    return vI(lcm(*argI(a, 0), *argI(a, 1)));
}
OP(nt_gcd_ext)
{
    RCP<const Integer> g, s, t;
    gcd_ext(outArg(g), outArg(s), outArg(t), *argI(a, 0), *argI(a, 1));
    return Val::vec({vI(g), vI(s), vI(t)});
}
OP(nt_mod)
{
    auto d = argI(a, 1);
    nonzero(d, "divisor");
    return vI(mod(*argI(a, 0), *d));
}
OP(nt_quotient)
{
    auto d = argI(a, 1);
    nonzero(d, "divisor");
    return vI(quotient(*argI(a, 0), *d));
}
OP(nt_quotient_mod)
{
    auto d = argI(a, 1);
    nonzero(d, "divisor");
    RCP<const Integer> q, r;
    quotient_mod(outArg(q), outArg(r), *argI(a, 0), *d);
    return Val::vec({vI(q), vI(r)});
}
OP(nt_mod_f)
{
    auto d = argI(a, 1);
    nonzero(d, "divisor");
    return vI(mod_f(*argI(a, 0), *d));
}
OP(nt_quotient_f)
{
    auto d = argI(a, 1);
    nonzero(d, "divisor");
    return vI(quotient_f(*argI(a, 0), *d));
}
OP(nt_quotient_mod_f)
{
    auto d = argI(a, 1);
    nonzero(d, "divisor");
    RCP<const Integer> q, r;
    quotient_mod_f(outArg(q), outArg(r), *argI(a, 0), *d);
    return Val::vec({vI(q), vI(r)});
}
OP(nt_mod_inverse)
{
    auto m = argI(a, 1);
    nonzero(m, "modulus");
    RCP<const Integer> b;
    int ret = mod_inverse(outArg(b), *argI(a, 0), *m);
    return Val::vec({Val::integer((long)ret), vI(b)});
}
OP(nt_crt)
{
    auto rem = argVecI(a, 0);
    auto mods = argVecI(a, 1);
    for (auto &m : mods)
        if (!m->is_positive())
            throw Decline("non-positive modulus");
    RCP<const Integer> R;
    bool ok = crt(outArg(R), rem, mods);
    return Val::vec({Val::boolean(ok), ok ? vI(R) : Val::nil()});
}
OP(nt_divides)
{
    auto d = argI(a, 1);
    nonzero(d, "divisor");
    return Val::boolean(divides(*argI(a, 0), *d));
}

// ---------------------------------------------------------------- sequences
OP(nt_fibonacci)
{
    return vI(fibonacci(argUL(a, 0, 200000)));
}
OP(nt_fibonacci2)
{
    unsigned long n = argUL(a, 0, 200000);
    if (n < 1)
        throw Decline("fibonacci2 needs n >= 1");
    RCP<const Integer> g, s;
    fibonacci2(outArg(g), outArg(s), n);
    return Val::vec({vI(g), vI(s)});
}
OP(nt_lucas)
{
    return vI(lucas(argUL(a, 0, 200000)));
}
OP(nt_lucas2)
{
    unsigned long n = argUL(a, 0, 200000);
    if (n < 1)
        throw Decline("lucas2 needs n >= 1");
    RCP<const Integer> g, s;
    lucas2(outArg(g), outArg(s), n);
    return Val::vec({vI(g), vI(s)});
}
OP(nt_binomial)
{
    return vI(binomial(*argI(a, 0), argUL(a, 1, 5000)));
}
OP(nt_factorial)
{
    return vI(factorial(argUL(a, 0, 20000)));
}
OP(nt_bernoulli)
{
    return Val::basic(bernoulli(argUL(a, 0, 400)));
}
OP(nt_harmonic)
{
    unsigned long n = argUL(a, 0, 5000);
    long m = argLong(a, 1);
    if (m < -64 || m > 64)
        throw Decline("harmonic order");
    return Val::basic(harmonic(n, m));
}

// ---------------------------------------------------------------- primes, factoring
OP(nt_probab_prime_p)
{
    auto n = argI(a, 0);
    if (n->is_negative())
        throw Decline("negative");
    unsigned reps = a.size() > 1 ? (unsigned)argUL(a, 1, 100) : 25u;
    if (reps < 1)
        throw Decline("reps");
    return Val::integer((long)probab_prime_p(*n, reps));
}
OP(nt_nextprime)
{
    return vI(nextprime(*argI(a, 0)));
}
// factoring functions: n >= 2 (each method's own lower bound is enforced by the
// library with an exception, which the caller counts as declined)
static void factor_domain(const RCP<const Integer> &n)
{
    if (n->as_integer_class() < 2)
        throw Decline("n < 2");
}
OP(nt_factor)
{
    auto n = argI(a, 0);
    factor_domain(n);
    RCP<const Integer> f;
    int ret = factor(outArg(f), *n);
    return Val::vec({Val::integer((long)ret), vI(f)});
}
OP(nt_factor_trial_division)
{
    auto n = argI(a, 0);
    factor_domain(n);
    RCP<const Integer> f;
    int ret = factor_trial_division(outArg(f), *n);
    return Val::vec({Val::integer((long)ret), vI(f)});
}
OP(nt_factor_lehman)
{
    auto n = argI(a, 0);
    factor_domain(n);
    RCP<const Integer> f;
    int ret = factor_lehman_method(outArg(f), *n);
    return Val::vec({Val::integer((long)ret), vI(f)});
}
OP(nt_factor_pollard_pm1)
{
    auto n = argI(a, 0);
    factor_domain(n);
    unsigned B = a.size() > 1 ? (unsigned)argUL(a, 1, 100000) : 10u;
    unsigned retries = a.size() > 2 ? (unsigned)argUL(a, 2, 50) : 5u;
    RCP<const Integer> f;
    int ret = factor_pollard_pm1_method(outArg(f), *n, B, retries);
    return Val::vec({Val::integer((long)ret), vI(f)});
}
OP(nt_factor_pollard_rho)
{
    auto n = argI(a, 0);
    factor_domain(n);
    unsigned retries = a.size() > 1 ? (unsigned)argUL(a, 1, 50) : 5u;
    RCP<const Integer> f;
    int ret = factor_pollard_rho_method(outArg(f), *n, retries);
    return Val::vec({Val::integer((long)ret), vI(f)});
}
OP(nt_prime_factors)
{
    auto n = argI(a, 0);
    nonzero(n, "n");
    std::vector<RCP<const Integer>> pr;
    prime_factors(pr, *n);
    return vecI(pr);
}
OP(nt_prime_factor_multiplicities)
{
    auto n = argI(a, 0);
    nonzero(n, "n");
    map_integer_uint pm;
    prime_factor_multiplicities(pm, *n);
    Val r = Val::vec();
    for (auto &p : pm) // the container's own iteration order
        r.v.push_back(Val::vec({vI(p.first), Val::uinteger(p.second)}));
    return r;
}

// ---------------------------------------------------------------- multiplicative group
OP(nt_primitive_root)
{
    auto n = argI(a, 0);
    RCP<const Integer> g;
    bool ok = primitive_root(outArg(g), *n);
    return Val::vec({Val::boolean(ok), ok ? vI(g) : Val::nil()});
}
OP(nt_primitive_root_list)
{
    auto n = argI(a, 0);
    if (mp_abs(n->as_integer_class()) > 200000)
        throw Decline("list would be huge");
    std::vector<RCP<const Integer>> roots;
    primitive_root_list(roots, *n);
    return vecI(roots);
}
OP(nt_totient)
{
    return vI(totient(argI(a, 0)));
}
OP(nt_carmichael)
{
    return vI(carmichael(argI(a, 0)));
}
OP(nt_multiplicative_order)
{
    auto n = argI(a, 1);
    nonzero(n, "modulus");
    RCP<const Integer> o;
    bool ok = multiplicative_order(outArg(o), argI(a, 0), n);
    return Val::vec({Val::boolean(ok), ok ? vI(o) : Val::nil()});
}
OP(nt_legendre)
{
    auto p = argI(a, 1);
    // mpz_legendre is defined for odd positive primes only; the caller supplies primes
    if (p->as_integer_class() < 3 || p->as_integer_class() % 2 == 0)
        throw Decline("legendre: p must be an odd prime");
    return Val::integer((long)legendre(*argI(a, 0), *p));
}
OP(nt_jacobi)
{
    auto n = argI(a, 1);
    if (n->as_integer_class() < 1 || n->as_integer_class() % 2 == 0)
        throw Decline("jacobi: n must be odd and positive");
    return Val::integer((long)jacobi(*argI(a, 0), *n));
}
OP(nt_kronecker)
{
    return Val::integer((long)kronecker(*argI(a, 0), *argI(a, 1)));
}

// ---------------------------------------------------------------- modular roots / powers
static void root_domain(const RCP<const Integer> &n, const RCP<const Integer> &m)
{
    if (!n->is_positive())
        throw Decline("root index must be positive");
    if (!m->is_positive())
        throw Decline("modulus must be positive");
}
OP(nt_nthroot_mod)
{
    auto x = argI(a, 0), n = argI(a, 1), m = argI(a, 2);
    root_domain(n, m);
    RCP<const Integer> r;
    bool ok = nthroot_mod(outArg(r), x, n, m);
    return Val::vec({Val::boolean(ok), ok ? vI(r) : Val::nil()});
}
OP(nt_nthroot_mod_list)
{
    auto x = argI(a, 0), n = argI(a, 1), m = argI(a, 2);
    root_domain(n, m);
    if (m->as_integer_class() > 5000000)
        throw Decline("list would be huge");
    std::vector<RCP<const Integer>> roots;
    nthroot_mod_list(roots, x, n, m);
    return vecI(roots);
}
static void pow_domain(const RCP<const Number> &b, const RCP<const Integer> &m)
{
    if (!m->is_positive())
        throw Decline("modulus must be positive");
    (void)b;
}
OP(nt_powermod)
{
    auto x = argI(a, 0);
    auto b = argQ(a, 1);
    auto m = argI(a, 2);
    pow_domain(b, m);
    RCP<const Integer> r;
    bool ok = powermod(outArg(r), x, b, m);
    return Val::vec({Val::boolean(ok), ok ? vI(r) : Val::nil()});
}
OP(nt_powermod_list)
{
    auto x = argI(a, 0);
    auto b = argQ(a, 1);
    auto m = argI(a, 2);
    pow_domain(b, m);
    if (m->as_integer_class() > 5000000)
        throw Decline("list would be huge");
    std::vector<RCP<const Integer>> pows;
    powermod_list(pows, x, b, m);
    return vecI(pows);
}
OP(nt_quadratic_residues)
{
    auto n = argI(a, 0);
    if (n->as_integer_class() > 2000000)
        throw Decline("list would be huge");
    vec_integer_class v = quadratic_residues(*n);
    Val r = Val::vec();
    for (auto &x : v)
        r.v.push_back(Val::integer(x));
    return r;
}
OP(nt_is_quad_residue)
{
    auto p = argI(a, 1);
    nonzero(p, "modulus");
    return Val::boolean(is_quad_residue(*argI(a, 0), *p));
}
OP(nt_is_nth_residue)
{
    auto n = argI(a, 1), m = argI(a, 2);
    if (!n->is_positive())
        throw Decline("residue index must be positive");
    nonzero(m, "modulus");
    return Val::boolean(is_nth_residue(*argI(a, 0), *n, *m));
}

// ---------------------------------------------------------------- arithmetic functions
OP(nt_mobius)
{
    auto n = argI(a, 0);
    if (!mp_fits_slong_p(n->as_integer_class()))
        throw Decline("mobius takes a machine integer");
    return Val::integer((long)mobius(*n));
}
OP(nt_mertens)
{
    return Val::integer(mertens(argUL(a, 0, 200000)));
}
OP(nt_mp_polygonal_number)
{
    integer_class s = argInt(a, 0), n = argInt(a, 1);
    if (s < 3 || n < 1)
        throw Decline("polygonal: s > 2, n > 0");
    return Val::integer(mp_polygonal_number(s, n));
}
OP(nt_mp_principal_polygonal_root)
{
    integer_class s = argInt(a, 0), x = argInt(a, 1);
    if (s < 3 || x < 1)
        throw Decline("polygonal root: s > 2, x > 0");
    return Val::integer(mp_principal_polygonal_root(s, x));
}
OP(nt_polygonal_number)
{
    return Val::basic(polygonal_number(argB(a, 0), argB(a, 1)));
}
OP(nt_principal_polygonal_root)
{
    return Val::basic(principal_polygonal_root(argB(a, 0), argB(a, 1)));
}
OP(nt_perfect_power_decomposition)
{
    integer_class n = argInt(a, 0);
    if (n < 1)
        throw Decline("perfect power decomposition of a non-positive integer");
    auto pr = mp_perfect_power_decomposition(n, argFlag(a, 1));
    return Val::vec({Val::integer(pr.first), Val::integer(pr.second)});
}
OP(nt_perfect_power_p)
{
    integer_class n = argInt(a, 0);
    if (n < 0)
        throw Decline("negative");
    return Val::boolean(mp_perfect_power_p(n));
}
OP(nt_perfect_square_p)
{
    integer_class n = argInt(a, 0);
    if (n < 0)
        throw Decline("negative");
    return Val::boolean(mp_perfect_square_p(n));
}

// ---------------------------------------------------------------- prime sieve (C33)
namespace
{
struct ItBox {
    std::unique_ptr<Sieve::iterator> it;
};
} // namespace

OP(sieve_generate)
{
    unsigned long limit = argUL(a, 0, 50000000ul);
    std::vector<unsigned> pr;
    Sieve::generate_primes(pr, (unsigned)limit);
    Val r = Val::vec();
    r.v.reserve(pr.size());
    for (unsigned p : pr)
        r.v.push_back(Val::uinteger(p));
    return r;
}
// as sieve_generate but returns [count, sum, xor, first, last, ok_increasing] so that long
// lists need not cross the pipe (the full list is available through sieve_generate)
OP(sieve_generate_digest)
{
    unsigned long limit = argUL(a, 0, 50000000ul);
    std::vector<unsigned> pr;
    Sieve::generate_primes(pr, (unsigned)limit);
    unsigned long sum = 0, x = 0;
    bool inc = true;
    for (size_t i = 0; i < pr.size(); i++) {
        sum += pr[i];
        x ^= (unsigned long)pr[i] * 0x9E3779B97F4A7C15ul;
        if (i && pr[i] <= pr[i - 1])
            inc = false;
    }
    return Val::vec({Val::uinteger(pr.size()), Val::uinteger(sum), Val::uinteger(x),
                     Val::uinteger(pr.empty() ? 0 : pr.front()),
                     Val::uinteger(pr.empty() ? 0 : pr.back()), Val::boolean(inc)});
}
OP(sieve_iter_new)
{
    integer_class l = argInt(a, 0);
    auto box = std::make_shared<ItBox>();
    if (l < 0)
        box->it.reset(new Sieve::iterator());
    else {
        if (l > 50000000)
            throw Decline("limit");
        box->it.reset(new Sieve::iterator((unsigned)mp_get_ui(l)));
    }
    return Val::object("SieveIt", box);
}
// (sieve_iter_next it count stop_above): at most `count` calls of next_prime; stops after the
// first value > stop_above when stop_above >= 0 (the value that ends a caller's loop)
OP(sieve_iter_next)
{
    auto box = argObj<ItBox>(a, 0, "SieveIt");
    if (!box->it)
        throw Decline("iterator already destroyed");
    unsigned long count = argUL(a, 1, 2000000);
    integer_class stop = argInt(a, 2);
    Val r = Val::vec();
    for (unsigned long i = 0; i < count; i++) {
        unsigned p = box->it->next_prime();
        r.v.push_back(Val::uinteger(p));
        if (stop >= 0 && integer_class(p) > stop)
            break;
    }
    return r;
}
OP(sieve_iter_del)
{
    auto box = argObj<ItBox>(a, 0, "SieveIt");
    if (!box->it)
        throw Decline("iterator already destroyed");
    box->it.reset();
    return Val::boolean(true);
}
OP(sieve_clear)
{
    Sieve::clear();
    return Val::boolean(true);
}
OP(sieve_set_clear)
{
    Sieve::set_clear(argFlag(a, 0));
    return Val::boolean(true);
}
OP(sieve_set_size)
{
    unsigned long k = argUL(a, 0, 1024);
    if (k < 1)
        throw Decline("sieve size 0");
    Sieve::set_sieve_size((unsigned)k);
    return Val::boolean(true);
}

// ---------------------------------------------------------------- diophantine (C46)
OP(lde_solve)
{
    std::vector<Val> &rows = argVec(a, 0);
    unsigned p = (unsigned)rows.size();
    if (p < 1 || p > 16)
        throw Decline("rows");
    size_t q = 0;
    vec_basic el;
    for (unsigned i = 0; i < p; i++) {
        if (rows[i].k != Val::VEC)
            throw Decline("sort: want Vec of Vec");
        if (i == 0)
            q = rows[i].v.size();
        else if (rows[i].v.size() != q)
            throw Decline("ragged matrix");
        for (size_t j = 0; j < q; j++) {
            Args one{rows[i].v[j]};
            el.push_back(integer(argInt(one, 0)));
        }
    }
    if (q < 2 || q > 16)
        throw Decline("cols"); // homogeneous_lde asserts p > 0 and q > 1
    DenseMatrix A(p, (unsigned)q, el);
    std::vector<DenseMatrix> basis;
    homogeneous_lde(basis, A);
    Val r = Val::vec();
    for (auto &b : basis) {
        Val row = Val::vec();
        if (b.nrows() != 1 || b.ncols() != q)
            throw std::logic_error("basis element is not a 1 x q row");
        for (unsigned j = 0; j < q; j++) {
            RCP<const Basic> e = b.get(0, j);
            if (!is_a<Integer>(*e))
                throw std::logic_error("basis entry is not an Integer");
            row.v.push_back(Val::integer(down_cast<const Integer &>(*e).as_integer_class()));
        }
        r.v.push_back(row);
    }
    return r;
}
