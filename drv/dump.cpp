// Raw tree dump: public accessors only, no normalisation (DESIGN.md 2.2).
#include "drv.h"
#include <symengine/polys/uintpoly.h>
#include <symengine/polys/uratpoly.h>
#include <symengine/polys/uexprpoly.h>
#include <symengine/polys/msymenginepoly.h>
#include <symengine/fields.h>
#include <symengine/series_generic.h>
#include <symengine/matrix_expressions.h>
#include <symengine/tuple.h>
#ifdef HAVE_SYMENGINE_MPFR
#include <symengine/real_mpfr.h>
#endif
#ifdef HAVE_SYMENGINE_MPC
#include <symengine/complex_mpc.h>
#endif
#include <sstream>

namespace vd
{
using namespace SymEngine;

static void dz(const integer_class &i, std::string &out)
{
    std::ostringstream ss;
    ss << i;
    out += "\"" + ss.str() + "\"";
}

static void dlist(const vec_basic &v, std::string &out)
{
    out += "[";
    bool f = true;
    for (auto &x : v) {
        if (!f)
            out += ",";
        f = false;
        dump(*x, out);
    }
    out += "]";
}

template <class C>
static void dcont(const C &v, std::string &out)
{
    out += "[";
    bool f = true;
    for (auto &x : v) {
        if (!f)
            out += ",";
        f = false;
        dump(*x, out);
    }
    out += "]";
}

#ifdef HAVE_SYMENGINE_MPFR
static void dmpfr(mpfr_srcptr x, std::string &out)
{
    // exact: [prec, kind, mantissa, exp] with value = mantissa * 2^exp
    out += "[" + std::to_string((long)mpfr_get_prec(x)) + ",";
    if (mpfr_nan_p(x)) {
        out += "\"nan\"]";
        return;
    }
    if (mpfr_inf_p(x)) {
        out += mpfr_sgn(x) > 0 ? "\"inf\"]" : "\"-inf\"]";
        return;
    }
    if (mpfr_zero_p(x)) {
        out += mpfr_signbit(x) ? "\"-0\"]" : "\"0\"]";
        return;
    }
    mpz_t z;
    mpz_init(z);
    mpfr_exp_t e = mpfr_get_z_2exp(z, x);
    char *s = mpz_get_str(nullptr, 10, z);
    out += "\"num\",\"";
    out += s;
    out += "\"," + std::to_string((long)e) + "]";
    free(s);
    mpz_clear(z);
}
#endif

void dump(const Basic &b, std::string &out)
{
    TypeID tc = b.get_type_code();
    switch (tc) {
        case SYMENGINE_INTEGER:
            out += "[\"Integer\",";
            dz(down_cast<const Integer &>(b).as_integer_class(), out);
            out += "]";
            return;
        case SYMENGINE_RATIONAL: {
            const rational_class &q = down_cast<const Rational &>(b).as_rational_class();
            out += "[\"Rational\",";
            dz(get_num(q), out);
            out += ",";
            dz(get_den(q), out);
            out += "]";
            return;
        }
        case SYMENGINE_COMPLEX: {
            const Complex &c = down_cast<const Complex &>(b);
            out += "[\"Complex\",";
            dump(*c.real_part(), out);
            out += ",";
            dump(*c.imaginary_part(), out);
            out += "]";
            return;
        }
        case SYMENGINE_REAL_DOUBLE:
            out += "[\"RealDouble\",\"" + hexfloat(down_cast<const RealDouble &>(b).i) + "\"]";
            return;
        case SYMENGINE_COMPLEX_DOUBLE: {
            std::complex<double> c = down_cast<const ComplexDouble &>(b).i;
            out += "[\"ComplexDouble\",\"" + hexfloat(c.real()) + "\",\"" + hexfloat(c.imag()) + "\"]";
            return;
        }
#ifdef HAVE_SYMENGINE_MPFR
        case SYMENGINE_REAL_MPFR:
            out += "[\"RealMPFR\",";
            dmpfr(down_cast<const RealMPFR &>(b).i.get_mpfr_t(), out);
            out += "]";
            return;
#endif
#ifdef HAVE_SYMENGINE_MPC
        case SYMENGINE_COMPLEX_MPC: {
            mpc_srcptr c = down_cast<const ComplexMPC &>(b).as_mpc().get_mpc_t();
            out += "[\"ComplexMPC\",";
            dmpfr(mpc_realref(c), out);
            out += ",";
            dmpfr(mpc_imagref(c), out);
            out += "]";
            return;
        }
#endif
        case SYMENGINE_INFTY:
            out += "[\"Infty\",";
            dump(*down_cast<const Infty &>(b).get_direction(), out);
            out += "]";
            return;
        case SYMENGINE_NOT_A_NUMBER:
            out += "[\"NaN\"]";
            return;
        case SYMENGINE_SYMBOL:
            out += "[\"Symbol\",";
            json_str(down_cast<const Symbol &>(b).get_name(), out);
            out += "]";
            return;
        case SYMENGINE_DUMMY:
            out += "[\"Dummy\",";
            json_str(down_cast<const Dummy &>(b).get_name(), out);
            out += "," + std::to_string(down_cast<const Dummy &>(b).get_index()) + "]";
            return;
        case SYMENGINE_CONSTANT:
            out += "[\"Constant\",";
            json_str(down_cast<const Constant &>(b).get_name(), out);
            out += "]";
            return;
        case SYMENGINE_ADD: {
            const Add &x = down_cast<const Add &>(b);
            out += "[\"Add\",";
            dump(*x.get_coef(), out);
            out += ",[";
            bool f = true;
            for (auto &p : x.get_dict()) {
                if (!f)
                    out += ",";
                f = false;
                out += "[";
                dump(*p.first, out);
                out += ",";
                dump(*p.second, out);
                out += "]";
            }
            out += "]]";
            return;
        }
        case SYMENGINE_MUL: {
            const Mul &x = down_cast<const Mul &>(b);
            out += "[\"Mul\",";
            dump(*x.get_coef(), out);
            out += ",[";
            bool f = true;
            for (auto &p : x.get_dict()) {
                if (!f)
                    out += ",";
                f = false;
                out += "[";
                dump(*p.first, out);
                out += ",";
                dump(*p.second, out);
                out += "]";
            }
            out += "]]";
            return;
        }
        case SYMENGINE_POW: {
            const Pow &x = down_cast<const Pow &>(b);
            out += "[\"Pow\",";
            dump(*x.get_base(), out);
            out += ",";
            dump(*x.get_exp(), out);
            out += "]";
            return;
        }
        case SYMENGINE_FUNCTIONSYMBOL: {
            const FunctionSymbol &x = down_cast<const FunctionSymbol &>(b);
            out += "[\"FunctionSymbol\",";
            json_str(x.get_name(), out);
            out += ",";
            dlist(x.get_args(), out);
            out += "]";
            return;
        }
        case SYMENGINE_DERIVATIVE: {
            const Derivative &x = down_cast<const Derivative &>(b);
            out += "[\"Derivative\",";
            dump(*x.get_arg(), out);
            out += ",";
            dcont(x.get_symbols(), out);
            out += "]";
            return;
        }
        case SYMENGINE_SUBS: {
            const Subs &x = down_cast<const Subs &>(b);
            out += "[\"Subs\",";
            dump(*x.get_arg(), out);
            out += ",[";
            bool f = true;
            for (auto &p : x.get_dict()) {
                if (!f)
                    out += ",";
                f = false;
                out += "[";
                dump(*p.first, out);
                out += ",";
                dump(*p.second, out);
                out += "]";
            }
            out += "]]";
            return;
        }
        case SYMENGINE_PIECEWISE: {
            const Piecewise &x = down_cast<const Piecewise &>(b);
            out += "[\"Piecewise\",[";
            bool f = true;
            for (auto &p : x.get_vec()) {
                if (!f)
                    out += ",";
                f = false;
                out += "[";
                dump(*p.first, out);
                out += ",";
                dump(*p.second, out);
                out += "]";
            }
            out += "]]";
            return;
        }
        case SYMENGINE_BOOLEAN_ATOM:
            out += down_cast<const BooleanAtom &>(b).get_val() ? "[\"BooleanAtom\",true]"
                                                               : "[\"BooleanAtom\",false]";
            return;
        case SYMENGINE_INTERVAL: {
            const Interval &x = down_cast<const Interval &>(b);
            out += "[\"Interval\",";
            dump(*x.get_start(), out);
            out += ",";
            dump(*x.get_end(), out);
            out += x.get_left_open() ? ",true" : ",false";
            out += x.get_right_open() ? ",true]" : ",false]";
            return;
        }
        case SYMENGINE_FINITESET:
            out += "[\"FiniteSet\",";
            dcont(down_cast<const FiniteSet &>(b).get_container(), out);
            out += "]";
            return;
        case SYMENGINE_UNION:
            out += "[\"Union\",";
            dcont(down_cast<const Union &>(b).get_container(), out);
            out += "]";
            return;
        case SYMENGINE_INTERSECTION:
            out += "[\"Intersection\",";
            dcont(down_cast<const Intersection &>(b).get_container(), out);
            out += "]";
            return;
        case SYMENGINE_COMPLEMENT: {
            const Complement &x = down_cast<const Complement &>(b);
            out += "[\"Complement\",";
            dump(*x.get_universe(), out);
            out += ",";
            dump(*x.get_container(), out);
            out += "]";
            return;
        }
        case SYMENGINE_CONDITIONSET: {
            const ConditionSet &x = down_cast<const ConditionSet &>(b);
            out += "[\"ConditionSet\",";
            dump(*x.get_symbol(), out);
            out += ",";
            dump(*x.get_condition(), out);
            out += "]";
            return;
        }
        case SYMENGINE_IMAGESET: {
            const ImageSet &x = down_cast<const ImageSet &>(b);
            out += "[\"ImageSet\",";
            dump(*x.get_symbol(), out);
            out += ",";
            dump(*x.get_expr(), out);
            out += ",";
            dump(*x.get_baseset(), out);
            out += "]";
            return;
        }
        case SYMENGINE_CONTAINS: {
            const Contains &x = down_cast<const Contains &>(b);
            out += "[\"Contains\",";
            dump(*x.get_expr(), out);
            out += ",";
            dump(*x.get_set(), out);
            out += "]";
            return;
        }
        case SYMENGINE_AND:
            out += "[\"And\",";
            dcont(down_cast<const And &>(b).get_container(), out);
            out += "]";
            return;
        case SYMENGINE_OR:
            out += "[\"Or\",";
            dcont(down_cast<const Or &>(b).get_container(), out);
            out += "]";
            return;
        case SYMENGINE_XOR:
            out += "[\"Xor\",";
            dcont(down_cast<const Xor &>(b).get_container(), out);
            out += "]";
            return;
        case SYMENGINE_UINTPOLY: {
            const UIntPoly &x = down_cast<const UIntPoly &>(b);
            out += "[\"UIntPoly\",";
            dump(*x.get_var(), out);
            out += ",[";
            bool f = true;
            for (auto &p : x.get_poly().get_dict()) {
                if (!f)
                    out += ",";
                f = false;
                out += "[" + std::to_string(p.first) + ",";
                dz(p.second, out);
                out += "]";
            }
            out += "]]";
            return;
        }
        case SYMENGINE_URATPOLY: {
            const URatPoly &x = down_cast<const URatPoly &>(b);
            out += "[\"URatPoly\",";
            dump(*x.get_var(), out);
            out += ",[";
            bool f = true;
            for (auto &p : x.get_poly().get_dict()) {
                if (!f)
                    out += ",";
                f = false;
                out += "[" + std::to_string(p.first) + ",";
                dz(get_num(p.second), out);
                out += ",";
                dz(get_den(p.second), out);
                out += "]";
            }
            out += "]]";
            return;
        }
        case SYMENGINE_UEXPRPOLY: {
            const UExprPoly &x = down_cast<const UExprPoly &>(b);
            out += "[\"UExprPoly\",";
            dump(*x.get_var(), out);
            out += ",[";
            bool f = true;
            for (auto &p : x.get_poly().get_dict()) {
                if (!f)
                    out += ",";
                f = false;
                out += "[" + std::to_string(p.first) + ",";
                dump(*p.second.get_basic(), out);
                out += "]";
            }
            out += "]]";
            return;
        }
        case SYMENGINE_MINTPOLY: {
            const MIntPoly &x = down_cast<const MIntPoly &>(b);
            out += "[\"MIntPoly\",";
            dcont(x.get_vars(), out);
            out += ",[";
            bool f = true;
            for (auto &p : x.get_poly().get_dict()) {
                if (!f)
                    out += ",";
                f = false;
                out += "[[";
                for (size_t i = 0; i < p.first.size(); i++)
                    out += (i ? "," : "") + std::to_string(p.first[i]);
                out += "],";
                dz(p.second, out);
                out += "]";
            }
            out += "]]";
            return;
        }
        case SYMENGINE_MEXPRPOLY: {
            const MExprPoly &x = down_cast<const MExprPoly &>(b);
            out += "[\"MExprPoly\",";
            dcont(x.get_vars(), out);
            out += ",[";
            bool f = true;
            for (auto &p : x.get_poly().get_dict()) {
                if (!f)
                    out += ",";
                f = false;
                out += "[[";
                for (size_t i = 0; i < p.first.size(); i++)
                    out += (i ? "," : "") + std::to_string(p.first[i]);
                out += "],";
                dump(*p.second.get_basic(), out);
                out += "]";
            }
            out += "]]";
            return;
        }
        case SYMENGINE_GALOISFIELD: {
            const GaloisField &x = down_cast<const GaloisField &>(b);
            out += "[\"GaloisField\",";
            dump(*x.get_var(), out);
            out += ",";
            dz(x.get_poly().modulo_, out);
            out += ",[";
            bool f = true;
            for (auto &c : x.get_dict()) {
                if (!f)
                    out += ",";
                f = false;
                dz(c, out);
            }
            out += "]]";
            return;
        }
        case SYMENGINE_UNIVARIATESERIES: {
            const UnivariateSeries &x = down_cast<const UnivariateSeries &>(b);
            out += "[\"UnivariateSeries\",";
            json_str(x.get_var(), out);
            out += "," + std::to_string(x.get_degree()) + ",[";
            bool f = true;
            for (auto &p : x.get_poly().get_dict()) {
                if (!f)
                    out += ",";
                f = false;
                out += "[" + std::to_string(p.first) + ",";
                dump(*p.second.get_basic(), out);
                out += "]";
            }
            out += "]]";
            return;
        }
        case SYMENGINE_MATRIXSYMBOL:
            out += "[\"MatrixSymbol\",";
            json_str(down_cast<const MatrixSymbol &>(b).get_name(), out);
            out += "]";
            return;
        case SYMENGINE_DIAGONALMATRIX:
            out += "[\"DiagonalMatrix\",";
            dlist(down_cast<const DiagonalMatrix &>(b).get_container(), out);
            out += "]";
            return;
        case SYMENGINE_IMMUTABLEDENSEMATRIX: {
            const ImmutableDenseMatrix &x = down_cast<const ImmutableDenseMatrix &>(b);
            out += "[\"ImmutableDenseMatrix\"," + std::to_string(x.nrows()) + ","
                   + std::to_string(x.ncols()) + ",";
            dlist(x.get_values(), out);
            out += "]";
            return;
        }
        case SYMENGINE_MATRIXADD:
            out += "[\"MatrixAdd\",";
            dlist(down_cast<const MatrixAdd &>(b).get_terms(), out);
            out += "]";
            return;
        case SYMENGINE_MATRIXMUL: {
            const MatrixMul &x = down_cast<const MatrixMul &>(b);
            out += "[\"MatrixMul\",";
            dump(*x.get_scalar(), out);
            out += ",";
            dlist(x.get_factors(), out);
            out += "]";
            return;
        }
        case SYMENGINE_HADAMARDPRODUCT:
            out += "[\"HadamardProduct\",";
            dlist(down_cast<const HadamardProduct &>(b).get_factors(), out);
            out += "]";
            return;
        default:
            break;
    }
    // generic: class name followed by get_args()
    out += "[";
    json_str(type_code_name(tc), out);
    for (auto &x : b.get_args()) {
        out += ",";
        dump(*x, out);
    }
    out += "]";
}

std::string dump(const Basic &b)
{
    std::string s;
    dump(b, s);
    return s;
}

} // namespace vd
