// Matrix-expression ops (property C26): symengine/matrix_expressions.h
// Constructors keep the library's function names; the generic operations and
// predicates carry an mx_ prefix so that they cannot collide with DenseMatrix
// ops of other areas in the full driver.
#include "drv.h"
#include <symengine/matrix_expressions.h>

using namespace SymEngine;
using namespace vd;

namespace
{
// a genuine MatrixExpr object (Trace shares the type-code range but is a scalar Basic)
bool is_matrix(const Basic &b)
{
    return is_a_MatrixExpr(b) && !is_a<Trace>(b);
}

RCP<const MatrixExpr> argM(Args &a, size_t i)
{
    RCP<const Basic> b = argB(a, i);
    if (!is_matrix(*b))
        throw Decline("sort: want MatrixExpr");
    return rcp_static_cast<const MatrixExpr>(b);
}

// dimension argument: an integer literal or any Basic (symbolic dimension)
RCP<const Basic> argDim(Args &a, size_t i)
{
    if (i < a.size() && a[i].k == Val::INT)
        return integer(argInt(a, i));
    return argB(a, i);
}

vec_basic argMats(Args &a, size_t i, bool scalars_ok)
{
    vec_basic v = argVecB(a, i);
    size_t nmat = 0;
    for (auto &x : v) {
        if (is_matrix(*x))
            nmat++;
        else if (!scalars_ok)
            throw Decline("sort: want Vec of MatrixExpr");
    }
    // a product without any matrix factor is not a matrix expression
    if (scalars_ok && !v.empty() && nmat == 0)
        throw Decline("matrix_mul: no matrix factor");
    return v;
}

// exact number from text: "p", "p/q", or "re,im" with such parts (keeps the
// request small: one literal instead of up to three constructor calls per entry)
integer_class parse_z(const std::string &t)
{
    size_t i = (!t.empty() && t[0] == '-') ? 1 : 0;
    if (i == t.size())
        throw Decline("entry: bad number text");
    for (size_t k = i; k < t.size(); k++)
        if (t[k] < '0' || t[k] > '9')
            throw Decline("entry: bad number text");
    return integer_class(t);
}

RCP<const Number> parse_q(const std::string &t)
{
    size_t sl = t.find('/');
    if (sl == std::string::npos)
        return integer(parse_z(t));
    integer_class n = parse_z(t.substr(0, sl)), d = parse_z(t.substr(sl + 1));
    if (d == 0)
        throw Decline("entry: zero denominator");
    return Rational::from_two_ints(*integer(n), *integer(d));
}

RCP<const Basic> parse_entry(const std::string &t)
{
    if (t.empty() || t.size() > 200)
        throw Decline("entry: bad number text");
    size_t c = t.find(',');
    if (c == std::string::npos)
        return parse_q(t);
    return Complex::from_two_nums(*parse_q(t.substr(0, c)), *parse_q(t.substr(c + 1)));
}

// entries: Basic values, integer literals or number texts
vec_basic argEntries(Args &a, size_t i)
{
    std::vector<Val> &v = argVec(a, i);
    vec_basic r;
    for (auto &x : v) {
        if (x.k == Val::B) {
            if (is_a_MatrixExpr(*x.b))
                throw Decline("scalar entries only");
            r.push_back(x.b);
        } else if (x.k == Val::INT) {
            r.push_back(integer(integer_class(x.s)));
        } else if (x.k == Val::STR) {
            r.push_back(parse_entry(x.s));
        } else {
            throw Decline("sort: want entries");
        }
    }
    return r;
}

Val optB(const RCP<const Basic> &b)
{
    if (b.is_null())
        return Val::nil();
    return Val::basic(b);
}
} // namespace

// ---- leaves
OP(identity_matrix)
{
    return Val::basic(identity_matrix(argDim(a, 0)));
}
OP(zero_matrix)
{
    return Val::basic(zero_matrix(argDim(a, 0), argDim(a, 1)));
}
OP(diagonal_matrix)
{
    return Val::basic(diagonal_matrix(argEntries(a, 0)));
}
OP(immutable_dense_matrix)
{
    long m = argLong(a, 0), n = argLong(a, 1);
    vec_basic v = argEntries(a, 2);
    if (m < 1 || n < 1 || m > 64 || n > 64 || (size_t)(m * n) != v.size())
        throw Decline("immutable_dense_matrix: needs m,n >= 1 and m*n values");
    return Val::basic(immutable_dense_matrix((size_t)m, (size_t)n, v));
}
OP(matrix_symbol)
{
    return Val::basic(matrix_symbol(argStr(a, 0)));
}

// ---- operations
OP(matrix_add)
{
    return Val::basic(matrix_add(argMats(a, 0, false)));
}
OP(matrix_mul)
{
    return Val::basic(matrix_mul(argMats(a, 0, true)));
}
OP(hadamard_product)
{
    return Val::basic(hadamard_product(argMats(a, 0, false)));
}
OP(mx_transpose)
{
    return Val::basic(transpose(argM(a, 0)));
}
OP(mx_conjugate)
{
    return Val::basic(conjugate_matrix(argM(a, 0)));
}
OP(mx_trace)
{
    return Val::basic(trace(argM(a, 0)));
}

// ---- queries
OP(mx_size)
{
    auto sz = size(*argM(a, 0));
    return Val::vec({optB(sz.first), optB(sz.second)});
}
OP(mx_is_zero)
{
    return tri(is_zero(*argM(a, 0)));
}
OP(mx_is_diagonal)
{
    return tri(is_diagonal(*argM(a, 0)));
}
OP(mx_is_symmetric)
{
    return tri(is_symmetric(*argM(a, 0)));
}
OP(mx_is_lower)
{
    return tri(is_lower(*argM(a, 0)));
}
OP(mx_is_upper)
{
    return tri(is_upper(*argM(a, 0)));
}
OP(mx_is_real)
{
    return tri(is_real(*argM(a, 0)));
}
OP(mx_is_square)
{
    return tri(is_square(*argM(a, 0)));
}
OP(mx_is_toeplitz)
{
    return tri(is_toeplitz(*argM(a, 0)));
}
// all eight predicates and the size in one go (keeps responses small).
// (mx_facts M guard): with guard = #t the is_toeplitz query is replaced by the
// marker "K" for an ImmutableDenseMatrix with ncols >= nrows + 2, where
// is_toeplitz reads one element past the value vector (known finding; the
// unguarded query mx_is_toeplitz reproduces it).
OP(mx_facts)
{
    RCP<const MatrixExpr> m = argM(a, 0);
    bool guard = a.size() > 1 && argFlag(a, 1);
    Val r = Val::map();
    auto sz = size(*m);
    r.put("size", Val::vec({optB(sz.first), optB(sz.second)}));
    r.put("zero", tri(is_zero(*m)));
    r.put("diagonal", tri(is_diagonal(*m)));
    r.put("symmetric", tri(is_symmetric(*m)));
    r.put("lower", tri(is_lower(*m)));
    r.put("upper", tri(is_upper(*m)));
    r.put("real", tri(is_real(*m)));
    r.put("square", tri(is_square(*m)));
    bool oob = false;
    if (guard && is_a<ImmutableDenseMatrix>(*m)) {
        const ImmutableDenseMatrix &d = down_cast<const ImmutableDenseMatrix &>(*m);
        oob = d.ncols() >= d.nrows() + 2;
    }
    r.put("toeplitz", oob ? Val::str("K") : tri(is_toeplitz(*m)));
    return r;
}
