// C41 harness (target `thr`, variants tsan / tsan0): concurrent programs over a shared pool.
//
// One request line:
//     (pool S0 S1 ...) (thread T0 T1 ...) (thread ...) ...
// Every S / T is an ordinary statement of the shared op interpreter (sexp.cpp).  Inside `pool`,
// `$k` is pool statement k; inside a `thread`, `$k` with k < P (P = number of pool statements) is
// pool element k and `$k` with k >= P is the thread's own statement k - P.
// Pseudo ops for schedule perturbation: (yield) and (spin n); both return null.
//
// Execution:
//   1. the pool is built sequentially.  No hash / str / compare is applied to the pool elements
//      themselves, so their lazily cached hash_ is first written by the concurrent phase;
//   2. the raw dumps (no hashing involved) and reference counts of the pool are recorded;
//   3. T persistent worker threads are released together from a barrier, copy the pool registers
//      (concurrent refcount traffic), run their statement lists and record one JSON string per statement;
//   4. after the join: dumps and reference counts again;
//   5. every list is re-executed sequentially on the main thread;
//   6. the pool is rebuilt from scratch sequentially and str / hash / eq of old versus rebuilt
//      elements are recorded.
// Response: one JSON object
//   {"P":n, "pool0":[...], "pool1":[...], "rc0":[...], "rc1":[...], "thr":[[...]...],
//    "seq":[[...]...], "obs":[[str,hash]...], "obs2":[[str,hash]...], "same":[bool...]}
// Judging is done by checks/c41.py.  A ThreadSanitizer report kills the process
// (TSAN_OPTIONS=halt_on_error=1:exitcode=66).
#include "sexp.cpp" // Reader, Node, eval (internal linkage), val_json, classify_exception

#include <atomic>
#include <condition_variable>
#include <iostream>
#include <memory>
#include <mutex>
#include <thread>

using namespace vd;

OP(yield)
{
    (void)a;
    std::this_thread::yield();
    return Val::nil();
}
OP(spin)
{
    long n = argLong(a, 0);
    if (n < 0 || n > 10000000)
        throw Decline("spin count");
    volatile long sink = 0;
    for (long i = 0; i < n; i++)
        sink = sink + i;
    return Val::nil();
}

namespace
{

// Persistent worker threads (creating threads under ThreadSanitizer is expensive).  The barrier is
// built so that the ONLY happens-before edges of a round are main -> worker (start) and
// worker -> main (completion); in particular no edge orders one worker's list before another's:
//   * every worker sleeps on its own start mutex / condition variable, shared with the main thread
//     only, and reports completion through a second, separate mutex;
//   * after all workers of the round have been armed they are released together by one atomic flag
//     written by the main thread alone.
// (With a mutex shared by the workers, "worker 0 finished and went back to sleep" would
// happen-before "worker 1 wakes up late", and ThreadSanitizer would rightly stay silent about
// everything worker 0 did - measured: the two-thread control program was missed in 1 of 4 runs.)
class Workers
{
    struct Slot {
        std::mutex ms, md; // start / completion: two mutexes, see below
        std::condition_variable cs, cd;
        bool start = false, done = false, quit = false;
        std::thread th;
    };
    std::vector<std::unique_ptr<Slot>> slots;
    std::function<void(size_t)> job; // written by main before arming, read by armed workers
    std::atomic<bool> go{false};

    void loop(size_t id, Slot *s)
    {
        for (;;) {
            {
                std::unique_lock<std::mutex> lk(s->ms);
                s->cs.wait(lk, [&] { return s->start || s->quit; });
                if (s->quit)
                    return;
                s->start = false;
            }
            while (!go.load(std::memory_order_acquire))
                std::this_thread::yield();
            job(id);
            {
                std::unique_lock<std::mutex> lk(s->md);
                s->done = true;
                s->cd.notify_all();
            }
        }
    }

public:
    void run(size_t n, std::function<void(size_t)> f)
    {
        while (slots.size() < n) {
            size_t id = slots.size();
            slots.emplace_back(new Slot());
            Slot *s = slots.back().get();
            s->th = std::thread([this, id, s] { loop(id, s); });
        }
        go.store(false, std::memory_order_relaxed);
        job = f;
        for (size_t i = 0; i < n; i++) {
            std::unique_lock<std::mutex> lk(slots[i]->ms);
            slots[i]->start = true;
            slots[i]->cs.notify_all();
        }
        go.store(true, std::memory_order_release);
        // From here on the main thread must not release anything a not-yet-woken worker will still
        // acquire: it waits on the completion mutexes only (a wait on `ms` of a late worker would
        // publish the work of the already finished workers to it).
        for (size_t i = 0; i < n; i++) {
            std::unique_lock<std::mutex> lk(slots[i]->md);
            slots[i]->cd.wait(lk, [&] { return slots[i]->done; });
            slots[i]->done = false;
        }
        job = nullptr;
    }
    ~Workers()
    {
        for (auto &s : slots) {
            {
                std::unique_lock<std::mutex> lk(s->ms);
                s->quit = true;
                s->cs.notify_all();
            }
            s->th.join();
        }
    }
};
Workers &workers()
{
    static Workers w;
    return w;
}

Val exec_stmt(const Node &n, std::vector<Val> &regs)
{
    const Node *body = &n;
    if (n.t == Node::CALL && n.op == "let" && n.kids.size() == 1)
        body = &n.kids[0];
    try {
        return eval(*body, regs);
    } catch (DepError &) {
        return Val::err("Dep", "operand is an error value");
    } catch (...) {
        return classify_exception();
    }
}

void run_list(const Node &list, const std::vector<Val> &pool, std::vector<std::string> &out)
{
    std::vector<Val> regs(pool); // copies every RCP: refcount traffic on the shared objects
    regs.reserve(pool.size() + list.kids.size());
    for (auto &st : list.kids) {
        Val v = exec_stmt(st, regs);
        std::string s;
        val_json(v, s);
        out.push_back(std::move(s));
        regs.push_back(std::move(v));
    }
}

void build_pool(const Node &pl, std::vector<Val> &pool)
{
    pool.clear();
    for (auto &st : pl.kids)
        pool.push_back(exec_stmt(st, pool));
}

void put_list(const std::vector<std::string> &v, std::string &out, bool raw)
{
    out += "[";
    for (size_t i = 0; i < v.size(); i++) {
        if (i)
            out += ",";
        if (raw)
            out += v[i];
        else
            json_str(v[i], out);
    }
    out += "]";
}

std::string run_request(const std::string &line)
{
    Node pl;
    std::vector<Node> lists;
    try {
        Reader rd(line);
        bool have_pool = false;
        while (!rd.eof()) {
            Node n = rd.read();
            if (n.t != Node::CALL)
                throw std::invalid_argument("syntax: top-level form must be (pool ..) or (thread ..)");
            if (n.op == "pool" && !have_pool) {
                pl = n;
                have_pool = true;
            } else if (n.op == "thread")
                lists.push_back(n);
            else
                throw std::invalid_argument("syntax: unknown top-level form " + n.op);
        }
        if (!have_pool)
            throw std::invalid_argument("syntax: no pool");
        if (lists.size() > 16)
            throw std::invalid_argument("syntax: too many threads");
    } catch (std::invalid_argument &e) {
        std::string o = "{\"protocol_error\":";
        json_str(e.what(), o);
        return o + "}";
    }

    reset_global_state();
    std::vector<Val> pool;
    build_pool(pl, pool);
    const size_t P = pool.size();

    auto snapshot = [&](std::vector<std::string> &dumps, std::vector<std::string> &rcs) {
        for (auto &v : pool) {
            std::string s;
            val_json(v, s); // raw dump: public accessors, no hashing
            dumps.push_back(std::move(s));
            rcs.push_back(v.k == Val::B ? std::to_string(v.b->use_count()) : std::string("0"));
        }
    };
    std::vector<std::string> pool0, rc0, pool1, rc1;
    snapshot(pool0, rc0);

    // ---- concurrent phase (persistent worker threads, released together from a barrier)
    const size_t T = lists.size();
    std::vector<std::vector<std::string>> thr(T);
    workers().run(T, [&](size_t t) { run_list(lists[t], pool, thr[t]); });
    snapshot(pool1, rc1);

    // ---- sequential re-execution
    std::vector<std::vector<std::string>> seq(T);
    for (size_t t = 0; t < T; t++)
        run_list(lists[t], pool, seq[t]);

    // ---- pool rebuilt from scratch; observations of old and new
    std::vector<Val> pool2;
    build_pool(pl, pool2);
    std::vector<std::string> obs, obs2, same;
    for (size_t i = 0; i < P; i++) {
        auto ob = [](const Val &v) {
            std::string s = "[";
            if (v.k == Val::B) {
                json_str(v.b->__str__(), s);
                s += "," + std::to_string(v.b->hash());
            } else
                s += "null,0";
            return s + "]";
        };
        obs.push_back(ob(pool[i]));
        obs2.push_back(i < pool2.size() ? ob(pool2[i]) : std::string("[null,0]"));
        bool e = i < pool2.size() && pool[i].k == pool2[i].k
                 && (pool[i].k != Val::B || SymEngine::eq(*pool[i].b, *pool2[i].b));
        same.push_back(e ? "true" : "false");
    }

    std::string out = "{\"P\":" + std::to_string(P) + ",\"pool0\":";
    put_list(pool0, out, true);
    out += ",\"pool1\":";
    put_list(pool1, out, true);
    out += ",\"rc0\":";
    put_list(rc0, out, true);
    out += ",\"rc1\":";
    put_list(rc1, out, true);
    out += ",\"thr\":[";
    for (size_t t = 0; t < T; t++) {
        if (t)
            out += ",";
        put_list(thr[t], out, true);
    }
    out += "],\"seq\":[";
    for (size_t t = 0; t < T; t++) {
        if (t)
            out += ",";
        put_list(seq[t], out, true);
    }
    out += "],\"obs\":";
    put_list(obs, out, true);
    out += ",\"obs2\":";
    put_list(obs2, out, true);
    out += ",\"same\":";
    put_list(same, out, true);
    out += "}";
    return out;
}

} // namespace

int main(int argc, char **argv)
{
    std::ios::sync_with_stdio(false);
    if (argc > 1 && std::string(argv[1]) == "--ops") {
        for (auto &p : vd::optable())
            std::cout << p.first << "\n";
        return 0;
    }
    std::string line;
    while (std::getline(std::cin, line)) {
        std::string out = run_request(line);
        out.push_back('\n');
        fwrite(out.data(), 1, out.size(), stdout);
        fflush(stdout);
    }
    return 0;
}
