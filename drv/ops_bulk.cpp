// Bulk relations over a pool of expressions (DESIGN.md 5.4): eq / __cmp__ /
// RCPBasicKeyLess matrices, hashes, and container behaviour, computed in C++ so
// that one program judges 10^4..10^5 pairs.
#include "drv.h"
#include <symengine/dict.h>
#include <algorithm>

using namespace SymEngine;
using namespace vd;

// (pool_relations [b0 b1 ...]) ->
//   {"n":n, "eq":[row strings of 0/1/x], "cmp":[row strings of -,0,+,x(exception),o(other value)],
//    "less":[row strings 0/1/x], "hash":[...], "ptr":[index of first pool entry that is the same object]}
OP(pool_relations)
{
    vec_basic pool = argVecB(a, 0);
    size_t n = pool.size();
    if (n > 400)
        throw Decline("pool too large");
    Val eqv = Val::vec(), cmpv = Val::vec(), lessv = Val::vec(), hashv = Val::vec(), ptrv = Val::vec();
    Val exc = Val::vec(), typev = Val::vec(), nanv = Val::vec();
    RCPBasicKeyLess less;
    for (size_t i = 0; i < n; i++) {
        std::string e(n, '0'), c(n, '0'), l(n, '0');
        for (size_t j = 0; j < n; j++) {
            try {
                e[j] = eq(*pool[i], *pool[j]) ? '1' : '0';
            } catch (...) {
                e[j] = 'x';
                Val v = classify_exception();
                if (exc.v.size() < 5)
                    exc.v.push_back(Val::vec({Val::str("eq"), Val::integer((long)i), Val::integer((long)j), v}));
            }
            try {
                int r = pool[i]->__cmp__(*pool[j]);
                c[j] = r == 0 ? '0' : r == 1 ? '+' : r == -1 ? '-' : 'o';
            } catch (...) {
                c[j] = 'x';
                Val v = classify_exception();
                if (exc.v.size() < 5)
                    exc.v.push_back(Val::vec({Val::str("cmp"), Val::integer((long)i), Val::integer((long)j), v}));
            }
            try {
                l[j] = less(pool[i], pool[j]) ? '1' : '0';
            } catch (...) {
                l[j] = 'x';
                Val v = classify_exception();
                if (exc.v.size() < 5)
                    exc.v.push_back(Val::vec({Val::str("less"), Val::integer((long)i), Val::integer((long)j), v}));
            }
        }
        eqv.v.push_back(Val::str(e));
        cmpv.v.push_back(Val::str(c));
        lessv.v.push_back(Val::str(l));
        hashv.v.push_back(Val::uinteger(pool[i]->hash()));
        typev.v.push_back(Val::str(type_code_name(pool[i]->get_type_code())));
        {
            // does the object contain a NaN double?  (such objects are equal to nothing but the same pointer)
            std::string d = dump(*pool[i]);
            nanv.v.push_back(Val::boolean(d.find("\"nan\"") != std::string::npos
                                          || d.find("\"-nan\"") != std::string::npos));
        }
        size_t first = i;
        for (size_t j = 0; j < i; j++)
            if (pool[j].get() == pool[i].get()) {
                first = j;
                break;
            }
        ptrv.v.push_back(Val::integer((long)first));
    }
    Val m = Val::map();
    m.put("n", Val::integer((long)n));
    m.put("eq", eqv);
    m.put("cmp", cmpv);
    m.put("less", lessv);
    m.put("hash", hashv);
    m.put("ptr", ptrv);
    m.put("type", typev);
    m.put("hasnan", nanv);
    m.put("errs", exc);
    return m;
}

static long index_of(const vec_basic &pool, const RCP<const Basic> &x)
{
    for (size_t i = 0; i < pool.size(); i++)
        if (pool[i].get() == x.get())
            return (long)i;
    return -1;
}

// (pool_containers [pool] seed) : insert the pool in a seed-derived order into
//   set_basic (std::set, RCPBasicKeyLess), uset_basic (unordered_set, RCPBasicHash/RCPBasicKeyEq),
//   umap_basic_num via Add::dict_add_term with coefficient 1 (non-Number members only),
//   map_basic_basic (std::map)
// -> {"set":[pool indices in iteration order], "uset":[indices], "umap":[[index, coef dump]...], "map":[indices]}
OP(pool_containers)
{
    vec_basic pool = argVecB(a, 0);
    // insertion order: a permutation derived deterministically from the integer seed
    unsigned long seed = (unsigned long)mp_get_ui(argInt(a, 1));
    std::vector<size_t> ord(pool.size());
    for (size_t i = 0; i < ord.size(); i++)
        ord[i] = i;
    unsigned long long st = seed * 6364136223846793005ULL + 1442695040888963407ULL;
    for (size_t i = ord.size(); i > 1; i--) {
        st = st * 6364136223846793005ULL + 1442695040888963407ULL;
        size_t j = (size_t)((st >> 33) % i);
        std::swap(ord[i - 1], ord[j]);
    }
    set_basic s;
    uset_basic us;
    umap_basic_num um;
    map_basic_basic mb;
    for (size_t i : ord) {
        s.insert(pool[i]);
        us.insert(pool[i]);
        mb.insert({pool[i], pool[i]});
        if (!is_a_Number(*pool[i]))
            Add::dict_add_term(um, one, pool[i]);
    }
    Val m = Val::map();
    Val v1 = Val::vec(), v2 = Val::vec(), v3 = Val::vec(), v4 = Val::vec();
    for (auto &x : s)
        v1.v.push_back(Val::integer(index_of(pool, x)));
    for (auto &x : us)
        v2.v.push_back(Val::integer(index_of(pool, x)));
    for (auto &p : um)
        v3.v.push_back(Val::vec({Val::integer(index_of(pool, p.first)), Val::basic(p.second)}));
    for (auto &p : mb)
        v4.v.push_back(Val::integer(index_of(pool, p.first)));
    m.put("set", v1);
    m.put("uset", v2);
    m.put("umap", v3);
    m.put("map", v4);
    return m;
}

// (pool_obs [pool]) -> [{"d": dump, "s": str, "h": hash, "t": type} ...] with per-element exception capture
OP(pool_obs)
{
    vec_basic pool = argVecB(a, 0);
    Val out = Val::vec();
    for (auto &x : pool) {
        Val m = Val::map();
        m.put("d", Val::basic(x));
        try {
            m.put("s", Val::str(x->__str__()));
        } catch (...) {
            m.put("s", classify_exception());
        }
        m.put("h", Val::uinteger(x->hash()));
        m.put("t", Val::str(type_code_name(x->get_type_code())));
        out.v.push_back(m);
    }
    return out;
}

