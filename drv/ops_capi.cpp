// C42: table-driven binding of the C API (cwrapper.h) and of the C++
// Expression wrapper (expression.h).  DESIGN.md section 6 (C42), Appendix C.
//
//   (capi_env "tag1,tag2")                -> {"obj":"CapiEnv"}   (active known-finding tags)
//   (capi $env "fn" [i0 i1 ...] "s" d:..) -> one observation (JSON object)
//
// The environment owns genuine C handles (basic_new_heap, vecbasic_new, ...).
// Operand references are integers resolved *here* modulo the number of live
// handles of the sort the function requires (so every sub-list of a program
// is a valid program).  Every step
//   1. snapshots the C++ values of its inputs (copies of the RCPs),
//   2. computes the corresponding C++ API result ("cpp", or the exception),
//   3. calls the C function inside catch (...) ("code", "c", or "escaped"),
//   4. after an error code re-validates the output handles ("post").
// The comparison itself is done by checks/c42.py.
//
// The binding bodies live in capi_*.inc (same translation unit).
#include "drv.h"
#include <symengine/cwrapper.h>
#include <symengine/expression.h>
#include <symengine/matrix.h>
#include <symengine/ntheory.h>
#include <symengine/eval.h>
#include <symengine/eval_double.h>
#include <symengine/parser.h>
#include <symengine/solve.h>
#include <symengine/printers.h>
#include <symengine/lambda_double.h>
#include <symengine/visitor.h>
#include <symengine/subs.h>
#include <chrono>
#include <cmath>
#include <cstring>
#include <set>
#include <sstream>

// The opaque C types.  These definitions are token-for-token the ones of
// cwrapper.cpp (one-definition rule satisfied); they are used only to
// snapshot inputs and to look for null entries, never to produce the "c"
// observation (that goes through the C getters).
struct CRCPBasic {
    SymEngine::RCP<const SymEngine::Basic> m;
};
struct CSetBasic {
    SymEngine::set_basic m;
};
struct CVectorInt {
    std::vector<int> m;
};
struct CVecBasic {
    SymEngine::vec_basic m;
};
struct CDenseMatrix {
    SymEngine::DenseMatrix m;
};
struct CSparseMatrix {
    SymEngine::CSRMatrix m;
};
struct CMapBasicBasic {
    SymEngine::map_basic_basic m;
};

using namespace SymEngine;
using namespace vd;

namespace
{

inline RCP<const Basic> &rc(basic_struct *p)
{
    return reinterpret_cast<CRCPBasic *>(p)->m;
}

Val B2V(const RCP<const Basic> &r)
{
    if (r.is_null())
        return Val::nil();
    return Val::basic(r);
}
Val VB2V(const vec_basic &v)
{
    Val r = Val::vec();
    for (auto &x : v)
        r.v.push_back(B2V(x));
    return r;
}
template <class C>
Val CB2V(const C &v)
{
    Val r = Val::vec();
    for (auto &x : v)
        r.v.push_back(B2V(x));
    return r;
}

// ------------------------------------------------------------ resource guard
const double SAT = 1e18;
const double LIMIT = 3e5; // bits

size_t mp_bit_length(const integer_class &z)
{
#if SYMENGINE_INTEGER_CLASS != SYMENGINE_BOOSTMP
    return mpz_sizeinbase(get_mpz_t(z), 2);
#else
    std::ostringstream ss;
    ss << z;
    return ss.str().size() * 4;
#endif
}

// set per step from the environment's active known-finding tags
bool g_gamma_tag = false; // tag gamma_half_integer_int_overflow is active
bool g_gamma_hit = false; // the tag's tighter bound was what made est() saturate

// upper bound (log2) of the size of the numbers that evaluating `b` can build
double est(const Basic &b, const map_basic_basic *m = nullptr, int depth = 0)
{
    if (depth > 60)
        return SAT;
    if (is_a<Integer>(b))
        return (double)mp_bit_length(down_cast<const Integer &>(b).as_integer_class()) + 1;
    if (is_a<Rational>(b)) {
        const rational_class &q = down_cast<const Rational &>(b).as_rational_class();
        return (double)std::max(mp_bit_length(get_num(q)), mp_bit_length(get_den(q))) + 1;
    }
    if (is_a<Complex>(b)) {
        const Complex &c = down_cast<const Complex &>(b);
        return std::max(est(*c.real_part(), m, depth + 1), est(*c.imaginary_part(), m, depth + 1)) + 1;
    }
    if (is_a_Number(b))
        return 64;
    if (m) {
        auto it = m->find(b.rcp_from_this());
        if (it != m->end())
            return std::max(2.0, est(*it->second, nullptr, depth + 1));
    }
    if (is_a<Pow>(b)) {
        const Pow &p = down_cast<const Pow &>(b);
        double eb = est(*p.get_base(), m, depth + 1), ee = est(*p.get_exp(), m, depth + 1);
        if (eb >= SAT || ee > 40)
            return SAT;
        return std::min(SAT, (eb + 2) * std::pow(2.0, ee));
    }
    vec_basic args = b.get_args();
    if (is_a<Mul>(b)) {
        double s = 0;
        for (auto &a : args)
            s += est(*a, m, depth + 1);
        return std::min(SAT, s);
    }
    double mx = 2;
    for (auto &a : args)
        mx = std::max(mx, est(*a, m, depth + 1));
    if (is_a<Gamma>(b) || is_a<LogGamma>(b) || is_a<Beta>(b) || is_a<LowerGamma>(b) || is_a<UpperGamma>(b)
        || is_a<PolyGamma>(b) || is_a<Zeta>(b) || is_a<Dirichlet_eta>(b)) {
        // gamma & co. of numbers: factorial growth
        if (mx > 10)
            return SAT;
        // known finding (tag gamma_half_integer_int_overflow): gamma_multiple_2 (functions.cpp)
        // multiplies odd numbers in an `int` that overflows from gamma(23/2) on; while the tag is
        // active the arguments are kept so small that no sum of two of them gets there
        if (g_gamma_tag && mx > 4) {
            g_gamma_hit = true;
            return SAT;
        }
    }
    return std::min(SAT, mx + 8);
}

size_t nodes(const Basic &b, size_t cap = 2000)
{
    size_t n = 1;
    for (auto &a : b.get_args()) {
        if (n > cap)
            break;
        n += nodes(*a, cap);
    }
    return n;
}

// number of terms expand() may produce (upper bound)
double terms(const Basic &b, int depth = 0)
{
    if (depth > 60)
        return SAT;
    vec_basic args = b.get_args();
    if (is_a<Add>(b)) {
        double s = 0;
        for (auto &a : args)
            s += terms(*a, depth + 1);
        return std::min(SAT, s);
    }
    if (is_a<Mul>(b)) {
        double s = 1;
        for (auto &a : args)
            s *= terms(*a, depth + 1);
        return std::min(SAT, s);
    }
    if (is_a<Pow>(b)) {
        const Pow &p = down_cast<const Pow &>(b);
        double tb = terms(*p.get_base(), depth + 1);
        if (tb <= 1)
            return 1;
        if (is_a<Integer>(*p.get_exp())) {
            const integer_class &e = down_cast<const Integer &>(*p.get_exp()).as_integer_class();
            if (!mp_fits_slong_p(e))
                return SAT;
            double n = std::fabs((double)mp_get_si(e));
            return std::min(SAT, std::pow(tb, n));
        }
        return tb;
    }
    double s = 1;
    for (auto &a : args)
        s += terms(*a, depth + 1);
    return std::min(SAT, s);
}

void guard_in(const RCP<const Basic> &r)
{
    if (nodes(*r) > 600 || est(*r) > LIMIT)
        throw Decline("resource: operand too large");
}

// ------------------------------------------------------------ environment
enum Sort { ANY, NUM, INT, RAT, EXACT, SYM, SETS, CPLX, RDBL, CDBL, FSYM, ADD_, MUL_, FINITE };

bool has_sort(const Basic &b, Sort s)
{
    switch (s) {
        case ANY:
            return true;
        case NUM:
            return is_a_Number(b);
        case INT:
            return is_a<Integer>(b);
        case RAT:
            return is_a<Rational>(b);
        case EXACT:
            return is_a<Integer>(b) || is_a<Rational>(b);
        case SYM:
            return is_a<Symbol>(b);
        case SETS:
            return is_a_Set(b);
        case CPLX:
            return SymEngine::is_a_Complex(b);
        case RDBL:
            return is_a<RealDouble>(b);
        case CDBL:
            return is_a<ComplexDouble>(b);
        case FSYM:
            return is_a<FunctionSymbol>(b);
        case ADD_:
            return is_a<Add>(b);
        case MUL_:
            return is_a<Mul>(b);
        case FINITE:
            return is_a_Number(b) && !is_a<Infty>(b) && !is_a<NaN>(b);
    }
    return false;
}

template <class T>
struct Slot {
    long id;
    T *p;
};
struct MapSlot {
    long id;
    CMapBasicBasic *p;
    vec_basic keys; // every key ever inserted (read-out probes)
};
struct ViSlot {
    long id;
    CVectorInt *p;
    size_t n; // number of push_backs (there is no size getter)
};
struct LamSlot {
    long id;
    CLambdaRealDoubleVisitor *p;
    size_t nin, nout; // 0,0 = not initialised
    bool ok;
};

struct Env {
    // tags of the known findings that are active (known_findings.json entry listed for C42 whose
    // reproducer still fails): only these are excluded by construction, see Step::known()
    std::set<std::string> tags;
    long next_id = 0;
    std::vector<basic_struct *> h;
    std::vector<Slot<CVecBasic>> vec;
    std::vector<Slot<CSetBasic>> set;
    std::vector<MapSlot> map;
    std::vector<Slot<CDenseMatrix>> dm;
    std::vector<Slot<CSparseMatrix>> sm;
    std::vector<ViSlot> vi;
    std::vector<LamSlot> lam;
    ~Env()
    {
        for (auto p : h)
            basic_free_heap(p);
        for (auto &s : vec)
            vecbasic_free(s.p);
        for (auto &s : set)
            setbasic_free(s.p);
        for (auto &s : map)
            mapbasicbasic_free(s.p);
        for (auto &s : dm)
            dense_matrix_free(s.p);
        for (auto &s : sm)
            sparse_matrix_free(s.p);
        for (auto &s : vi)
            vectorint_free(s.p);
        for (auto &s : lam)
            lambda_real_double_visitor_free(s.p);
    }
};

struct HRef {
    int idx;
    basic_struct *p;
    RCP<const Basic> r; // snapshot
};

bool dm_full(const DenseMatrix &m)
{
    for (auto &x : m.as_vec_basic())
        if (x.is_null())
            return false;
    return true;
}

Val excval(bool *is_assert = nullptr)
{
    // called inside a catch block
    int code = SYMENGINE_RUNTIME_ERROR;
    try {
        throw;
    } catch (Decline &) {
        throw;
    } catch (SymEngineException &e) {
        code = e.error_code();
    } catch (...) {
    }
    Val c = classify_exception();
    Val r = Val::map();
    r.put("exc", Val::str(c.s)).put("ecode", Val::integer((long)code)).put("what", Val::str(c.s2.substr(0, 200)));
    if (is_assert)
        *is_assert = (c.s == "VerifAssertFailure");
    return r;
}

struct Step {
    Env &e;
    size_t nlive;
    std::vector<integer_class> iv;
    size_t ip = 0;
    std::string sv;
    double dv = 0;
    Val res = Val::map();
    Val refs = Val::vec();
    std::vector<int> outs; // output handle indices (for the post-error check)

    Step(Env &env) : e(env), nlive(env.h.size()) {}

    integer_class Z()
    {
        if (iv.empty())
            return integer_class(0);
        integer_class z = iv[ip % iv.size()];
        ip++;
        return z;
    }
    long L()
    {
        integer_class z = Z();
        if (!mp_fits_slong_p(z))
            throw Decline("int too large");
        return mp_get_si(z);
    }
    size_t R(size_t n)
    {
        if (n == 0)
            throw Decline("empty: nothing to refer to");
        return idx(Z(), n);
    }
    // reference -> index in 0..n-1.  z >= 0: z mod n.  Negative references count from the end
    // (-1 and -2: the newest, -3: the one before, ...) so that a generated block of steps can
    // refer to "what the previous step made" without knowing how many objects exist.
    static size_t idx(const integer_class &z, size_t n)
    {
        integer_class r;
        if (z >= 0) {
            mp_fdiv_r(r, z, integer_class((unsigned long)n));
            return (size_t)mp_get_ui(r);
        }
        integer_class k = -z - 2;
        if (k < 0)
            k = 0;
        mp_fdiv_r(r, k, integer_class((unsigned long)n));
        return n - 1 - (size_t)mp_get_ui(r);
    }
    basic_struct *hp(int i)
    {
        return e.h[i];
    }
    // input handle of a sort; the RCP is copied *now*
    HRef H(Sort s, bool guard = true)
    {
        std::vector<int> cand;
        for (size_t i = 0; i < nlive; i++)
            if (has_sort(*rc(e.h[i]), s))
                cand.push_back((int)i);
        if (cand.empty()) {
            Z();
            throw Decline("empty: no handle of the required sort");
        }
        int k = cand[R(cand.size())];
        HRef x{k, e.h[k], rc(e.h[k])};
        if (guard)
            guard_in(x.r);
        refs.v.push_back(Val::integer((long)k));
        return x;
    }
    // output handle: negative = fresh (basic_new_heap), else an existing one
    int O()
    {
        integer_class z = Z();
        int k;
        if (z == -1 || nlive == 0) {
            e.h.push_back(basic_new_heap());
            k = (int)e.h.size() - 1;
        } else {
            k = (int)idx(z, nlive);
        }
        refs.v.push_back(Val::integer((long)k));
        outs.push_back(k);
        return k;
    }
    // a second/third output distinct from the earlier ones
    int O2()
    {
        for (int tries = 0; tries < 4; tries++) {
            size_t before = outs.size();
            int k = O();
            bool dup = false;
            for (size_t i = 0; i < before; i++)
                if (outs[i] == k)
                    dup = true;
            if (!dup)
                return k;
            outs.pop_back();
            refs.v.pop_back();
        }
        e.h.push_back(basic_new_heap());
        int k = (int)e.h.size() - 1;
        refs.v.push_back(Val::integer((long)k));
        outs.push_back(k);
        return k;
    }

    template <class T>
    size_t pick(std::vector<T> &v)
    {
        if (v.empty()) {
            Z();
            throw Decline("empty: no container of the required kind");
        }
        return R(v.size());
    }
    // output container: negative = fresh
    template <class T, class NewFn>
    size_t pick_out(std::vector<T> &v, NewFn mk)
    {
        integer_class z = Z();
        if (z == -1 || v.empty()) {
            v.push_back(mk());
            res.put("new", Val::boolean(true));
            return v.size() - 1;
        }
        return idx(z, v.size());
    }
    size_t VO()
    {
        return pick_out(e.vec, [&] { return Slot<CVecBasic>{e.next_id++, vecbasic_new()}; });
    }
    size_t SO()
    {
        return pick_out(e.set, [&] { return Slot<CSetBasic>{e.next_id++, setbasic_new()}; });
    }
    size_t MO()
    {
        return pick_out(e.map, [&] { return MapSlot{e.next_id++, mapbasicbasic_new(), {}}; });
    }
    size_t DMO()
    {
        return pick_out(e.dm, [&] { return Slot<CDenseMatrix>{e.next_id++, dense_matrix_new()}; });
    }
    // input dense matrix: only matrices without null entries
    size_t DMI()
    {
        std::vector<size_t> cand;
        for (size_t i = 0; i < e.dm.size(); i++)
            if (dm_full(e.dm[i].p->m))
                cand.push_back(i);
        if (cand.empty()) {
            Z();
            throw Decline("empty: no fully initialised matrix");
        }
        size_t k = cand[R(cand.size())];
        for (auto &x : e.dm[k].p->m.as_vec_basic())
            guard_in(x);
        return k;
    }
    // output matrix different from the inputs (no aliasing of containers)
    size_t DMO_not(std::initializer_list<size_t> ins)
    {
        integer_class z = Z();
        std::vector<size_t> cand;
        for (size_t i = 0; i < e.dm.size(); i++) {
            bool used = false;
            for (size_t j : ins)
                if (i == j)
                    used = true;
            if (!used)
                cand.push_back(i);
        }
        if (z == -1 || cand.empty()) {
            e.dm.push_back(Slot<CDenseMatrix>{e.next_id++, dense_matrix_new()});
            return e.dm.size() - 1;
        }
        return cand[idx(z, cand.size())];
    }
    void guard_vec(const vec_basic &v)
    {
        if (v.size() > 40)
            throw Decline("resource: vector too long");
        for (auto &x : v)
            guard_in(x);
    }

    // ---- the generic call protocol
    // cf: the C call (returns the error code, 0 for functions without one)
    // obs: observation of the C side after the call
    // pf: the corresponding C++ API computation producing the same shape
    void run(bool hascode, const std::function<int()> &cf, const std::function<Val()> &obs,
             const std::function<Val()> &pf)
    {
        Val cpp;
        bool cpp_exc = false, is_assert = false;
        try {
            cpp = pf();
        } catch (Decline &) {
            throw;
        } catch (...) {
            cpp = excval(&is_assert);
            cpp_exc = true;
        }
        int code = 0;
        bool escaped = false;
        try {
            code = cf();
        } catch (...) {
            Val c = classify_exception();
            if (c.s == "VerifAssertFailure")
                is_assert = true; // an instrumented SYMENGINE_ASSERT, not a library exception (reported by C03)
            else
                res.put("escaped", Val::str(c.s + ": " + c.s2.substr(0, 200)));
            escaped = true;
        }
        if (is_assert)
            res.put("assert", Val::boolean(true));
        res.put("hascode", Val::boolean(hascode));
        if (!escaped) {
            res.put("code", Val::integer((long)code));
            if (code == 0) {
                try {
                    res.put("c", obs());
                } catch (...) {
                    Val c = classify_exception();
                    if (c.s == "VerifAssertFailure") {
                        if (!is_assert)
                            res.put("assert", Val::boolean(true));
                    } else
                        res.put("escaped", Val::str("observer: " + c.s + ": " + c.s2.substr(0, 200)));
                }
            }
        }
        res.put("cpp", cpp);
        if (escaped || code != 0)
            post();
        (void)cpp_exc;
    }
    // functions whose result is written to basic output handles
    void runB(bool hascode, const std::function<int()> &cf, const std::function<vec_basic()> &pf)
    {
        std::vector<int> os = outs;
        run(
            hascode, cf,
            [&, os] {
                Val r = Val::vec();
                for (int k : os)
                    r.v.push_back(B2V(rc(e.h[k])));
                return r;
            },
            [&] { return VB2V(pf()); });
    }

    // after an error: every output handle must still be usable
    void post()
    {
        Val bad = Val::vec();
        for (int k : outs) {
            RCP<const Basic> r = rc(e.h[k]);
            if (r.is_null()) {
                if ((size_t)k < nlive)
                    bad.v.push_back(Val::str("handle " + std::to_string(k) + " became null"));
                continue;
            }
            std::string want;
            bool cpp_throw = false;
            try {
                want = r->__str__();
            } catch (...) {
                cpp_throw = true;
            }
            char *p = nullptr;
            try {
                p = basic_str(e.h[k]);
            } catch (...) {
                bad.v.push_back(Val::str("basic_str threw"));
                continue;
            }
            if (p == nullptr) {
                if (!cpp_throw)
                    bad.v.push_back(Val::str("basic_str returned NULL"));
            } else {
                if (cpp_throw || want != p)
                    bad.v.push_back(Val::str("basic_str differs from __str__"));
                basic_str_free(p);
            }
        }
        res.put("post", bad);
    }

    // drop fresh handles that were never assigned
    void cleanup()
    {
        for (size_t i = e.h.size(); i-- > nlive;) {
            if (rc(e.h[i]).is_null()) {
                basic_free_heap(e.h[i]);
                e.h.erase(e.h.begin() + i);
            }
        }
        while (e.h.size() > 60) { // keep the environment small
            basic_free_heap(e.h.back());
            e.h.pop_back();
        }
    }

    // ---- read-outs through the C getters
    Val ro_vec(CVecBasic *v)
    {
        Val r = Val::vec();
        size_t n = vecbasic_size(v);
        for (size_t i = 0; i < n; i++) {
            basic t;
            basic_new_stack(t);
            int c = vecbasic_get(v, i, t);
            if (c != 0)
                r.v.push_back(Val::str("vecbasic_get error " + std::to_string(c)));
            else
                r.v.push_back(B2V(rc(t)));
            basic_free_stack(t);
        }
        return r;
    }
    Val ro_set(CSetBasic *v)
    {
        Val r = Val::vec();
        size_t n = setbasic_size(v);
        for (size_t i = 0; i < n; i++) {
            basic t;
            basic_new_stack(t);
            setbasic_get(v, (int)i, t);
            r.v.push_back(B2V(rc(t)));
            basic_free_stack(t);
        }
        return r;
    }
    Val ro_map(MapSlot &m)
    {
        Val r = Val::map();
        r.put("size", Val::integer((long)mapbasicbasic_size(m.p)));
        Val probes = Val::vec();
        for (auto &k : m.keys) {
            basic t, kk;
            basic_new_stack(t);
            basic_new_stack(kk);
            rc(kk) = k;
            int found = mapbasicbasic_get(m.p, kk, t);
            Val pr = Val::vec();
            pr.v.push_back(B2V(k));
            pr.v.push_back(Val::integer((long)found));
            pr.v.push_back(found ? B2V(rc(t)) : Val::nil());
            probes.v.push_back(pr);
            basic_free_stack(t);
            basic_free_stack(kk);
        }
        r.put("probes", probes);
        return r;
    }
    Val ro_dm(CDenseMatrix *m)
    {
        Val r = Val::map();
        unsigned long rows = dense_matrix_rows(m), cols = dense_matrix_cols(m);
        r.put("r", Val::integer((long)rows)).put("c", Val::integer((long)cols));
        Val it = Val::vec();
        for (unsigned long i = 0; i < rows; i++)
            for (unsigned long j = 0; j < cols; j++) {
                basic t;
                basic_new_stack(t);
                int c = dense_matrix_get_basic(t, m, i, j);
                if (c != 0)
                    it.v.push_back(Val::str("get error"));
                else
                    it.v.push_back(B2V(rc(t)));
                basic_free_stack(t);
            }
        r.put("m", it);
        return r;
    }
    static Val mval(const DenseMatrix &m)
    {
        Val r = Val::map();
        r.put("r", Val::integer((long)m.nrows())).put("c", Val::integer((long)m.ncols()));
        r.put("m", VB2V(m.as_vec_basic()));
        return r;
    }
    Val ro_sm(CSparseMatrix *m)
    {
        Val r = Val::map();
        unsigned rows = m->m.nrows(), cols = m->m.ncols(); // no C getter for the shape
        r.put("r", Val::integer((long)rows)).put("c", Val::integer((long)cols));
        Val it = Val::vec();
        for (unsigned i = 0; i < rows; i++)
            for (unsigned j = 0; j < cols; j++) {
                basic t;
                basic_new_stack(t);
                int c = sparse_matrix_get_basic(t, m, i, j);
                if (c != 0)
                    it.v.push_back(Val::str("get error"));
                else
                    it.v.push_back(B2V(rc(t)));
                basic_free_stack(t);
            }
        r.put("m", it);
        return r;
    }
    static Val smval(const CSRMatrix &m)
    {
        Val r = Val::map();
        r.put("r", Val::integer((long)m.nrows())).put("c", Val::integer((long)m.ncols()));
        Val it = Val::vec();
        for (unsigned i = 0; i < m.nrows(); i++)
            for (unsigned j = 0; j < m.ncols(); j++)
                it.v.push_back(B2V(m.get(i, j)));
        r.put("m", it);
        return r;
    }
    // exclusion of a recorded library defect: applies iff its tag is active; otherwise the
    // input is executed and judged like any other
    bool tag(const char *t) const
    {
        return e.tags.count(t) != 0;
    }
    void known(const char *t)
    {
        if (tag(t))
            throw Decline(std::string("known:") + t);
    }
};

typedef void (*BindFn)(Step &);
std::map<std::string, BindFn> &table()
{
    static std::map<std::string, BindFn> t;
    return t;
}
struct BReg {
    BReg(const char *n, BindFn f)
    {
        table()[n] = f;
    }
};
#define BIND(name)                                                             \
    void b_##name(Step &s);                                                    \
    BReg br_##name(#name, b_##name);                                           \
    void b_##name(Step &s)

std::string take_str(char *p)
{
    std::string r(p);
    basic_str_free(p);
    return r;
}

#include "capi_basic.inc"
#include "capi_cont.inc"
#include "capi_matrix.inc"
#include "capi_misc.inc"
#include "capi_expr.inc"

} // namespace

OP(capi_env)
{
    // (capi_env "tag1,tag2,...") : the active known-finding tags
    auto e = std::make_shared<Env>();
    if (!a.empty() && a[0].k == Val::STR) {
        const std::string &t = a[0].s;
        size_t p = 0;
        while (p < t.size()) {
            size_t q = t.find(',', p);
            if (q == std::string::npos)
                q = t.size();
            if (q > p)
                e->tags.insert(t.substr(p, q - p));
            p = q + 1;
        }
    }
    return Val::object("CapiEnv", e);
}

OP(capi_names)
{
    Val r = Val::vec();
    for (auto &p : table())
        r.v.push_back(Val::str(p.first));
    return r;
}

static double prof_total = 0, prof_bind = 0;
static long prof_n = 0;
OP(capi_prof)
{
    Val r = Val::vec({Val::dbl(prof_total), Val::dbl(prof_bind), Val::integer(prof_n)});
    prof_total = prof_bind = 0;
    prof_n = 0;
    return r;
}
static Val op_capi_inner(Args &a);
OP(capi)
{
    auto t0 = std::chrono::steady_clock::now();
    try {
        Val r = op_capi_inner(a);
        prof_total += std::chrono::duration<double>(std::chrono::steady_clock::now() - t0).count();
        prof_n++;
        return r;
    } catch (...) {
        prof_total += std::chrono::duration<double>(std::chrono::steady_clock::now() - t0).count();
        prof_n++;
        throw;
    }
}
static Val op_capi_inner(Args &a)
{
    std::shared_ptr<Env> e = argObj<Env>(a, 0, "CapiEnv");
    const std::string &fn = argStr(a, 1);
    auto it = table().find(fn);
    if (it == table().end())
        throw Decline("unknown C function " + fn);
    Step s(*e);
    if (a.size() > 2 && a[2].k == Val::STR) {
        // "i0,i1,..." (one token: much cheaper for the interpreter than a list of integers)
        const std::string &t = a[2].s;
        size_t p = 0;
        while (p < t.size()) {
            size_t q = t.find(',', p);
            if (q == std::string::npos)
                q = t.size();
            std::string tok = t.substr(p, q - p);
            if (tok.empty() || tok.find_first_not_of("-0123456789") != std::string::npos
                || tok.find('-', 1) != std::string::npos || tok == "-")
                throw Decline("sort: want Int list");
            s.iv.push_back(integer_class(tok));
            p = q + 1;
        }
    } else if (a.size() > 2) {
        for (auto &v : argVec(a, 2)) {
            if (v.k != Val::INT)
                throw Decline("sort: want Int");
            s.iv.push_back(integer_class(v.s));
        }
    }
    if (a.size() > 3)
        s.sv = argStr(a, 3);
    if (a.size() > 4)
        s.dv = argDbl(a, 4);
    s.res.put("fn", Val::str(fn));
    auto tb = std::chrono::steady_clock::now();
    g_gamma_tag = e->tags.count("gamma_half_integer_int_overflow") != 0;
    g_gamma_hit = false;
    try {
        it->second(s);
    } catch (Decline &d) {
        prof_bind += std::chrono::duration<double>(std::chrono::steady_clock::now() - tb).count();
        s.cleanup();
        if (g_gamma_hit && std::string(d.what()).compare(0, 8, "resource") == 0)
            throw Decline("known:gamma_half_integer_int_overflow (tighter resource bound)");
        throw;
    } catch (...) {
        prof_bind += std::chrono::duration<double>(std::chrono::steady_clock::now() - tb).count();
        s.cleanup();
        throw;
    }
    prof_bind += std::chrono::duration<double>(std::chrono::steady_clock::now() - tb).count();
    s.cleanup();
    s.res.put("refs", s.refs);
    s.res.put("nh", Val::integer((long)e->h.size()));
    return s.res;
}
