// Area `solve` (C30): entry points of solve.h that the core op table does not bind.
#include "drv.h"
#include <symengine/solve.h>
#include <symengine/matrix.h>

using namespace SymEngine;
using namespace vd;

static vec_sym argSyms(Args &a, size_t i)
{
    vec_sym syms;
    for (auto &x : argVecB(a, i)) {
        if (!is_a_sub<Symbol>(*x))
            throw Decline("sort: want Symbol vec");
        syms.push_back(rcp_static_cast<const Symbol>(x));
    }
    return syms;
}

// (linsolve_aug [[row] ...] [syms]) : linsolve(const DenseMatrix &system, syms), system = [A | b]
OP(linsolve_aug)
{
    std::vector<Val> &rows = argVec(a, 0);
    vec_sym syms = argSyms(a, 1);
    size_t n = rows.size();
    if (n == 0 || n > 16)
        throw Decline("size");
    vec_basic flat;
    for (auto &r : rows) {
        if (r.k != Val::VEC || r.v.size() != n + 1)
            throw Decline("sort: want n x (n+1) matrix");
        for (auto &x : r.v) {
            if (x.k != Val::B)
                throw Decline("sort: want Basic");
            flat.push_back(x.b);
        }
    }
    if (syms.size() != n)
        throw Decline("size: syms");
    DenseMatrix m((unsigned)n, (unsigned)(n + 1), flat);
    return vecB(linsolve(m, syms));
}

// (linear_eqns_to_matrix [eqs] [syms]) -> [[A rows...], [b...]]
OP(linear_eqns_to_matrix)
{
    vec_sym syms = argSyms(a, 1);
    auto p = linear_eqns_to_matrix(argVecB(a, 0), syms);
    Val rows = Val::vec();
    for (unsigned i = 0; i < p.first.nrows(); i++) {
        vec_basic r;
        for (unsigned j = 0; j < p.first.ncols(); j++)
            r.push_back(p.first.get(i, j));
        rows.v.push_back(vecB(r));
    }
    vec_basic b;
    for (unsigned i = 0; i < p.second.nrows(); i++)
        b.push_back(p.second.get(i, 0));
    return Val::vec({rows, vecB(b)});
}

// (solve_poly_heuristics [c0 c1 ...] [domain]) : coefficients low -> high
OP(solve_poly_heuristics)
{
    vec_basic c = argVecB(a, 0);
    if (c.empty() || c.size() > 5)
        throw Decline("degree");
    if (c.size() > 1 && eq(*c.back(), *zero))
        throw Decline("leading coefficient is zero");
    RCP<const Set> dom = a.size() > 1 ? argSet(a, 1) : rcp_static_cast<const Set>(universalset());
    return Val::basic(solve_poly_heuristics(c, dom));
}
