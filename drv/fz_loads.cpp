// C20 libFuzzer target: deserializing untrusted bytes is memory-safe.
//
// Unit layout: byte 0 = mode.
//   mode even (A): the rest of the unit is given to Basic::loads verbatim.
//   mode odd  (B): structure-aware.  The rest is consumed by a FuzzedDataProvider as a small op-program
//       over a register file (constructors of every serialisable class, registers are re-used so the
//       object has shared sub-nodes); the last register is dumped with Basic::dumps and k <= 4
//       generated edits are applied to the bytes: flip a type code, redirect a sharing reference
//       (address field), break the first_seen byte, change a count, corrupt an integer string, truncate,
//       duplicate a chunk, flip a byte; the result goes to Basic::loads.
// Oracle (DESIGN.md C20): loads returns or throws a std::exception.  On return the object is
// printed (str), hashed, compared with itself (eq, __cmp__), free_symbols, dumps -> loads again,
// evalf (exceptions allowed), differentiated by each free symbol, substituted: exceptions are allowed,
// a crash / sanitizer report / abort is the violation.  A returned non-canonical object is not by
// itself a violation.
// Non-trivial (counted by the hash of the bytes given to loads): loads returned an object.
#include "fz_common.h"

#include <symengine/basic.h>
#include <symengine/add.h>
#include <symengine/mul.h>
#include <symengine/pow.h>
#include <symengine/integer.h>
#include <symengine/rational.h>
#include <symengine/complex.h>
#include <symengine/real_double.h>
#include <symengine/complex_double.h>
#include <symengine/symbol.h>
#include <symengine/constants.h>
#include <symengine/functions.h>
#include <symengine/ntheory_funcs.h>
#include <symengine/infinity.h>
#include <symengine/nan.h>
#include <symengine/logic.h>
#include <symengine/sets.h>
#include <symengine/visitor.h>
#include <symengine/eval.h>
#include <symengine/derivative.h>
#include <symengine/subs.h>
#include <symengine/symengine_exception.h>
#include <symengine/series_generic.h>
#include <symengine/fields.h>
#include <symengine/polys/msymenginepoly.h>
#include <symengine/polys/uexprpoly.h>
#include <symengine/polys/uratpoly.h>
#include <symengine/polys/uintpoly.h>
#include <symengine/tuple.h>
#include <symengine/matrix_expressions.h>

#include <fuzzer/FuzzedDataProvider.h>
#include <cmath>
#include <new>

using namespace SymEngine;

// ---- allocation policy ------------------------------------------------------------------------
// A corrupted count makes cereal resize a vector to billions of elements.  The shipped library then
// gets std::bad_alloc / std::length_error (a std::exception = allowed outcome), but ASan's operator new
// aborts the process instead ("allocation-size-too-big").  Replacing the replaceable operators by
// malloc-based ones (ASan still instruments malloc/free: overflow and use-after-free detection is
// unchanged) restores the real behaviour: a request above 256 KiB (units are <= 1 KiB), or a failed malloc, throws
// std::bad_alloc.
static const size_t kMaxNew = (size_t)1 << 18;
static bool g_cap_active = false; // only inside LLVMFuzzerTestOneInput (libFuzzer's own buffers are larger)
static void *checked_alloc(size_t n)
{
    if (g_cap_active && n > kMaxNew)
        throw std::bad_alloc();
    void *p = malloc(n ? n : 1);
    if (!p)
        throw std::bad_alloc();
    return p;
}
void *operator new(size_t n)
{
    return checked_alloc(n);
}
void *operator new[](size_t n)
{
    return checked_alloc(n);
}
void *operator new(size_t n, const std::nothrow_t &) noexcept
{
    return (g_cap_active && n > kMaxNew) ? nullptr : malloc(n ? n : 1);
}
void *operator new[](size_t n, const std::nothrow_t &) noexcept
{
    return (g_cap_active && n > kMaxNew) ? nullptr : malloc(n ? n : 1);
}
void operator delete(void *p) noexcept
{
    free(p);
}
void operator delete[](void *p) noexcept
{
    free(p);
}
void operator delete(void *p, size_t) noexcept
{
    free(p);
}
void operator delete[](void *p, size_t) noexcept
{
    free(p);
}
void operator delete(void *p, const std::nothrow_t &) noexcept
{
    free(p);
}
void operator delete[](void *p, const std::nothrow_t &) noexcept
{
    free(p);
}

namespace
{

typedef RCP<const Basic> B;
typedef B (*F1)(const B &);
typedef B (*F2)(const B &, const B &);

B f_log(const B &a)
{
    return log(a);
}
B f_zeta(const B &a)
{
    return zeta(a);
}
B f_log2(const B &a, const B &b)
{
    return log(a, b);
}
B f_zeta2(const B &a, const B &b)
{
    return zeta(a, b);
}
B f_pow(const B &a, const B &b)
{
    return pow(a, b);
}

// every OneArgFunction class of type_codes.inc (serialize-cereal.h:268 / :712)
const F1 FUN1[] = {sin,      cos,   tan,     cot,      csc,       sec,     asin,    acos,     asec,  acsc,
                   atan,     acot,  sinh,    csch,     cosh,      sech,    tanh,    coth,     asinh, acsch,
                   acosh,    atanh, acoth,   asech,    f_log,     lambertw, f_zeta, dirichlet_eta, erf, erfc,
                   gamma,    loggamma, abs,  sign,     floor,     ceiling, truncate, conjugate, primepi, primorial,
                   unevaluated_expr, sqrt, exp, digamma, neg};
// every TwoArgFunction class (serialize-cereal.h:273 / :722)
const F2 FUN2[] = {atan2, f_zeta2, lowergamma, uppergamma, beta, polygamma, kronecker_delta, f_log2, f_pow, add, mul, sub, div};

const double DBL[] = {0.0, -0.0, 1.0, -1.5, 0.1, 1e308, 5e-324, 2.2250738585072014e-308, __builtin_inf(), -__builtin_inf(),
                      __builtin_nan(""), 3.141592653589793};
const char *NAMES[] = {"x", "y", "z", "", "a b", "\xff\xfe", "x", "f", "pi", "longer_symbol_name_0123456789"};

bool is_bool(const B &b)
{
    return is_a_Boolean(*b);
}

// Resource bounds of the GENERATOR (construct, don't blow up): number of bits of the largest integer in a number
size_t num_bits(const B &b)
{
    if (is_a<Integer>(*b))
        return mpz_sizeinbase(get_mpz_t(down_cast<const Integer &>(*b).as_integer_class()), 2);
    if (is_a<Rational>(*b)) {
        const rational_class &q = down_cast<const Rational &>(*b).as_rational_class();
        return std::max(mpz_sizeinbase(get_mpz_t(get_num(q)), 2), mpz_sizeinbase(get_mpz_t(get_den(q)), 2));
    }
    if (is_a<Complex>(*b)) {
        const Complex &c = down_cast<const Complex &>(*b);
        return std::max(num_bits(c.real_part()), num_bits(c.imaginary_part()));
    }
    return 0;
}
// functions evaluate factorials / sieves / harmonic sums on exact arguments: only small exact numbers (|n| <= 63)
bool small_for_function(const B &b)
{
    return num_bits(b) <= 6;
}
bool small_for_arith(const B &b)
{
    return num_bits(b) <= 4096;
}

bool nonfinite_double_inside(const B &b);
size_t diff_nodes(const B &b);
bool tree_canonical(const B &b, int depth);
void stored_children(const Basic &b, vec_basic &out);
bool too_big(const B &b, size_t cap);

// ---- mode B: program -> object
B build(FuzzedDataProvider &fdp)
{
    std::vector<B> reg = {symbol("x"), symbol("y"), integer(2), Rational::from_two_ints(-1, 2), real_double(0.5), pi, I,
                          function_symbol("f", symbol("x"))};
    auto pick = [&]() -> B { return reg[fdp.ConsumeIntegralInRange<size_t>(0, reg.size() - 1)]; };
    auto pick_bool = [&]() -> RCP<const Boolean> {
        for (int t = 0; t < 4; t++) {
            B b = pick();
            if (is_bool(b))
                return rcp_static_cast<const Boolean>(b);
        }
        return Lt(pick(), pick());
    };
    auto pick_set = [&]() -> RCP<const Set> {
        for (int t = 0; t < 4; t++) {
            B b = pick();
            if (is_a_Set(*b))
                return rcp_static_cast<const Set>(b);
        }
        return interval(integer(0), integer(fdp.ConsumeIntegralInRange<int>(1, 9)), fdp.ConsumeBool(), fdp.ConsumeBool());
    };
    auto pick_num = [&]() -> RCP<const Number> {
        for (int t = 0; t < 4; t++) {
            B b = pick();
            if (is_a_Number(*b))
                return rcp_static_cast<const Number>(b);
        }
        return integer(fdp.ConsumeIntegralInRange<int>(-9, 9));
    };
    size_t steps = fdp.ConsumeIntegralInRange<size_t>(1, 24);
    for (size_t s = 0; s < steps && fdp.remaining_bytes() > 0; s++) {
        unsigned op = fdp.ConsumeIntegralInRange<unsigned>(0, 27);
        B r;
        try {
            switch (op) {
                case 0:
                    r = integer(fdp.ConsumeIntegral<int8_t>());
                    break;
                case 1: {
                    std::string d = fdp.ConsumeBool() ? "-" : "";
                    size_t n = fdp.ConsumeIntegralInRange<size_t>(1, 40);
                    for (size_t i = 0; i < n; i++)
                        d.push_back((char)('0' + fdp.ConsumeIntegralInRange<int>(i == 0 ? 1 : 0, 9)));
                    r = integer(integer_class(d));
                    break;
                }
                case 2:
                    r = Rational::from_two_ints(fdp.ConsumeIntegralInRange<long>(-99, 99), fdp.ConsumeIntegralInRange<long>(1, 99));
                    break;
                case 3:
                    r = fdp.ConsumeBool() ? real_double(DBL[fdp.ConsumeIntegralInRange<size_t>(0, 11)])
                                          : real_double(fdp.ConsumeFloatingPoint<double>());
                    break;
                case 4:
                    r = complex_double(std::complex<double>(DBL[fdp.ConsumeIntegralInRange<size_t>(0, 11)],
                                                            DBL[fdp.ConsumeIntegralInRange<size_t>(0, 11)]));
                    break;
                case 5:
                    r = symbol(NAMES[fdp.ConsumeIntegralInRange<size_t>(0, 9)]);
                    break;
                case 6:
                    r = fdp.ConsumeBool() ? dummy() : dummy(NAMES[fdp.ConsumeIntegralInRange<size_t>(0, 9)]);
                    break;
                case 7: {
                    const B K[] = {pi, E, EulerGamma, Catalan, GoldenRatio, I, Inf, NegInf, ComplexInf, Nan, zero, one, minus_one,
                                   boolTrue, boolFalse, Complex::from_two_nums(*integer(1), *Rational::from_two_ints(2, 3))};
                    r = K[fdp.ConsumeIntegralInRange<size_t>(0, 15)];
                    break;
                }
                case 8:
                case 9: {
                    B a = pick(), b = pick();
                    if (small_for_arith(a) && small_for_arith(b))
                        r = op == 8 ? add(a, b) : mul(a, b);
                    break;
                }
                case 10: {
                    B a = pick(), b = pick();
                    if (num_bits(a) <= 64 && num_bits(b) <= 6)
                        r = pow(a, b);
                    break;
                }
                case 11:
                case 12: {
                    F1 f = FUN1[fdp.ConsumeIntegralInRange<size_t>(0, sizeof(FUN1) / sizeof(FUN1[0]) - 1)];
                    B a = pick();
                    // generator precondition: floor/ceiling/truncate of a non-finite double kill the process (SIGFPE in
                    // mpz_set_d, recorded as KF-C18-03); building the object is not what C20 tests
                    if ((f == (F1)floor || f == (F1)ceiling || f == (F1)truncate || f == (F1)primepi || f == (F1)primorial)
                        && nonfinite_double_inside(a))
                        break;
                    if (small_for_function(a))
                        r = f(a);
                    break;
                }
                case 13: {
                    F2 f = FUN2[fdp.ConsumeIntegralInRange<size_t>(0, sizeof(FUN2) / sizeof(FUN2[0]) - 1)];
                    B a = pick(), b = pick();
                    // generator precondition: beta(1/2, -3/2) calls gamma_positive_int(-1) -> factorial((unsigned long)-2)
                    // (functions.cpp:3344, a library defect outside C20 that ends in a GMP allocation failure)
                    if (f == (F2)beta
                        && ((is_a_Number(*a) && !down_cast<const Number &>(*a).is_positive())
                            || (is_a_Number(*b) && !down_cast<const Number &>(*b).is_positive())))
                        break;
                    if (small_for_function(a) && small_for_function(b))
                        r = f(a, b);
                    break;
                }
                case 14: {
                    vec_basic v;
                    size_t n = fdp.ConsumeIntegralInRange<size_t>(1, 4);
                    for (size_t i = 0; i < n; i++)
                        v.push_back(pick());
                    switch (fdp.ConsumeIntegralInRange<int>(0, 3)) {
                        case 0:
                            r = max(v);
                            break;
                        case 1:
                            r = min(v);
                            break;
                        case 2:
                            r = levi_civita(v);
                            break;
                        default:
                            r = function_symbol(NAMES[fdp.ConsumeIntegralInRange<size_t>(0, 9)], v);
                    }
                    break;
                }
                case 15: {
                    B a = pick(), b = pick();
                    switch (fdp.ConsumeIntegralInRange<int>(0, 5)) {
                        case 0:
                            r = Eq(a, b);
                            break;
                        case 1:
                            r = Ne(a, b);
                            break;
                        case 2:
                            r = Lt(a, b);
                            break;
                        case 3:
                            r = Le(a, b);
                            break;
                        case 4:
                            r = Gt(a, b);
                            break;
                        default:
                            r = Ge(a, b);
                    }
                    break;
                }
                case 16: {
                    set_boolean sb;
                    vec_boolean vb;
                    size_t n = fdp.ConsumeIntegralInRange<size_t>(1, 3);
                    for (size_t i = 0; i < n; i++) {
                        RCP<const Boolean> b = pick_bool();
                        sb.insert(b);
                        vb.push_back(b);
                    }
                    switch (fdp.ConsumeIntegralInRange<int>(0, 3)) {
                        case 0:
                            r = logical_and(sb);
                            break;
                        case 1:
                            r = logical_or(sb);
                            break;
                        case 2:
                            r = logical_xor(vb);
                            break;
                        default:
                            r = logical_not(vb[0]);
                    }
                    break;
                }
                case 17:
                    r = contains(pick(), pick_set());
                    break;
                case 18: {
                    PiecewiseVec v;
                    size_t n = fdp.ConsumeIntegralInRange<size_t>(1, 3);
                    for (size_t i = 0; i < n; i++)
                        v.push_back({pick(), pick_bool()});
                    if (fdp.ConsumeBool())
                        v.push_back({pick(), boolTrue});
                    r = piecewise(v);
                    break;
                }
                case 19:
                    r = interval(pick_num(), pick_num(), fdp.ConsumeBool(), fdp.ConsumeBool());
                    break;
                case 20: {
                    set_basic sb;
                    size_t n = fdp.ConsumeIntegralInRange<size_t>(1, 4);
                    for (size_t i = 0; i < n; i++)
                        sb.insert(pick());
                    r = finiteset(sb);
                    break;
                }
                case 21: {
                    RCP<const Set> a = pick_set(), b = pick_set();
                    // generator precondition: set_complement of two ImageSets recurses forever in the library
                    // (ImageSet::set_complement, sets.cpp:1687; reported separately, not a property of loads)
                    if (is_a<ImageSet>(*a) || is_a<ImageSet>(*b))
                        break;
                    switch (fdp.ConsumeIntegralInRange<int>(0, 2)) {
                        case 0:
                            r = set_union({a, b});
                            break;
                        case 1:
                            r = set_complement(a, b);
                            break;
                        default:
                            r = set_intersection({a, b});
                    }
                    break;
                }
                case 22:
                    r = imageset(symbol("x"), pick(), pick_set());
                    break;
                case 23:
                    r = conditionset(symbol("x"), pick_bool());
                    break;
                case 24: {
                    const B K[] = {reals(), rationals(), integers(), emptyset(), universalset()};
                    r = K[fdp.ConsumeIntegralInRange<size_t>(0, 4)];
                    break;
                }
                case 25: { // Derivative / Subs through differentiation of an undefined function (first order only:
                           // derivatives of Subs/Derivative towers take minutes in DiffVisitor::bvisit(Subs))
                    B a = pick(), b = pick();
                    if (diff_nodes(a) + diff_nodes(b) == 0)
                        r = function_symbol("g", {a, b})->diff(symbol(fdp.ConsumeBool() ? "x" : "y"));
                    break;
                }
                case 26: {
                    multiset_basic ms;
                    ms.insert(symbol("x"));
                    if (fdp.ConsumeBool())
                        ms.insert(symbol("y"));
                    r = Derivative::create(function_symbol("h", {symbol("x"), symbol("y")}), ms);
                    break;
                }
                default: {
                    map_basic_basic m;
                    m[symbol("x")] = pick();
                    r = Subs::create(Derivative::create(function_symbol("h", symbol("x")), {symbol("x")}), m);
                }
            }
        } catch (std::exception &) {
            continue;
        }
        if (!r.is_null() && !too_big(r, 2000)) // keep every register small as a tree: later steps walk it
            reg.push_back(r);
    }
    return reg.back();
}

// ---- mode B: edits of a valid dump
bool addr_field(const std::string &s, size_t i)
{
    // 8-byte little-endian heap address (ASan heap: 0x60.._0000_0000 - 0x63..) followed by first_seen
    return i + 9 <= s.size() && (unsigned char)s[i + 7] == 0 && (unsigned char)s[i + 6] == 0
           && ((unsigned char)s[i + 5] & 0xf0) == 0x60 && ((unsigned char)s[i + 8] <= 1);
}
bool count_field(const std::string &s, size_t i)
{
    if (i + 8 > s.size())
        return false;
    for (size_t k = 1; k < 8; k++)
        if (s[i + k] != 0)
            return false;
    return (unsigned char)s[i] < 64;
}

// edits are driven by a splitmix64 stream seeded from 8 unit bytes (the FuzzedDataProvider is usually exhausted
// by the op-program, which would make every edit parameter its minimum)
struct Rng {
    uint64_t x;
    uint64_t next()
    {
        uint64_t z = (x += 0x9e3779b97f4a7c15ull);
        z = (z ^ (z >> 30)) * 0xbf58476d1ce4e5b9ull;
        z = (z ^ (z >> 27)) * 0x94d049bb133111ebull;
        return z ^ (z >> 31);
    }
    template <class T>
    T ConsumeIntegralInRange(T lo, T hi)
    {
        return (T)(lo + (T)(next() % ((uint64_t)(hi - lo) + 1)));
    }
    template <class T>
    T ConsumeIntegral()
    {
        return (T)next();
    }
    bool ConsumeBool()
    {
        return next() & 1;
    }
};

void edit(std::string &s, Rng &fdp, fz::Stats &st)
{
    if (s.size() < 8)
        return;
    std::vector<size_t> addrs, counts, ints;
    for (size_t i = 5; i + 9 <= s.size(); i++)
        if (addr_field(s, i))
            addrs.push_back(i);
    for (size_t i = 5; i + 8 <= s.size(); i++)
        if (count_field(s, i))
            counts.push_back(i);
    for (size_t p : addrs) // Integer: first_seen 1, type code 0, string
        if (s[p + 8] == 1 && p + 18 <= s.size() && s[p + 9] == (char)SYMENGINE_INTEGER && count_field(s, p + 10)
            && (unsigned char)s[p + 10] > 0 && p + 18 + (unsigned char)s[p + 10] <= s.size())
            ints.push_back(p + 10);
    unsigned kind = fdp.ConsumeIntegralInRange<unsigned>(0, 10);
    if (kind > 8)
        kind = 1; // sharing references are the format's own invention: edit them three times as often
    switch (kind) {
        case 0: // flip a type code
            if (!addrs.empty()) {
                size_t p = addrs[fdp.ConsumeIntegralInRange<size_t>(0, addrs.size() - 1)];
                if (s[p + 8] == 1 && p + 9 < s.size()) {
                    // any class, the first codes past the table, or a byte that is not even a TypeID enumerator
                    s[p + 9] = (char)(fdp.ConsumeIntegralInRange<int>(0, 3) == 0 ? fdp.ConsumeIntegralInRange<unsigned>(TypeID_Count, 255)
                                                                                  : fdp.ConsumeIntegralInRange<unsigned>(0, TypeID_Count + 2));
                    st.count("edit_typecode");
                }
            }
            break;
        case 1: // redirect a sharing reference: field p becomes a reference to an object DEFINED earlier in the stream
            if (addrs.size() >= 2) {
                size_t ip = fdp.ConsumeIntegralInRange<size_t>(1, addrs.size() - 1);
                size_t p = addrs[ip];
                std::vector<size_t> defs;
                for (size_t k = 0; k < ip; k++)
                    if (s[addrs[k] + 8] == 1)
                        defs.push_back(addrs[k]);
                if (!defs.empty()) {
                    size_t q = defs[fdp.ConsumeIntegralInRange<size_t>(0, defs.size() - 1)];
                    std::string a = s.substr(q, 8);
                    s.replace(p, 8, a);
                    if (s[p + 8] == 1 && fdp.ConsumeIntegralInRange<int>(0, 3) != 0) {
                        // turn the definition into a pure reference; in half of the cases its old head (type code) is
                        // removed too so that what follows is less likely to be garbage
                        s[p + 8] = 0;
                        if (fdp.ConsumeBool() && p + 10 <= s.size())
                            s.erase(p + 9, 1);
                    }
                    st.count("edit_reference");
                }
            }
            break;
        case 2: // first_seen byte
            if (!addrs.empty()) {
                size_t p = addrs[fdp.ConsumeIntegralInRange<size_t>(0, addrs.size() - 1)];
                s[p + 8] = (char)fdp.ConsumeIntegral<uint8_t>();
                st.count("edit_first_seen");
            }
            break;
        case 3: // a count
            if (!counts.empty()) {
                size_t p = counts[fdp.ConsumeIntegralInRange<size_t>(0, counts.size() - 1)];
                static const uint64_t V[] = {0, 1, 2, 3, 7, 255, 65536, 0xffffffffull, 0x100000000ull, 0x7fffffffffffffffull,
                                             0xffffffffffffffffull, 0x0fffffffffffffffull, 1ull << 28};
                uint64_t v = fdp.ConsumeBool() ? V[fdp.ConsumeIntegralInRange<size_t>(0, 12)]
                                               : (uint64_t)(unsigned char)s[p] + (fdp.ConsumeBool() ? 1 : -1);
                memcpy(&s[p], &v, 8);
                st.count("edit_count");
            }
            break;
        case 4: // an integer string
            if (!ints.empty()) {
                size_t p = ints[fdp.ConsumeIntegralInRange<size_t>(0, ints.size() - 1)];
                size_t n = (unsigned char)s[p];
                size_t c = p + 8 + fdp.ConsumeIntegralInRange<size_t>(0, n - 1);
                static const char BAD[] = {'-', '+', ' ', 'x', 'e', '.', '/', 0, (char)0xff, 'A', ':'};
                switch (fdp.ConsumeIntegralInRange<int>(0, 3)) {
                    case 0:
                        s[c] = BAD[fdp.ConsumeIntegralInRange<size_t>(0, 10)];
                        break;
                    case 1:
                        s[p + 8] = '-';
                        break;
                    case 2:
                        s[p] = 0; // empty string, digits stay in the stream
                        break;
                    default:
                        s[p + 8 + n - 1] = BAD[fdp.ConsumeIntegralInRange<size_t>(0, 10)];
                }
                st.count("edit_integer");
            }
            break;
        case 5: // truncate
            s.resize(fdp.ConsumeIntegralInRange<size_t>(0, s.size() - 1));
            st.count("edit_truncate");
            break;
        case 6: { // duplicate a chunk
            size_t a = fdp.ConsumeIntegralInRange<size_t>(0, s.size() - 1);
            size_t n = fdp.ConsumeIntegralInRange<size_t>(1, std::min<size_t>(64, s.size() - a));
            size_t at = fdp.ConsumeIntegralInRange<size_t>(0, s.size());
            s.insert(at, s.substr(a, n));
            st.count("edit_duplicate");
            break;
        }
        case 7: { // flip a byte
            size_t a = fdp.ConsumeIntegralInRange<size_t>(0, s.size() - 1);
            s[a] = (char)fdp.ConsumeIntegral<uint8_t>();
            st.count("edit_byte");
            break;
        }
        default: // swap two address fields' type codes / bodies: exchange 10-byte heads
            if (addrs.size() >= 2) {
                size_t p = addrs[fdp.ConsumeIntegralInRange<size_t>(0, addrs.size() - 1)];
                size_t q = addrs[fdp.ConsumeIntegralInRange<size_t>(0, addrs.size() - 1)];
                if (p + 10 <= s.size() && q + 10 <= s.size() && p != q) {
                    char t = s[p + 9];
                    s[p + 9] = s[q + 9];
                    s[q + 9] = t;
                    st.count("edit_swap_typecodes");
                }
            }
    }
}

bool nonfinite_double_inside(const B &b)
{
    if (is_a<RealDouble>(*b))
        return !std::isfinite(down_cast<const RealDouble &>(*b).i);
    if (is_a<ComplexDouble>(*b)) {
        std::complex<double> c = down_cast<const ComplexDouble &>(*b).i;
        return !std::isfinite(c.real()) || !std::isfinite(c.imag());
    }
    for (auto &a : b->get_args())
        if (nonfinite_double_inside(a))
            return true;
    return false;
}
size_t diff_nodes(const B &b)
{
    size_t n = (is_a<Derivative>(*b) || is_a<Subs>(*b)) ? 1 : 0;
    for (auto &a : b->get_args()) {
        n += diff_nodes(a);
        if (n > 8)
            break;
    }
    return n;
}
bool has_rounding_node(const B &b)
{
    if (is_a<Floor>(*b) || is_a<Ceiling>(*b) || is_a<Truncate>(*b) || is_a<PrimePi>(*b) || is_a<Primorial>(*b))
        return true;
    for (auto &a : b->get_args())
        if (has_rounding_node(a))
            return true;
    return false;
}

// Size of the object seen as a TREE (shared nodes counted at every reference), capped.  Sharing makes a DAG of n nodes
// stand for a tree of up to 2^n nodes; printing, diff and subs walk the tree, so their cost is not bounded by the input
// size ("billion laughs").  That is slowness, not a failure: such objects are counted and left alone.
size_t tree_size(const B &b, std::map<const Basic *, size_t> &memo, size_t cap)
{
    auto it = memo.find(b.get());
    if (it != memo.end())
        return it->second;
    size_t n = 1;
    vec_basic ch;
    stored_children(*b, ch);
    for (auto &c : ch) {
        n += tree_size(c, memo, cap);
        if (n > cap) {
            n = cap + 1;
            break;
        }
    }
    memo[b.get()] = n;
    return n;
}
bool too_big(const B &b, size_t cap)
{
    std::map<const Basic *, size_t> memo;
    return tree_size(b, memo, cap) > cap;
}

// ---- post-load operations: none may crash
void exercise(const B &b, fz::Stats &st)
{
    if (too_big(b, 4000)) {
        st.exclude("loaded_tree_above_4000_nodes");
        return;
    }
    // KF-C20-01 (same root cause as KF-C18-03): re-evaluating Floor/Ceiling/Truncate of a non-finite double gives it to
    // mpz_set_d (SIGFPE).  Excluded by construction while the finding is open.
    if (st.tag("floor_nonfinite_double") && has_rounding_node(b) && nonfinite_double_inside(b)) {
        st.exclude("floor_nonfinite_double");
        return;
    }
    if (st.tag("loads_noncanonical_object") && !tree_canonical(b, 0)) {
        st.exclude("loads_noncanonical_object");
        return;
    }
    std::string text;
    try {
        text = b->__str__();
    } catch (std::exception &) {
        st.count("post_str_throws");
    }
    try {
        (void)b->hash();
        if (!eq(*b, *b) && text.find("nan") == std::string::npos)
            st.count("post_not_eq_self");
        if (b->__cmp__(*b) != 0)
            st.count("post_cmp_self_nonzero");
        (void)b->get_args();
    } catch (std::exception &) {
        st.count("post_hash_eq_throws");
    }
    set_basic syms;
    try {
        syms = free_symbols(*b);
    } catch (std::exception &) {
        st.count("post_free_symbols_throws");
    }
    try {
        std::string d = b->dumps();
        try {
            B again = Basic::loads(d);
            if (!eq(*again, *b))
                st.count("post_reload_not_eq");
        } catch (std::exception &) {
            st.count("post_reload_throws");
        }
    } catch (std::exception &) {
        st.count("post_dumps_throws");
    }
    try {
        B v = evalf(*b, 53, EvalfDomain::Symbolic);
        (void)v->__str__();
    } catch (std::exception &) {
        st.count("post_evalf_throws");
    }
    int k = 0;
    for (auto &s : syms) {
        if (k++ >= 3)
            break;
        if (is_a_sub<Symbol>(*s) && diff_nodes(b) <= 2) {
            try {
                B d = b->diff(rcp_static_cast<const Symbol>(s));
                (void)d->__str__();
            } catch (std::exception &) {
                st.count("post_diff_throws");
            }
        }
        try {
            map_basic_basic m;
            m[s] = integer(2);
            B r = b->subs(m);
            (void)r->__str__();
            m[s] = add(symbol("w"), real_double(0.5));
            r = b->subs(m);
            (void)r->hash();
        } catch (std::exception &) {
            st.count("post_subs_throws");
        }
    }
    if (syms.empty()) {
        try {
            map_basic_basic m;
            m[integer(2)] = symbol("w");
            (void)b->subs(m)->__str__();
        } catch (std::exception &) {
            st.count("post_subs_throws");
        }
    }
}

// ---- KF-C20-02 exclusion: canonical-form walker ---------------------------------------------------
// The load_basic overloads build most classes with make_rcp directly, without checking the class invariant
// (is_canonical); later operations assume it (e.g. DiffVisitor::bvisit(Derivative) rcp_static_casts the variables to
// Symbol).  While that finding is open (tag loads_noncanonical_object) a loaded object that has a node violating its
// class's own is_canonical() predicate is only printed/hashed, the evaluating operations are excluded by construction.
// Children are read through the stored fields (no construction), bottom-up, so that a predicate only ever sees
// canonical operands.
void stored_children(const Basic &b, vec_basic &out)
{
    switch (b.get_type_code()) {
        case SYMENGINE_ADD: {
            const Add &x = down_cast<const Add &>(b);
            out.push_back(x.get_coef());
            for (auto &p : x.get_dict()) {
                out.push_back(p.first);
                out.push_back(p.second);
            }
            return;
        }
        case SYMENGINE_MUL: {
            const Mul &x = down_cast<const Mul &>(b);
            out.push_back(x.get_coef());
            for (auto &p : x.get_dict()) {
                out.push_back(p.first);
                out.push_back(p.second);
            }
            return;
        }
        case SYMENGINE_POW: {
            const Pow &x = down_cast<const Pow &>(b);
            out.push_back(x.get_base());
            out.push_back(x.get_exp());
            return;
        }
        case SYMENGINE_RATIONAL: {
            const Rational &x = down_cast<const Rational &>(b);
            out.push_back(x.get_num()); // temporaries
            out.push_back(x.get_den());
            return;
        }
        case SYMENGINE_COMPLEX:
        case SYMENGINE_COMPLEX_DOUBLE: {
            const ComplexBase &x = down_cast<const ComplexBase &>(b);
            out.push_back(x.real_part()); // temporaries
            out.push_back(x.imaginary_part());
            return;
        }
        case SYMENGINE_INFTY:
            out.push_back(down_cast<const Infty &>(b).get_direction());
            return;
        case SYMENGINE_INTERVAL: {
            const Interval &x = down_cast<const Interval &>(b);
            out.push_back(x.get_start());
            out.push_back(x.get_end());
            return;
        }
        case SYMENGINE_PIECEWISE:
            for (auto &p : down_cast<const Piecewise &>(b).get_vec()) {
                out.push_back(p.first);
                out.push_back(p.second);
            }
            return;
        case SYMENGINE_DERIVATIVE: {
            const Derivative &x = down_cast<const Derivative &>(b);
            out.push_back(x.get_arg());
            for (auto &s : x.get_symbols())
                out.push_back(s);
            return;
        }
        case SYMENGINE_SUBS: {
            const Subs &x = down_cast<const Subs &>(b);
            out.push_back(x.get_arg());
            for (auto &p : x.get_dict()) {
                out.push_back(p.first);
                out.push_back(p.second);
            }
            return;
        }
        case SYMENGINE_AND:
            for (auto &p : down_cast<const And &>(b).get_container())
                out.push_back(p);
            return;
        case SYMENGINE_OR:
            for (auto &p : down_cast<const Or &>(b).get_container())
                out.push_back(p);
            return;
        case SYMENGINE_XOR:
            for (auto &p : down_cast<const Xor &>(b).get_container())
                out.push_back(p);
            return;
        case SYMENGINE_NOT:
            out.push_back(down_cast<const Not &>(b).get_arg());
            return;
        case SYMENGINE_CONTAINS: {
            const Contains &x = down_cast<const Contains &>(b);
            out.push_back(x.get_expr());
            out.push_back(x.get_set());
            return;
        }
        case SYMENGINE_FINITESET:
            for (auto &p : down_cast<const FiniteSet &>(b).get_container())
                out.push_back(p);
            return;
        case SYMENGINE_UNION:
            for (auto &p : down_cast<const Union &>(b).get_container())
                out.push_back(p);
            return;
        case SYMENGINE_COMPLEMENT: {
            const Complement &x = down_cast<const Complement &>(b);
            out.push_back(x.get_universe());
            out.push_back(x.get_container());
            return;
        }
        case SYMENGINE_IMAGESET: {
            const ImageSet &x = down_cast<const ImageSet &>(b);
            out.push_back(x.get_symbol());
            out.push_back(x.get_expr());
            out.push_back(x.get_baseset());
            return;
        }
        case SYMENGINE_CONDITIONSET: {
            const ConditionSet &x = down_cast<const ConditionSet &>(b);
            out.push_back(x.get_symbol());
            out.push_back(x.get_condition());
            return;
        }
        default:
            break;
    }
    if (is_a_sub<OneArgFunction>(b)) {
        out.push_back(down_cast<const OneArgFunction &>(b).get_arg());
        return;
    }
    if (is_a_sub<TwoArgFunction>(b)) {
        const TwoArgFunction &x = down_cast<const TwoArgFunction &>(b);
        out.push_back(x.get_arg1());
        out.push_back(x.get_arg2());
        return;
    }
    if (is_a_Relational(b)) {
        const Relational &x = down_cast<const Relational &>(b);
        out.push_back(x.get_arg1());
        out.push_back(x.get_arg2());
        return;
    }
    if (is_a_sub<MultiArgFunction>(b)) {
        for (auto &p : down_cast<const MultiArgFunction &>(b).get_args())
            out.push_back(p);
        return;
    }
    // atoms and classes without stored children (or unsupported ones): nothing
}


struct P0 {
};
struct P1 : P0 {
};
struct P2 : P1 {
};
struct P3 : P2 {
};
struct P4 : P3 {
};
struct P5 : P4 {
};
struct P6 : P5 {
};
struct P7 : P6 {
};
template <class T>
auto canon_(T &x, P7) -> decltype(x.is_canonical(x.get_coef(), x.get_dict()))
{
    return x.is_canonical(x.get_coef(), x.get_dict()); // Add, Mul
}
template <class T>
auto canon_(T &x, P6) -> decltype(x.is_canonical(*x.get_base(), *x.get_exp()))
{
    return x.is_canonical(*x.get_base(), *x.get_exp()); // Pow
}
template <class T>
auto canon_(T &x, P5) -> decltype(x.is_canonical(x.get_arg(), x.get_symbols()))
{
    return x.is_canonical(x.get_arg(), x.get_symbols()); // Derivative
}
template <class T>
auto canon_(T &x, P4) -> decltype(x.is_canonical(x.get_arg(), x.get_dict()))
{
    return x.is_canonical(x.get_arg(), x.get_dict()); // Subs
}
template <class T>
auto canon_(T &x, P3) -> decltype(x.is_canonical(x.get_arg1(), x.get_arg2()))
{
    return x.is_canonical(x.get_arg1(), x.get_arg2()); // TwoArgFunction, Relational
}
template <class T>
auto canon_(T &x, P2) -> decltype(x.is_canonical(x.get_arg()))
{
    return x.is_canonical(x.get_arg()); // OneArgFunction, Not
}
template <class T>
auto canon_(T &x, P1) -> decltype(x.is_canonical(x.get_args()))
{
    return x.is_canonical(x.get_args()); // MultiArgFunction
}
template <class T>
bool canon_(T &, P0)
{
    return true;
}

bool node_canonical(const Basic &b)
{
    switch (b.get_type_code()) {
        case SYMENGINE_PIECEWISE: {
            Piecewise &x = const_cast<Piecewise &>(down_cast<const Piecewise &>(b));
            return !x.get_vec().empty() && x.is_canonical(x.get_vec());
        }
        case SYMENGINE_AND: {
            And &x = const_cast<And &>(down_cast<const And &>(b));
            return x.is_canonical(x.get_container());
        }
        case SYMENGINE_OR: {
            Or &x = const_cast<Or &>(down_cast<const Or &>(b));
            return x.is_canonical(x.get_container());
        }
        case SYMENGINE_XOR: {
            Xor &x = const_cast<Xor &>(down_cast<const Xor &>(b));
            return x.is_canonical(x.get_container());
        }
        case SYMENGINE_INFTY: {
            const Infty &x = down_cast<const Infty &>(b);
            return x.is_canonical(x.get_direction());
        }
        case SYMENGINE_FINITESET:
            return FiniteSet::is_canonical(down_cast<const FiniteSet &>(b).get_container());
        case SYMENGINE_INTERVAL: {
            const Interval &x = down_cast<const Interval &>(b);
            return Interval::is_canonical(x.get_start(), x.get_end(), x.get_left_open(), x.get_right_open());
        }
        case SYMENGINE_UNION:
            return Union::is_canonical(down_cast<const Union &>(b).get_container());
        case SYMENGINE_IMAGESET: {
            const ImageSet &x = down_cast<const ImageSet &>(b);
            return ImageSet::is_canonical(x.get_symbol(), x.get_expr(), x.get_baseset());
        }
        case SYMENGINE_CONDITIONSET: {
            const ConditionSet &x = down_cast<const ConditionSet &>(b);
            return ConditionSet::is_canonical(x.get_symbol(), x.get_condition());
        }
        default:
            break;
    }
    switch (b.get_type_code()) {
#define SYMENGINE_ENUM(type, Class)                                                                                        \
    case type:                                                                                                         \
        return canon_(const_cast<Class &>(static_cast<const Class &>(b)), P7());
#include "symengine/type_codes.inc"
#undef SYMENGINE_ENUM
        default:
            return true;
    }
}

bool tree_canonical(const B &b, int depth)
{
    if (depth > 400)
        return false;
    vec_basic ch;
    stored_children(*b, ch);
    for (auto &c : ch)
        if (!tree_canonical(c, depth + 1))
            return false;
    try {
        return node_canonical(*b);
    } catch (std::exception &) {
        return false;
    }
}

// ---- KF-C20-01 pre-filter ----------------------------------------------------------------------
// load_basic(BooleanAtom) / load_basic(Interval) read a stored byte straight into a `bool`; a byte other than 0/1 is
// undefined behaviour (UBSan: load of invalid value).  While that finding is open (tag load_bool_invalid_byte), inputs in
// which such a byte is -- or cannot be shown not to be -- different from 0/1 are excluded by construction: every offset
// where the two bytes (first_seen = 1, type code BooleanAtom | Interval) occur is treated as a possible header.
// skip_number walks one serialized Number (addr, first_seen, [type code, body]) and returns the offset after it, or
// npos when it cannot tell.
const size_t NPOS = std::string::npos;
size_t skip_number(const std::string &s, size_t p, int depth)
{
    if (depth > 6 || p + 9 > s.size())
        return NPOS;
    unsigned char fs = (unsigned char)s[p + 8];
    if (fs == 0)
        return p + 9; // a reference
    if (fs != 1 || p + 10 > s.size())
        return NPOS;
    unsigned code = (unsigned char)s[p + 9];
    p += 10;
    switch (code) {
        case SYMENGINE_INTEGER: {
            if (p + 8 > s.size())
                return NPOS;
            uint64_t n;
            memcpy(&n, s.data() + p, 8);
            if (n > s.size())
                return NPOS;
            return p + 8 + (size_t)n;
        }
        case SYMENGINE_REAL_DOUBLE:
            return p + 8;
        case SYMENGINE_NOT_A_NUMBER:
            return p;
        case SYMENGINE_INFTY:
            return skip_number(s, p, depth + 1);
        case SYMENGINE_RATIONAL:
        case SYMENGINE_COMPLEX:
        case SYMENGINE_COMPLEX_DOUBLE: {
            size_t q = skip_number(s, p, depth + 1);
            return q == NPOS ? NPOS : skip_number(s, q, depth + 1);
        }
        default:
            return NPOS;
    }
}
bool maybe_invalid_bool(const std::string &s)
{
    for (size_t i = 0; i + 2 < s.size() + 1; i++) {
        if (s[i] != 1 || i + 1 >= s.size())
            continue;
        unsigned code = (unsigned char)s[i + 1];
        if (code == SYMENGINE_BOOLEAN_ATOM) {
            if (i + 2 < s.size() && (unsigned char)s[i + 2] > 1)
                return true;
        } else if (code == SYMENGINE_INTERVAL) {
            if (i + 2 >= s.size())
                continue; // truncated: the loader throws before reading the flag
            if ((unsigned char)s[i + 2] > 1)
                return true;
            size_t q = skip_number(s, i + 3, 0);
            if (q == NPOS)
                return true; // cannot locate right_open
            if (q < s.size() && (unsigned char)s[q] > 1)
                return true;
        }
    }
    return false;
}

void run_loads(const std::string &bytes, const char *mode, const uint8_t *unit, size_t unit_size)
{
    fz::Stats &st = fz::stats();
    if (const char *dump = getenv("VERIF_FZ_DUMP")) {
        // replay aid: write the mode-A unit equivalent to this (possibly structure-aware) unit, so that a reproducer
        // does not depend on the op-program / edit encoding of this file
        if (FILE *f = fopen(dump, "wb")) {
            fputc(0, f);
            fwrite(bytes.data(), 1, bytes.size(), f);
            fclose(f);
        }
    }
    if (st.tag("load_bool_invalid_byte") && maybe_invalid_bool(bytes)) {
        st.exclude("load_bool_invalid_byte");
        return;
    }
    B b;
    try {
        b = Basic::loads(bytes);
    } catch (SerializationError &) {
        st.count("throws_SerializationError");
        return;
    } catch (SymEngineException &) {
        st.count("throws_SymEngineException");
        return;
    } catch (std::bad_alloc &) {
        st.count("throws_bad_alloc");
        return;
    } catch (std::exception &) {
        st.count("throws_std_exception");
        return;
    }
    if (b.is_null()) {
        st.count("returns_null");
        return;
    }
    std::string cname = std::string(mode) + "_loaded_" + type_code_name(b->get_type_code());
    st.count(cname.c_str());
    uint64_t h = fz::fnv((const uint8_t *)bytes.data(), bytes.size());
    if (st.nontrivial(h))
        st.sample(cname.c_str(), unit, unit_size);
    exercise(b, st);
}

} // namespace

extern "C" int LLVMFuzzerInitialize(int *argc, char ***argv)
{
    fz::stats().init();
    fz::install_gmp_guard();
    atexit(fz::flush_at_exit);
    return 0;
}

struct CapGuard {
    CapGuard()
    {
        g_cap_active = true;
    }
    ~CapGuard()
    {
        g_cap_active = false;
    }
};

extern "C" int LLVMFuzzerTestOneInput(const uint8_t *data, size_t size)
{
    fz::Stats &st = fz::stats();
    st.tick();
    CapGuard cap;
    if (size < 1)
        return 0;
    if ((data[0] & 1) == 0) {
        st.count("unit_raw");
        run_loads(std::string((const char *)data + 1, size - 1), "raw", data, size);
        return 0;
    }
    st.count("unit_structured");
    FuzzedDataProvider fdp(data + 1, size - 1);
    unsigned nedits = fdp.ConsumeIntegralInRange<unsigned>(0, 4);
    Rng rng{fdp.ConsumeIntegral<uint64_t>()};
    B obj;
    try {
        obj = build(fdp);
    } catch (std::exception &) {
        st.count("build_throws");
        return 0;
    }
    if (too_big(obj, 2000)) {
        st.count("build_tree_above_2000_nodes");
        return 0;
    }
    std::string bytes;
    try {
        bytes = obj->dumps();
    } catch (std::exception &) {
        st.count("dumps_throws");
        return 0;
    }
    for (unsigned i = 0; i < nedits; i++)
        edit(bytes, rng, st);
    if (nedits == 0)
        st.count("edit_none");
    run_loads(bytes, "structured", data, size);
    return 0;
}
