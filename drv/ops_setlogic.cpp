// Bulk observations for the set / logic checks (C27, C28): many membership
// probes of one set, many substitutions into one formula, answered as one
// compact string so that one program judges hundreds of points.
#include "drv.h"
#include <symengine/subs.h>

using namespace SymEngine;
using namespace vd;

static char atom_char(const RCP<const Basic> &c)
{
    if (eq(*c, *boolTrue))
        return '1';
    if (eq(*c, *boolFalse))
        return '0';
    return '?';
}

// (contains_vec set [p0 p1 ...]) ->
//   {"r": string with one char per probe: '1' true, '0' false, '?' any non-atomic answer,
//         'x' exception;  "errs": [[index, class, what] ...] (first 8)}
OP(contains_vec)
{
    RCP<const Set> s = argSet(a, 0);
    vec_basic ps = argVecB(a, 1);
    std::string r;
    Val exc = Val::vec();
    for (size_t i = 0; i < ps.size(); i++) {
        try {
            r.push_back(atom_char(s->contains(ps[i])));
        } catch (...) {
            r.push_back('x');
            Val v = classify_exception();
            if (exc.v.size() < 8)
                exc.v.push_back(Val::vec({Val::integer((long)i), Val::str(v.s), Val::str(v.s2)}));
        }
    }
    return Val::map().put("r", Val::str(r)).put("errs", exc);
}

// (subs_truth expr [sym ...] [[v ...] ...]) -> same encoding; one char per assignment.
// expr is substituted with {sym_k: v_k}; '1'/'0' when the result is a BooleanAtom.
OP(subs_truth)
{
    RCP<const Basic> e = argB(a, 0);
    vec_basic syms = argVecB(a, 1);
    std::string r;
    Val exc = Val::vec();
    auto &rows = argVec(a, 2);
    for (size_t i = 0; i < rows.size(); i++) {
        if (rows[i].k != Val::VEC || rows[i].v.size() != syms.size())
            throw Decline("sort: want [[v...]...] matching the symbols");
        map_basic_basic d;
        for (size_t k = 0; k < syms.size(); k++) {
            if (rows[i].v[k].k != Val::B)
                throw Decline("sort: want Basic values");
            d[syms[k]] = rows[i].v[k].b;
        }
        try {
            r.push_back(atom_char(e->subs(d)));
        } catch (...) {
            r.push_back('x');
            Val v = classify_exception();
            if (exc.v.size() < 8)
                exc.v.push_back(Val::vec({Val::integer((long)i), Val::str(v.s), Val::str(v.s2)}));
        }
    }
    return Val::map().put("r", Val::str(r)).put("errs", exc);
}

// (subs_values expr [sym ...] [[v ...] ...]) -> list of dumps (or {"exc":..}) of expr.subs(assignment)
OP(subs_values)
{
    RCP<const Basic> e = argB(a, 0);
    vec_basic syms = argVecB(a, 1);
    Val out = Val::vec();
    auto &rows = argVec(a, 2);
    for (size_t i = 0; i < rows.size(); i++) {
        if (rows[i].k != Val::VEC || rows[i].v.size() != syms.size())
            throw Decline("sort: want [[v...]...] matching the symbols");
        map_basic_basic d;
        for (size_t k = 0; k < syms.size(); k++) {
            if (rows[i].v[k].k != Val::B)
                throw Decline("sort: want Basic values");
            d[syms[k]] = rows[i].v[k].b;
        }
        try {
            out.v.push_back(Val::basic(e->subs(d)));
        } catch (...) {
            out.v.push_back(classify_exception());
        }
    }
    return out;
}
