// Shared op interpreter (DESIGN.md 2.1/2.2, Appendix B).
// One register machine whose instructions are public SymEngine API calls.
#ifndef VERIF_DRV_H
#define VERIF_DRV_H

#include <symengine/basic.h>
#include <symengine/add.h>
#include <symengine/mul.h>
#include <symengine/pow.h>
#include <symengine/integer.h>
#include <symengine/rational.h>
#include <symengine/complex.h>
#include <symengine/real_double.h>
#include <symengine/complex_double.h>
#include <symengine/symbol.h>
#include <symengine/constants.h>
#include <symengine/functions.h>
#include <symengine/infinity.h>
#include <symengine/nan.h>
#include <symengine/logic.h>
#include <symengine/sets.h>
#include <symengine/visitor.h>
#include <symengine/symengine_exception.h>

#include <functional>
#include <map>
#include <memory>
#include <string>
#include <vector>

namespace vd
{
using SymEngine::Basic;
using SymEngine::RCP;
using SymEngine::integer_class;

// an instruction declined (wrong sort, unsupported in this build, precondition
// of the op table not met).  Never a violation.
struct Decline : public std::runtime_error {
    explicit Decline(const std::string &s) : std::runtime_error(s) {}
};

struct Val;
typedef std::vector<Val> Args;

struct Val {
    enum K { NIL, ERR, B, INT, STR, DBL, BOOL, VEC, MAP, OBJ } k = NIL;
    RCP<const Basic> b;
    std::string s;  // STR payload, INT decimal text, ERR class, OBJ tag
    std::string s2; // ERR what
    double d = 0;
    bool t = false;
    std::vector<Val> v;                // VEC items, MAP values
    std::vector<std::string> keys;     // MAP keys
    std::shared_ptr<void> obj;         // OBJ payload

    static Val nil() { return Val(); }
    static Val basic(const RCP<const Basic> &x)
    {
        Val r;
        r.k = B;
        r.b = x;
        return r;
    }
    static Val integer(const integer_class &i);
    static Val integer(long i)
    {
        Val r;
        r.k = INT;
        r.s = std::to_string(i);
        return r;
    }
    static Val uinteger(unsigned long i)
    {
        Val r;
        r.k = INT;
        r.s = std::to_string(i);
        return r;
    }
    static Val str(const std::string &x)
    {
        Val r;
        r.k = STR;
        r.s = x;
        return r;
    }
    static Val dbl(double x)
    {
        Val r;
        r.k = DBL;
        r.d = x;
        return r;
    }
    static Val boolean(bool x)
    {
        Val r;
        r.k = BOOL;
        r.t = x;
        return r;
    }
    static Val vec(std::vector<Val> x = {})
    {
        Val r;
        r.k = VEC;
        r.v = std::move(x);
        return r;
    }
    static Val map()
    {
        Val r;
        r.k = MAP;
        return r;
    }
    Val &put(const std::string &key, Val x)
    {
        keys.push_back(key);
        v.push_back(std::move(x));
        return *this;
    }
    template <class T>
    static Val object(const std::string &tag, std::shared_ptr<T> p)
    {
        Val r;
        r.k = OBJ;
        r.s = tag;
        r.obj = std::static_pointer_cast<void>(p);
        return r;
    }
    static Val err(const std::string &cls, const std::string &what)
    {
        Val r;
        r.k = ERR;
        r.s = cls;
        r.s2 = what;
        return r;
    }
};

typedef std::function<Val(Args &)> OpFn;
std::map<std::string, OpFn> &optable();
struct Reg {
    Reg(const char *name, OpFn f) { optable()[name] = f; }
};
#define OP(name)                                                               \
    static vd::Val op_##name(vd::Args &a);                                     \
    static vd::Reg reg_##name(#name, op_##name);                               \
    static vd::Val op_##name(vd::Args &a)

// argument accessors (throw Decline on sort mismatch)
void need(Args &a, size_t n);
RCP<const Basic> argB(Args &a, size_t i);
RCP<const SymEngine::Number> argNum(Args &a, size_t i);
RCP<const SymEngine::Symbol> argSym(Args &a, size_t i);
RCP<const SymEngine::Boolean> argBool(Args &a, size_t i);
RCP<const SymEngine::Set> argSet(Args &a, size_t i);
integer_class argInt(Args &a, size_t i);
long argLong(Args &a, size_t i);
double argDbl(Args &a, size_t i);
bool argFlag(Args &a, size_t i);
const std::string &argStr(Args &a, size_t i);
SymEngine::vec_basic argVecB(Args &a, size_t i);
std::vector<Val> &argVec(Args &a, size_t i);
template <class T>
std::shared_ptr<T> argObj(Args &a, size_t i, const char *tag)
{
    if (i >= a.size() || a[i].k != Val::OBJ || a[i].s != tag)
        throw Decline(std::string("sort: want ") + tag);
    return std::static_pointer_cast<T>(a[i].obj);
}
Val vecB(const SymEngine::vec_basic &v);
Val setB(const SymEngine::set_basic &v);
Val tri(SymEngine::tribool t);

// raw dump (DESIGN.md 2.2)
void dump(const Basic &b, std::string &out);
std::string dump(const Basic &b);
void json_str(const std::string &s, std::string &out);
std::string hexfloat(double d);
double parse_hexfloat(const std::string &s);
void val_json(const Val &v, std::string &out);

// program execution.  One request line -> one response line.
std::string run_program(const std::string &line);
// execution of an already decoded statement list is in sexp.cpp
void reset_global_state();
Val classify_exception();

} // namespace vd
#endif
