// Printers, parsers, serialization
#include "drv.h"
#include <symengine/printers.h>
#include <symengine/printers/codegen.h>
#include <symengine/parser.h>
#include <symengine/parser/parser.h>
#include <symengine/parser/sbml/sbml_parser.h>

using namespace SymEngine;
using namespace vd;

#define PRN(name, fn)                                                          \
    OP(name)                                                                   \
    {                                                                          \
        return Val::str(fn(*argB(a, 0)));                                      \
    }
PRN(str2, SymEngine::str)
PRN(unicode, unicode)
PRN(julia_str, julia_str)
PRN(sbml, sbml)
PRN(mathml, mathml)
PRN(latex, latex)
// c89code()/c99code() are declared in printers.h but defined `inline` in
// codegen.cpp (not linkable); the printer classes they wrap are used directly.
OP(c89code)
{
    C89CodePrinter p;
    return Val::str(p.apply(*argB(a, 0)));
}
OP(c99code)
{
    C99CodePrinter p;
    return Val::str(p.apply(*argB(a, 0)));
}
PRN(jscode, jscode)
OP(ccode)
{
    const std::string &p = a.size() > 1 ? argStr(a, 1) : std::string("double");
    CodePrinterPrecision pr = p == "float" ? CodePrinterPrecision::Float
                                           : p == "half" ? CodePrinterPrecision::Half
                                                         : CodePrinterPrecision::Double;
    return Val::str(ccode(*argB(a, 0), pr));
}
OP(parse)
{
    bool cx = a.size() > 1 ? argFlag(a, 1) : true;
    return Val::basic(parse(argStr(a, 0), cx));
}
OP(parse_sbml)
{
    return Val::basic(parse_sbml(argStr(a, 0)));
}
OP(parser_new)
{
    return Val::object("Parser", std::make_shared<Parser>());
}
OP(parser_parse)
{
    bool cx = a.size() > 2 ? argFlag(a, 2) : true;
    return Val::basic(argObj<Parser>(a, 0, "Parser")->parse(argStr(a, 1), cx));
}
OP(sbml_parser_new)
{
    return Val::object("SbmlParser", std::make_shared<SbmlParser>());
}
OP(sbml_parser_parse)
{
    return Val::basic(argObj<SbmlParser>(a, 0, "SbmlParser")->parse(argStr(a, 1)));
}
OP(dumps)
{
    return Val::str(argB(a, 0)->dumps());
}
OP(loads)
{
    return Val::basic(Basic::loads(argStr(a, 0)));
}
