// Transformations, structural queries, property queries, cse, series, finitediff
#include "drv.h"
#include <symengine/subs.h>
#include <symengine/derivative.h>
#include <symengine/simplify.h>
#include <symengine/refine.h>
#include <symengine/assumptions.h>
#include <symengine/test_visitors.h>
#include <symengine/series.h>
#include <symengine/series_generic.h>
#include <symengine/finitediff.h>
#include <symengine/eval.h>

using namespace SymEngine;
using namespace vd;

static map_basic_basic argMap(Args &a, size_t i)
{
    // [[k v] [k v] ...]
    map_basic_basic m;
    for (auto &p : argVec(a, i)) {
        if (p.k != Val::VEC || p.v.size() != 2 || p.v[0].k != Val::B || p.v[1].k != Val::B)
            throw Decline("sort: want [[k v]...]");
        m[p.v[0].b] = p.v[1].b;
    }
    return m;
}

static std::shared_ptr<Assumptions> argAsm(Args &a, size_t i)
{
    if (i >= a.size() || a[i].k == Val::NIL)
        return nullptr;
    return argObj<Assumptions>(a, i, "Asm");
}

OP(expand)
{
    bool deep = a.size() > 1 ? argFlag(a, 1) : true;
    return Val::basic(expand(argB(a, 0), deep));
}
OP(diff)
{
    bool cache = a.size() > 2 ? argFlag(a, 2) : true;
    return Val::basic(diff(argB(a, 0), argSym(a, 1), cache));
}
OP(sdiff)
{
    bool cache = a.size() > 2 ? argFlag(a, 2) : true;
    return Val::basic(sdiff(argB(a, 0), argB(a, 1), cache));
}
OP(basic_diff)
{
    // the member function (always cached)
    return Val::basic(argB(a, 0)->diff(argSym(a, 1)));
}
OP(subs)
{
    bool cache = a.size() > 2 ? argFlag(a, 2) : true;
    return Val::basic(subs(argB(a, 0), argMap(a, 1), cache));
}
OP(xreplace)
{
    bool cache = a.size() > 2 ? argFlag(a, 2) : true;
    return Val::basic(xreplace(argB(a, 0), argMap(a, 1), cache));
}
OP(msubs)
{
    bool cache = a.size() > 2 ? argFlag(a, 2) : true;
    return Val::basic(msubs(argB(a, 0), argMap(a, 1), cache));
}
OP(ssubs)
{
    bool cache = a.size() > 2 ? argFlag(a, 2) : true;
    return Val::basic(ssubs(argB(a, 0), argMap(a, 1), cache));
}
OP(basic_subs)
{
    return Val::basic(argB(a, 0)->subs(argMap(a, 1)));
}
OP(asm_new)
{
    set_basic s;
    for (auto &x : argVecB(a, 0))
        s.insert(x);
    return Val::object("Asm", std::make_shared<Assumptions>(s));
}
OP(simplify)
{
    auto as = argAsm(a, 1);
    return Val::basic(simplify(argB(a, 0), as.get()));
}
OP(refine)
{
    auto as = argAsm(a, 1);
    return Val::basic(refine(argB(a, 0), as.get()));
}
OP(rewrite_as_exp)
{
    return Val::basic(rewrite_as_exp(argB(a, 0)));
}
OP(rewrite_as_sin)
{
    return Val::basic(rewrite_as_sin(argB(a, 0)));
}
OP(rewrite_as_cos)
{
    return Val::basic(rewrite_as_cos(argB(a, 0)));
}
OP(expand_as_exp)
{
    return Val::basic(argB(a, 0)->expand_as_exp());
}
OP(as_numer_denom)
{
    RCP<const Basic> n, d;
    as_numer_denom(argB(a, 0), outArg(n), outArg(d));
    return Val::vec({Val::basic(n), Val::basic(d)});
}
OP(as_real_imag)
{
    RCP<const Basic> re, im;
    as_real_imag(argB(a, 0), outArg(re), outArg(im));
    return Val::vec({Val::basic(re), Val::basic(im)});
}
OP(coeff)
{
    return Val::basic(coeff(*argB(a, 0), *argB(a, 1), *argB(a, 2)));
}
OP(free_symbols)
{
    return setB(free_symbols(*argB(a, 0)));
}
OP(function_symbols)
{
    return setB(function_symbols(*argB(a, 0)));
}
OP(has_symbol)
{
    return Val::boolean(has_symbol(*argB(a, 0), *argB(a, 1)));
}
OP(has_basic)
{
    return Val::boolean(has_basic(*argB(a, 0), *argB(a, 1)));
}
OP(atoms)
{
    const std::string &k = argStr(a, 1);
    RCP<const Basic> b = argB(a, 0);
    if (k == "Symbol")
        return setB(atoms<Symbol>(*b));
    if (k == "FunctionSymbol")
        return setB(atoms<FunctionSymbol>(*b));
    if (k == "Number")
        return setB(atoms<Number>(*b));
    if (k == "Integer")
        return setB(atoms<Integer>(*b));
    if (k == "Rational")
        return setB(atoms<Rational>(*b));
    if (k == "Pow")
        return setB(atoms<Pow>(*b));
    if (k == "Mul")
        return setB(atoms<Mul>(*b));
    if (k == "Add")
        return setB(atoms<Add>(*b));
    if (k == "Sin")
        return setB(atoms<Sin>(*b));
    if (k == "Constant")
        return setB(atoms<Constant>(*b));
    if (k == "Derivative")
        return setB(atoms<Derivative>(*b));
    if (k == "Symbol+FunctionSymbol")
        return setB(atoms<Symbol, FunctionSymbol>(*b));
    throw Decline("atoms kind");
}

#define QUERY(name)                                                            \
    OP(name)                                                                   \
    {                                                                          \
        auto as = argAsm(a, 1);                                                \
        return tri(SymEngine::name(*argB(a, 0), as.get()));                    \
    }
QUERY(is_zero)
QUERY(is_nonzero)
QUERY(is_positive)
QUERY(is_nonpositive)
QUERY(is_negative)
QUERY(is_nonnegative)
QUERY(is_integer)
QUERY(is_real)
QUERY(is_complex)
QUERY(is_finite)
QUERY(is_infinite)
QUERY(is_even)
QUERY(is_odd)
QUERY(is_algebraic)
QUERY(is_transcendental)
OP(is_rational)
{
    return tri(is_rational(*argB(a, 0)));
}
OP(is_irrational)
{
    return tri(is_irrational(*argB(a, 0)));
}
OP(is_polynomial)
{
    set_basic vars;
    if (a.size() > 1)
        for (auto &x : argVecB(a, 1))
            vars.insert(x);
    return Val::boolean(is_polynomial(*argB(a, 0), vars));
}

OP(cse)
{
    vec_basic exprs = argVecB(a, 0);
    vec_pair repl;
    vec_basic reduced;
    cse(repl, reduced, exprs);
    Val r = Val::vec();
    for (auto &p : repl)
        r.v.push_back(Val::vec({Val::basic(p.first), Val::basic(p.second)}));
    return Val::vec({r, vecB(reduced)});
}

OP(series)
{
    // (series e x n) -> [as_basic, [[deg coeff]...] via as_dict, [get_coeff(0..n-1)]]
    long n = argLong(a, 2);
    if (n < 0 || n > 64)
        throw Decline("series order");
    RCP<const SeriesCoeffInterface> s = series(argB(a, 0), argSym(a, 1), (unsigned)n);
    Val d = Val::vec();
    std::map<int, RCP<const Basic>> sorted;
    for (auto &p : s->as_dict())
        sorted[p.first] = p.second;
    for (auto &p : sorted)
        d.v.push_back(Val::vec({Val::integer((long)p.first), Val::basic(p.second)}));
    Val c = Val::vec();
    for (long i = 0; i < n; i++)
        c.v.push_back(Val::basic(s->get_coeff((int)i)));
    return Val::vec({Val::basic(s->as_basic()), d, c});
}

OP(fdiff_weights)
{
    long md = argLong(a, 1);
    if (md < 0 || md > 64)
        throw Decline("max_deriv");
    return vecB(generate_fdiff_weights_vector(argVecB(a, 0), (unsigned)md, argB(a, 2)));
}

OP(evalf)
{
    long bits = argLong(a, 1);
    const std::string &dom = argStr(a, 2);
    EvalfDomain d = dom == "real" ? EvalfDomain::Real
                                  : dom == "complex" ? EvalfDomain::Complex : EvalfDomain::Symbolic;
    if (bits < 1 || bits > 100000)
        throw Decline("bits");
    return Val::basic(evalf(*argB(a, 0), (unsigned long)bits, d));
}
