// C43: direct probes of the integer-backend wrapper layer (mp_* functions of mp_class.h /
// mp_wrapper.h / mp_boost.cpp), of rational_class canonicalisation and of the Integer/Rational
// entry points that sit directly on top of it (integer.h, rational.h).
//
// Every op is one call of a function of the wrapper layer.  Arguments outside the domain that
// the *GMP* documentation gives for the wrapped function (the wrapper layer's contract is "what
// GMP does": zero divisors, even roots / square roots of negatives, inexact mp_divexact, powm with a
// negative exponent and a non-invertible base, machine-word parameters that do not fit) are
// declined, because there GMP itself raises SIGFPE/abort and the other backends are free to differ.
#include "drv.h"
#include <symengine/ntheory.h>
#include <symengine/mp_class.h>

using namespace SymEngine;
using namespace vd;

namespace
{
unsigned long argUL(Args &a, size_t i, unsigned long maxv)
{
    integer_class z = argInt(a, i);
    if (z < 0 || !mp_fits_ulong_p(z) || mp_get_ui(z) > maxv)
        throw Decline("unsigned argument out of the op's range");
    return mp_get_ui(z);
}
integer_class argNZ(Args &a, size_t i)
{
    integer_class z = argInt(a, i);
    if (z == 0)
        throw Decline("zero divisor / modulus");
    return z;
}
Val Zv(const integer_class &z)
{
    return Val::integer(z);
}
// bit length of |z| without touching backend specifics
size_t bitlen(integer_class z)
{
    if (z < 0)
        z = -z;
    size_t n = 0;
    while (z != 0) {
        z /= 2;
        n++;
    }
    return n;
}
rational_class argQ(Args &a, size_t i)
{
    // [num den] with den > 0 (negative denominators handed to the backend constructor are outside
    // boost::rational's contract; the library's own entry point Rational::from_two_ints handles
    // the sign and is probed through the core op `rational`) or an Integer/Rational value
    if (i < a.size() && a[i].k == Val::INT)
        return rational_class(integer_class(a[i].s));
    if (i < a.size() && a[i].k == Val::VEC && a[i].v.size() == 2 && a[i].v[0].k == Val::INT
        && a[i].v[1].k == Val::INT) {
        integer_class n(a[i].v[0].s), d(a[i].v[1].s);
        if (d <= 0)
            throw Decline("denominator must be positive");
        rational_class q(n, d);
        canonicalize(q);
        return q;
    }
    RCP<const Number> n = argNum(a, i);
    if (is_a<Integer>(*n))
        return rational_class(down_cast<const Integer &>(*n).as_integer_class());
    if (is_a<Rational>(*n))
        return down_cast<const Rational &>(*n).as_rational_class();
    throw Decline("sort: want rational");
}
Val Qv(const rational_class &q)
{
    return Val::vec({Zv(get_num(q)), Zv(get_den(q))});
}
} // namespace

OP(be_variant)
{
    return Val::str(
#if SYMENGINE_INTEGER_CLASS == SYMENGINE_BOOSTMP
        "boostmp"
#elif SYMENGINE_INTEGER_CLASS == SYMENGINE_GMPXX
        "gmpxx"
#elif SYMENGINE_INTEGER_CLASS == SYMENGINE_GMP
        "gmp"
#else
        "other"
#endif
    );
}

// ---------------------------------------------------------------- division family
OP(be_fdiv_qr)
{
    integer_class q, r, x = argInt(a, 0), y = argNZ(a, 1);
    mp_fdiv_qr(q, r, x, y);
    return Val::vec({Zv(q), Zv(r)});
}
OP(be_fdiv_q)
{
    integer_class q, x = argInt(a, 0), y = argNZ(a, 1);
    mp_fdiv_q(q, x, y);
    return Zv(q);
}
OP(be_fdiv_r)
{
    integer_class r, x = argInt(a, 0), y = argNZ(a, 1);
    mp_fdiv_r(r, x, y);
    return Zv(r);
}
// aliasing forms used by the library (mp_fdiv_r(r, r, m) in crt / mp_invert)
OP(be_fdiv_r_alias)
{
    integer_class x = argInt(a, 0), y = argNZ(a, 1);
    mp_fdiv_r(x, x, y);
    return Zv(x);
}
OP(be_fdiv_qr_alias)
{
    // q aliases a, r aliases b
    integer_class x = argInt(a, 0), y = argNZ(a, 1);
    integer_class q = x, r = y;
    mp_fdiv_qr(q, r, q, r);
    return Val::vec({Zv(q), Zv(r)});
}
OP(be_cdiv_q)
{
    integer_class q, x = argInt(a, 0), y = argNZ(a, 1);
    mp_cdiv_q(q, x, y);
    return Zv(q);
}
OP(be_tdiv_qr)
{
    integer_class q, r, x = argInt(a, 0), y = argNZ(a, 1);
    mp_tdiv_qr(q, r, x, y);
    return Val::vec({Zv(q), Zv(r)});
}
OP(be_tdiv_q)
{
    integer_class q, x = argInt(a, 0), y = argNZ(a, 1);
    mp_tdiv_q(q, x, y);
    return Zv(q);
}
OP(be_divexact)
{
    integer_class q, x = argInt(a, 0), y = argNZ(a, 1);
    if (x % y != 0)
        throw Decline("mp_divexact needs an exact division");
    mp_divexact(q, x, y);
    return Zv(q);
}
OP(be_divisible_p)
{
    return Val::boolean(mp_divisible_p(argInt(a, 0), argInt(a, 1)));
}
OP(be_addmul)
{
    integer_class r = argInt(a, 0);
    mp_addmul(r, argInt(a, 1), argInt(a, 2));
    return Zv(r);
}

// ---------------------------------------------------------------- gcd family
OP(be_gcd)
{
    integer_class g;
    mp_gcd(g, argInt(a, 0), argInt(a, 1));
    return Zv(g);
}
OP(be_lcm)
{
    integer_class g;
    mp_lcm(g, argInt(a, 0), argInt(a, 1));
    return Zv(g);
}
OP(be_gcdext)
{
    integer_class g, s, t;
    mp_gcdext(g, s, t, argInt(a, 0), argInt(a, 1));
    return Val::vec({Zv(g), Zv(s), Zv(t)});
}
OP(be_invert)
{
    integer_class r, x = argInt(a, 0), m = argNZ(a, 1);
    bool ok = mp_invert(r, x, m);
    // GMP documents the value of the result only when the inverse exists
    return Val::vec({Val::boolean(ok), ok ? Zv(r) : Val::nil()});
}
OP(be_powm)
{
    integer_class r, b = argInt(a, 0), e = argInt(a, 1), m = argInt(a, 2);
    if (m <= 0)
        throw Decline("modulus must be positive");
    if (bitlen(e) > 4096)
        throw Decline("exponent size");
    if (e < 0) {
        integer_class g;
        mp_gcd(g, b, m);
        if (g != 1)
            throw Decline("negative exponent with a non-invertible base (GMP: division by zero)");
    }
    mp_powm(r, b, e, m);
    return Zv(r);
}
OP(be_pow_ui)
{
    integer_class r, b = argInt(a, 0);
    unsigned long n = argUL(a, 1, 4000);
    if (bitlen(b) * n > 200000)
        throw Decline("result size");
    mp_pow_ui(r, b, n);
    return Zv(r);
}
OP(be_qpow_ui)
{
    rational_class r, b = argQ(a, 0);
    unsigned long n = argUL(a, 1, 4000);
    if ((bitlen(get_num(b)) + bitlen(get_den(b))) * n > 200000)
        throw Decline("result size");
    mp_pow_ui(r, b, n);
    return Qv(r);
}

// ---------------------------------------------------------------- roots, powers
OP(be_root)
{
    integer_class r, x = argInt(a, 0);
    unsigned long n = argUL(a, 1, 1000000);
    if (n == 0)
        throw Decline("zeroth root");
    if (x < 0 && n % 2 == 0)
        throw Decline("even root of a negative (GMP aborts)");
    bool exact = mp_root(r, x, n);
    return Val::vec({Val::boolean(exact), Zv(r)});
}
OP(be_rootrem)
{
    integer_class r, rem, x = argInt(a, 0);
    unsigned long n = argUL(a, 1, 1000000);
    if (n == 0)
        throw Decline("zeroth root");
    if (x < 0 && n % 2 == 0)
        throw Decline("even root of a negative (GMP aborts)");
    mp_rootrem(r, rem, x, n);
    return Val::vec({Zv(r), Zv(rem)});
}
OP(be_sqrt)
{
    integer_class x = argInt(a, 0);
    if (x < 0)
        throw Decline("square root of a negative (GMP aborts)");
    return Zv(mp_sqrt(x));
}
OP(be_sqrtrem)
{
    integer_class r, rem, x = argInt(a, 0);
    if (x < 0)
        throw Decline("square root of a negative (GMP aborts)");
    mp_sqrtrem(r, rem, x);
    return Val::vec({Zv(r), Zv(rem)});
}
OP(be_perfect_power_p)
{
    return Val::boolean(mp_perfect_power_p(argInt(a, 0)));
}
OP(be_perfect_square_p)
{
    return Val::boolean(mp_perfect_square_p(argInt(a, 0)));
}

// ---------------------------------------------------------------- primes, symbols
OP(be_probab_prime_p)
{
    integer_class x = argInt(a, 0);
    unsigned reps = (unsigned)argUL(a, 1, 100);
    if (reps < 1)
        throw Decline("reps");
    int r = mp_probab_prime_p(x, reps);
    // [is (probably) prime, raw return value]; only the first component is specified
    return Val::vec({Val::boolean(r != 0), Val::integer((long)r)});
}
OP(be_nextprime)
{
    integer_class r;
    mp_nextprime(r, argInt(a, 0));
    return Zv(r);
}
OP(be_legendre)
{
    integer_class x = argInt(a, 0), p = argInt(a, 1);
    if (p < 3 || p % 2 == 0)
        throw Decline("legendre: p must be an odd prime");
    return Val::integer((long)mp_legendre(x, p));
}
OP(be_jacobi)
{
    integer_class x = argInt(a, 0), n = argInt(a, 1);
    if (n < 1 || n % 2 == 0)
        throw Decline("jacobi: n must be odd and positive");
    return Val::integer((long)mp_jacobi(x, n));
}
OP(be_kronecker)
{
    return Val::integer((long)mp_kronecker(argInt(a, 0), argInt(a, 1)));
}
OP(be_scan1)
{
    integer_class x = argInt(a, 0);
    if (x <= 0)
        throw Decline("scan1 probe: positive operands only");
    return Val::uinteger(mp_scan1(x));
}

// ---------------------------------------------------------------- sequences
OP(be_fib)
{
    integer_class r;
    mp_fib_ui(r, argUL(a, 0, 20000));
    return Zv(r);
}
OP(be_fib2)
{
    integer_class r, s;
    unsigned long n = argUL(a, 0, 20000);
    if (n < 1)
        throw Decline("n >= 1");
    mp_fib2_ui(r, s, n);
    return Val::vec({Zv(r), Zv(s)});
}
OP(be_lucnum)
{
    integer_class r;
    mp_lucnum_ui(r, argUL(a, 0, 20000));
    return Zv(r);
}
OP(be_lucnum2)
{
    integer_class r, s;
    unsigned long n = argUL(a, 0, 20000);
    if (n < 1)
        throw Decline("n >= 1");
    mp_lucnum2_ui(r, s, n);
    return Val::vec({Zv(r), Zv(s)});
}
OP(be_fac)
{
    integer_class r;
    mp_fac_ui(r, argUL(a, 0, 3000));
    return Zv(r);
}
OP(be_bin)
{
    integer_class r, n = argInt(a, 0);
    unsigned long k = argUL(a, 1, 600);
    if (bitlen(n) > 512)
        throw Decline("size");
    mp_bin_ui(r, n, k);
    return Zv(r);
}
OP(be_primorial)
{
    return Zv(mp_primorial(argUL(a, 0, 20000)));
}

// ---------------------------------------------------------------- conversions and predicates
OP(be_hex)
{
    return Val::str(mp_get_hex_str(argInt(a, 0)));
}
OP(be_set_str)
{
    // decimal text -> integer -> decimal text
    const std::string &s = argStr(a, 0);
    if (s.empty() || s.size() > 4000)
        throw Decline("literal size");
    size_t i = (s[0] == '-') ? 1 : 0;
    if (i >= s.size())
        throw Decline("literal");
    for (size_t j = i; j < s.size(); j++)
        if (s[j] < '0' || s[j] > '9')
            throw Decline("literal");
    if (s.size() > i + 1 && s[i] == '0')
        throw Decline("leading zero (base prefix semantics differ by design)");
    integer_class z;
    mp_set_str(z, s);
    return Zv(z);
}
OP(be_fits)
{
    integer_class x = argInt(a, 0);
    bool fu = mp_fits_ulong_p(x), fs = mp_fits_slong_p(x);
    Val r = Val::vec({Val::boolean(fu), Val::boolean(fs)});
    // mp_get_ui is |x| mod 2^64 in GMP; probe it where |x| fits, mp_get_si where x fits
    integer_class ax = mp_abs(x);
    r.v.push_back(mp_fits_ulong_p(ax) ? Val::uinteger(mp_get_ui(x)) : Val::nil());
    r.v.push_back(fs ? Val::integer(mp_get_si(x)) : Val::nil());
    return r;
}
OP(be_sign_abs_cmpabs)
{
    integer_class x = argInt(a, 0), y = argInt(a, 1);
    int c = mp_cmpabs(x, y);
    return Val::vec({Val::integer((long)mp_sign(x)), Zv(mp_abs(x)),
                     Val::integer((long)(c > 0) - (long)(c < 0))});
}
OP(be_and)
{
    integer_class r, x = argInt(a, 0), y = argInt(a, 1);
    if (x < 0 || y < 0)
        throw Decline("and: non-negative operands (the library only uses it on those)");
    mp_and(r, x, y);
    return Zv(r);
}
OP(be_set_d)
{
    // double -> integer (truncation), finite values only
    double d = argDbl(a, 0);
    if (!(d == d) || d > 1e300 || d < -1e300)
        throw Decline("finite doubles only");
    integer_class z;
    mp_set_d(z, d);
    return Zv(z);
}

// ---------------------------------------------------------------- rational_class
OP(be_q)
{
    return Qv(argQ(a, 0));
}
OP(be_qarith)
{
    const std::string &op = argStr(a, 0);
    rational_class x = argQ(a, 1), y = argQ(a, 2);
    if (op == "add")
        return Qv(x + y);
    if (op == "sub")
        return Qv(x - y);
    if (op == "mul")
        return Qv(x * y);
    if (op == "div") {
        if (y == 0)
            throw Decline("division by zero");
        return Qv(x / y);
    }
    if (op == "cmp")
        return Val::integer((long)(x > y) - (long)(x < y));
    if (op == "iadd") {
        x += y;
        return Qv(x);
    }
    if (op == "imul") {
        x *= y;
        return Qv(x);
    }
    throw Decline("unknown rational op");
}
OP(be_qmisc)
{
    rational_class x = argQ(a, 0);
    return Val::vec({Val::integer((long)mp_sign(x)), Qv(mp_abs(x)), Qv(-x)});
}

// ---------------------------------------------------------------- Integer / Rational entry points
OP(be_isqrt)
{
    integer_class x = argInt(a, 0);
    if (x < 0)
        throw Decline("isqrt of a negative");
    return Val::basic(isqrt(*integer(x)));
}
OP(be_i_nth_root)
{
    integer_class x = argInt(a, 0);
    unsigned long n = argUL(a, 1, 1000000);
    if (n == 0)
        throw Decline("zeroth root");
    if (x < 0 && n % 2 == 0)
        throw Decline("even root of a negative");
    RCP<const Integer> r;
    int ret = i_nth_root(outArg(r), *integer(x), n);
    return Val::vec({Val::boolean(ret != 0), Val::basic(r)});
}
OP(be_perfect_square)
{
    return Val::boolean(perfect_square(*integer(argInt(a, 0))));
}
OP(be_perfect_power)
{
    return Val::boolean(perfect_power(*integer(argInt(a, 0))));
}
OP(be_iabs)
{
    return Val::basic(iabs(*integer(argInt(a, 0))));
}
OP(be_rat_is_perfect_power)
{
    RCP<const Number> n = argNum(a, 0);
    if (!is_a<Rational>(*n))
        throw Decline("sort: want Rational");
    bool is_expected = a.size() > 1 ? argFlag(a, 1) : false;
    return Val::boolean(down_cast<const Rational &>(*n).is_perfect_power(is_expected));
}
OP(be_rat_nth_root)
{
    RCP<const Number> n = argNum(a, 0);
    if (!is_a<Rational>(*n))
        throw Decline("sort: want Rational");
    unsigned long k = argUL(a, 1, 1000000);
    if (k == 0)
        throw Decline("zeroth root");
    if (n->is_negative() && k % 2 == 0)
        throw Decline("even root of a negative");
    RCP<const Number> r;
    bool ok = down_cast<const Rational &>(*n).nth_root(outArg(r), k);
    return Val::vec({Val::boolean(ok), ok ? Val::basic(r) : Val::nil()});
}
OP(be_get_num_den)
{
    RCP<const Integer> n, d;
    RCP<const Number> q = argNum(a, 0);
    if (!is_a<Rational>(*q))
        throw Decline("sort: want Rational");
    get_num_den(down_cast<const Rational &>(*q), outArg(n), outArg(d));
    return Val::vec({Val::basic(n), Val::basic(d)});
}
