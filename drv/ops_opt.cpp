// Ops that only exist in the `opt` build variant (LLVM + MPFR + MPC):
//   C14  LLVM visitors (llvm_double.h): llvm_new llvm_init llvm_call llvm_dumps llvm_loads llvm_blob_size
//   C45  eval_mpfr / eval_mpc (eval_mpfr.h, eval_mpc.h): eval_mpfr eval_mpc mp_prec
#include "drv.h"
#include <symengine/symengine_config.h>

#include <cmath>
#include <cstdio>
#include <cstdlib>

#ifdef HAVE_SYMENGINE_LLVM
#include <symengine/llvm_double.h>
#endif
#ifdef HAVE_SYMENGINE_MPFR
#include <symengine/real_mpfr.h>
#include <symengine/eval_mpfr.h>
#endif
#ifdef HAVE_SYMENGINE_MPC
#include <symengine/complex_mpc.h>
#include <symengine/eval_mpc.h>
#endif

using namespace SymEngine;
using namespace vd;

// ------------------------------------------------------------------ C14
#ifdef HAVE_SYMENGINE_LLVM
namespace
{
// The visitors do not expose the number of inputs/outputs of the compiled function; the wrapper remembers
// them (and whether the last init/loads returned normally) so that call() is only issued with correctly
// sized buffers.  Buffers are heap vectors of exactly that size.
struct LlvmW {
    int type = 0; // 0 double, 1 float, 2 long double
    std::unique_ptr<LLVMDoubleVisitor> d;
    std::unique_ptr<LLVMFloatVisitor> f;
#ifdef SYMENGINE_HAVE_LLVM_LONG_DOUBLE
    std::unique_ptr<LLVMLongDoubleVisitor> l;
#endif
    size_t nin = 0, nout = 0;
    bool valid = false;
    LLVMVisitor &v()
    {
        if (type == 0)
            return *d;
        if (type == 1)
            return *f;
#ifdef SYMENGINE_HAVE_LLVM_LONG_DOUBLE
        return *l;
#else
        throw Decline("no long double");
#endif
    }
};
// a compiled object file as returned by dumps(), kept inside the driver (binary data)
struct LlvmBlob {
    int type = 0;
    size_t nin = 0, nout = 0;
    std::string data;
};

std::string ld_hex(long double x)
{
    if (std::isnan(x))
        return "nan";
    if (std::isinf(x))
        return x > 0 ? "inf" : "-inf";
    char buf[96];
    snprintf(buf, sizeof buf, "%La", x);
    return buf;
}
} // namespace

OP(llvm_new)
{
    const std::string &k = argStr(a, 0);
    auto w = std::make_shared<LlvmW>();
    if (k == "double") {
        w->type = 0;
        w->d.reset(new LLVMDoubleVisitor());
    } else if (k == "float") {
        w->type = 1;
        w->f.reset(new LLVMFloatVisitor());
    } else if (k == "long double") {
#ifdef SYMENGINE_HAVE_LLVM_LONG_DOUBLE
        w->type = 2;
        w->l.reset(new LLVMLongDoubleVisitor());
#else
        throw Decline("llvm_new: long double visitor not available on this platform");
#endif
    } else {
        throw Decline("llvm_new: double|float|long double");
    }
    return Val::object("LLVM", w);
}

OP(llvm_init)
{
    // (llvm_init obj [syms] [outs] symbolic_cse opt_level)
    auto w = argObj<LlvmW>(a, 0, "LLVM");
    vec_basic inputs = argVecB(a, 1);
    vec_basic outputs = argVecB(a, 2);
    bool cse = argFlag(a, 3);
    long opt = argLong(a, 4);
    if (opt < 0 || opt > 3)
        throw Decline("llvm_init: opt_level 0..3");
    for (auto &s : inputs)
        if (!is_a<Symbol>(*s))
            throw Decline("llvm_init: inputs must be symbols");
    if (outputs.empty())
        throw Decline("llvm_init: no outputs");
    w->valid = false;
    w->v().init(inputs, outputs, cse, (unsigned)opt); // may throw: the object stays !valid
    w->nin = inputs.size();
    w->nout = outputs.size();
    w->valid = true;
    return Val::integer((long)w->nout);
}

OP(llvm_call)
{
    // (llvm_call obj [values]); values: doubles (long double visitor: also "%La" strings)
    // result: double visitor -> doubles; float visitor -> doubles (exact widening);
    //         long double visitor -> "%La" strings (exact) | "nan" | "inf" | "-inf"
    auto w = argObj<LlvmW>(a, 0, "LLVM");
    std::vector<Val> &in = argVec(a, 1);
    if (!w->valid)
        throw Decline("llvm_call: no successful init/loads");
    if (in.size() != w->nin)
        throw Decline("llvm_call: wrong number of inputs");
    std::vector<long double> x(in.size());
    for (size_t i = 0; i < in.size(); i++) {
        if (in[i].k == Val::DBL)
            x[i] = in[i].d;
        else if (in[i].k == Val::INT)
            x[i] = std::stold(in[i].s);
        else if (in[i].k == Val::STR && w->type == 2) {
            char *end = nullptr;
            x[i] = strtold(in[i].s.c_str(), &end);
            if (end == in[i].s.c_str() || *end)
                throw Decline("llvm_call: bad long double literal");
        } else
            throw Decline("llvm_call: inputs must be numbers");
    }
    Val r = Val::vec();
    if (w->type == 0) {
        std::vector<double> xi(x.begin(), x.end()), out(w->nout);
        w->d->call(out.data(), xi.data());
        for (double d : out)
            r.v.push_back(Val::dbl(d));
    } else if (w->type == 1) {
        std::vector<float> xi(x.size()), out(w->nout);
        for (size_t i = 0; i < x.size(); i++) {
            xi[i] = (float)x[i];
            if ((long double)xi[i] != x[i] && x[i] == x[i])
                throw Decline("llvm_call: input not representable as float");
        }
        w->f->call(out.data(), xi.data());
        for (float d : out)
            r.v.push_back(Val::dbl((double)d));
    } else {
#ifdef SYMENGINE_HAVE_LLVM_LONG_DOUBLE
        std::vector<long double> out(w->nout);
        w->l->call(out.data(), x.data());
        for (long double d : out)
            r.v.push_back(Val::str(ld_hex(d)));
#endif
    }
    return r;
}

OP(llvm_dumps)
{
    auto w = argObj<LlvmW>(a, 0, "LLVM");
    if (!w->valid)
        throw Decline("llvm_dumps: no successful init/loads");
    auto b = std::make_shared<LlvmBlob>();
    b->type = w->type;
    b->nin = w->nin;
    b->nout = w->nout;
    b->data = w->v().dumps();
    return Val::object("LLVMBlob", b);
}

OP(llvm_blob_size)
{
    return Val::integer((long)argObj<LlvmBlob>(a, 0, "LLVMBlob")->data.size());
}

OP(llvm_blob_eq)
{
    return Val::boolean(argObj<LlvmBlob>(a, 0, "LLVMBlob")->data == argObj<LlvmBlob>(a, 1, "LLVMBlob")->data);
}

OP(llvm_loads)
{
    // (llvm_loads obj blob): loads the object code into the visitor (same float type)
    auto w = argObj<LlvmW>(a, 0, "LLVM");
    auto b = argObj<LlvmBlob>(a, 1, "LLVMBlob");
    if (b->type != w->type)
        throw Decline("llvm_loads: blob of a different float type");
    if (b->data.empty())
        throw Decline("llvm_loads: empty blob");
    w->valid = false;
    w->v().loads(b->data);
    w->nin = b->nin;
    w->nout = b->nout;
    w->valid = true;
    return Val::integer((long)w->nout);
}
#endif // HAVE_SYMENGINE_LLVM

// ------------------------------------------------------------------ C45
#ifdef HAVE_SYMENGINE_MPFR
static mpfr_rnd_t rnd_arg(Args &a, size_t i)
{
    if (a.size() <= i)
        return MPFR_RNDN;
    const std::string &s = argStr(a, i);
    if (s == "N")
        return MPFR_RNDN;
    if (s == "Z")
        return MPFR_RNDZ;
    if (s == "U")
        return MPFR_RNDU;
    if (s == "D")
        return MPFR_RNDD;
    throw Decline("rounding mode N|Z|U|D");
}

OP(eval_mpfr)
{
    // (eval_mpfr e bits [rnd]) -> RealMPFR of precision bits
    long bits = argLong(a, 1);
    if (bits < 2 || bits > 100000)
        throw Decline("bits");
    mpfr_class m(bits);
    eval_mpfr(m.get_mpfr_t(), *argB(a, 0), rnd_arg(a, 2));
    return Val::basic(real_mpfr(std::move(m)));
}
#endif

#ifdef HAVE_SYMENGINE_MPC
OP(eval_mpc)
{
    // (eval_mpc e bits) -> ComplexMPC of precision bits
    long bits = argLong(a, 1);
    if (bits < 2 || bits > 100000)
        throw Decline("bits");
    mpc_class m(bits);
    eval_mpc(m.get_mpc_t(), *argB(a, 0), MPFR_RNDN);
    return Val::basic(complex_mpc(std::move(m)));
}
#endif
