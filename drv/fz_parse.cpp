// C18 libFuzzer target: parsing arbitrary input is safe, parser reuse is stateless.
//
// Unit layout: byte 0 = mode m; kind = (m & 0x7f) % 3:
//     0 parse(s, convert_xor = true)   1 parse(s, convert_xor = false)   2 parse_sbml(s)
//   m & 0x80 clear: the rest of the unit is ONE input string (every byte value allowed, incl. NUL;
//                   the API takes std::string and the tokenizers stop at the first NUL);
//   m & 0x80 set:   the rest is a HISTORY: up to 8 strings separated by the byte 0x1e, all given
//                   to one parser object created for this unit.
// Oracle (DESIGN.md C18):
//   (a) every call returns or throws a std::exception; anything else (sanitizer report incl. vptr
//       bad downcast, abort, foreign exception) kills the process = libFuzzer crash artifact;
//   (b) reuse differential: the outcome of the process-lifetime Parser / SbmlParser (whatever
//       history the campaign gave it, failed parses included) and of the per-unit history parser
//       must equal the outcome of a fresh parser on the same string: both throw, or both return
//       expressions that are eq with equal str (results holding a NaN double are compared by str);
//   (c) a returned expression is printed (str; sbml for kind 2) and the text re-parsed: no crash.
// Non-trivial (counted by hash of (kind, string)): the fresh parse returns a non-atom, or it
// throws on an input with >= 3 tokens (tokens counted by the small lexer below).
#include "fz_common.h"

#include <symengine/basic.h>
#include <symengine/parser.h>
#include <symengine/parser/parser.h>
#include <symengine/parser/sbml/sbml_parser.h>
#include <symengine/printers.h>
#include <symengine/real_double.h>
#include <symengine/complex_double.h>
#include <symengine/visitor.h>
#include <symengine/symengine_exception.h>

#include <fstream>

using namespace SymEngine;

namespace
{

struct Outcome {
    bool threw = false;
    RCP<const Basic> r;
    std::string what;
};

Parser *g_parser = nullptr;       // process lifetime
SbmlParser *g_sbml = nullptr;     // process lifetime
// ring of the last inputs of the process-lifetime parsers (fixed storage: no net allocation per unit)
const size_t HIST = 32;
std::vector<std::pair<int, std::string>> g_hist;
size_t g_hist_n = 0;

void hist_push(int kind, const std::string &s)
{
    if (g_hist.empty()) {
        g_hist.resize(HIST);
        for (auto &h : g_hist)
            h.second.reserve(512);
    }
    auto &slot = g_hist[g_hist_n % HIST];
    slot.first = kind;
    slot.second.assign(s);
    g_hist_n++;
}

Outcome fresh_parse(int kind, const std::string &s)
{
    Outcome o;
    try {
        if (kind == 0)
            o.r = parse(s, true);
        else if (kind == 1)
            o.r = parse(s, false);
        else
            o.r = parse_sbml(s);
    } catch (std::exception &e) {
        o.threw = true;
        o.what = e.what();
    }
    return o;
}

Outcome reuse_parse(Parser &p, SbmlParser &sp, int kind, const std::string &s)
{
    Outcome o;
    try {
        if (kind == 0)
            o.r = p.parse(s, true);
        else if (kind == 1)
            o.r = p.parse(s, false);
        else
            o.r = sp.parse(s);
    } catch (std::exception &e) {
        o.threw = true;
        o.what = e.what();
    }
    return o;
}

bool nan_inside(const RCP<const Basic> &b)
{
    if (is_a<RealDouble>(*b)) {
        double d = down_cast<const RealDouble &>(*b).i;
        return d != d;
    }
    if (is_a<ComplexDouble>(*b)) {
        std::complex<double> c = down_cast<const ComplexDouble &>(*b).i;
        return c.real() != c.real() || c.imag() != c.imag();
    }
    for (auto &a : b->get_args())
        if (nan_inside(a))
            return true;
    return false;
}

void dump_history(const char *which)
{
    const char *dir = getenv("VERIF_FZ_HISTDIR");
    if (!dir)
        return;
    std::string path = std::string(dir) + "/history-" + std::to_string((long)getpid()) + ".bin";
    FILE *f = fopen(path.c_str(), "wb");
    if (!f)
        return;
    size_t first = g_hist_n > HIST ? g_hist_n - HIST : 0;
    for (size_t q = first; q < g_hist_n; q++) {
        auto &h = g_hist[q % HIST];
        uint8_t k = (uint8_t)h.first;
        uint32_t n = (uint32_t)h.second.size();
        fwrite(&k, 1, 1, f);
        fwrite(&n, 4, 1, f);
        fwrite(h.second.data(), 1, n, f);
    }
    fclose(f);
    fprintf(stderr, "VERIF-HISTORY: %s parser history written to %s\n", which, path.c_str());
}

void compare(const char *which, int kind, const std::string &s, const Outcome &fresh, const Outcome &re)
{
    std::string msg;
    if (fresh.threw != re.threw) {
        msg = std::string(which) + " parser " + (re.threw ? "throws (" + re.what + ")" : "returns " + str(*re.r))
              + " where a fresh parser " + (fresh.threw ? "throws (" + fresh.what + ")" : "returns " + str(*fresh.r));
    } else if (!fresh.threw) {
        std::string a = str(*fresh.r), b = str(*re.r);
        if (a != b)
            msg = std::string(which) + " parser returns " + b + " where a fresh parser returns " + a;
        else if (!eq(*fresh.r, *re.r) && !nan_inside(fresh.r))
            msg = std::string(which) + " parser result prints like the fresh parser's (" + a + ") but is not eq";
    }
    if (msg.empty())
        return;
    if (std::string(which) == "process-lifetime")
        dump_history(which);
    fz::violation("C18 reuse differential, kind=" + std::to_string(kind) + " input=\"" + fz::printable(s) + "\": " + msg);
}

// small lexer used only for the non-triviality rule and the known-finding pre-filters
bool ident_char(unsigned char c)
{
    return (c >= 'a' && c <= 'z') || (c >= 'A' && c <= 'Z') || (c >= '0' && c <= '9') || c == '_' || c == '.' || c >= 0x80;
}

size_t token_count(const std::string &s, std::vector<std::string> *words)
{
    size_t n = 0, i = 0;
    while (i < s.size() && s[i] != 0) {
        unsigned char c = s[i];
        if (c == ' ' || c == '\t' || c == '\n' || c == '\r') {
            i++;
            continue;
        }
        if (ident_char(c)) {
            size_t j = i;
            while (j < s.size() && ident_char((unsigned char)s[j]))
                j++;
            if (words)
                words->push_back(s.substr(i, j - i));
            i = j;
        } else {
            i++;
            // two-character operators
            if (i < s.size() && ((c == '*' && s[i] == '*') || (s[i] == '=' && (c == '<' || c == '>' || c == '=' || c == '!'))
                                 || (c == '&' && s[i] == '&') || (c == '|' && s[i] == '|')))
                i++;
        }
        n++;
    }
    return n;
}

std::string lower(std::string s)
{
    for (auto &c : s)
        if (c >= 'A' && c <= 'Z')
            c = (char)(c - 'A' + 'a');
    return s;
}

bool ends_with(const std::string &s, const char *suf)
{
    size_t n = strlen(suf);
    return s.size() >= n && s.compare(s.size() - n, n, suf) == 0;
}

// By-construction exclusion of recorded findings (DESIGN.md section 4); only active when
// pbt/fuzz.py has verified that the reproducer still crashes and passed the tag in VERIF_KNOWN_TAGS.
//   parse_logic_op_nonboolean: the actions of `|`, `&`, `^` (xor, convert_xor off) and `~` in parser.yy
//       rcp_static_cast their operands to Boolean unchecked  -> inputs containing such an operator.
//   floor_nonfinite_double: floor(1e999): EvaluateRealDouble/ComplexDouble::floor|ceiling give a non-finite double to
//       mpz_set_d (SIGFPE); primepi / primorial call floor      -> inputs containing an identifier ending in floor / ceil /
//       ceiling / primepi / primorial.
//   sbml_logic_nonboolean: the same in sbml_parser.yy (`&&`, `||`, `!`) and in SbmlParser::functionify
//       (not / and / or / xor / piecewise)                   -> inputs containing such an operator or name.
bool excluded_known(int kind, const std::string &s)
{
    fz::Stats &st = fz::stats();
    size_t end = s.find('\0');
    std::string t = end == std::string::npos ? s : s.substr(0, end);
    if (kind != 2 && st.tag("parse_logic_op_nonboolean")) {
        for (size_t i = 0; i < t.size(); i++) {
            char c = t[i];
            if (c == '|' || c == '&' || c == '~' || (c == '^' && kind == 1)) {
                st.exclude("parse_logic_op_nonboolean");
                return true;
            }
        }
    }
    if (kind == 2 && st.tag("sbml_logic_nonboolean")) {
        for (size_t i = 0; i < t.size(); i++) {
            char c = t[i];
            if (c == '|' || c == '&' || (c == '!' && !(i + 1 < t.size() && t[i + 1] == '='))) {
                st.exclude("sbml_logic_nonboolean");
                return true;
            }
        }
        std::vector<std::string> words;
        token_count(t, &words);
        for (auto &w : words) {
            std::string l = lower(w);
            if (ends_with(l, "not") || ends_with(l, "and") || ends_with(l, "or") || ends_with(l, "piecewise")) {
                st.exclude("sbml_logic_nonboolean");
                return true;
            }
        }
    }
    if (st.tag("floor_nonfinite_double")) {
        // KF-C18-03: floor / ceiling (sbml: floor, ceil, ceiling) of an infinite or NaN double -> mpz_set_d raises SIGFPE
        std::vector<std::string> words;
        token_count(t, &words);
        for (auto &w : words) {
            std::string l = lower(w);
            if (ends_with(l, "floor") || ends_with(l, "ceiling") || ends_with(l, "ceil") || ends_with(l, "primepi")
                || ends_with(l, "primorial")) {
                st.exclude("floor_nonfinite_double");
                return true;
            }
        }
    }
    return false;
}

void one_string(int kind, const std::string &s, Parser *unit_p, SbmlParser *unit_sp, const uint8_t *unit, size_t unit_size)
{
    fz::Stats &st = fz::stats();
    if (excluded_known(kind, s))
        return;
    // (a) fresh parser through the public entry points
    Outcome fresh = fresh_parse(kind, s);
    // (b) process-lifetime parser
    hist_push(kind, s);
    Outcome re = reuse_parse(*g_parser, *g_sbml, kind, s);
    compare("process-lifetime", kind, s, fresh, re);
    if (unit_p) {
        Outcome ru = reuse_parse(*unit_p, *unit_sp, kind, s);
        compare("per-unit history", kind, s, fresh, ru);
    }
    // (c) print and re-parse
    const char *cname;
    bool nontrivial = false;
    if (!fresh.threw) {
        std::string text = str(*fresh.r);
        try {
            parse(text, true);
            st.count("reparse_str_ok");
        } catch (std::exception &) {
            st.count("reparse_str_throws");
        }
        if (kind == 2) {
            try {
                std::string t2 = sbml(*fresh.r);
                try {
                    parse_sbml(t2);
                    st.count("reparse_sbml_ok");
                } catch (std::exception &) {
                    st.count("reparse_sbml_throws");
                }
            } catch (std::exception &) {
                st.count("sbml_print_throws");
            }
        }
        if (fresh.r->get_args().empty()) {
            cname = kind == 2 ? "sbml_ok_atom" : "parse_ok_atom";
        } else {
            cname = kind == 2 ? "sbml_ok_compound" : "parse_ok_compound";
            nontrivial = true;
        }
    } else {
        size_t nt = token_count(s, nullptr);
        if (nt >= 3) {
            cname = kind == 2 ? "sbml_throws_ge3tok" : "parse_throws_ge3tok";
            nontrivial = true;
        } else
            cname = kind == 2 ? "sbml_throws_short" : "parse_throws_short";
    }
    st.count(cname);
    if (nontrivial) {
        uint8_t k = (uint8_t)kind;
        uint64_t h = fz::fnv((const uint8_t *)s.data(), s.size(), fz::fnv(&k, 1));
        if (st.nontrivial(h))
            st.sample(cname, unit, unit_size);
    }
}

void preload_history()
{
    const char *p = getenv("VERIF_FZ_HISTORY");
    if (!p)
        return;
    std::ifstream f(p, std::ios::binary);
    std::string all((std::istreambuf_iterator<char>(f)), std::istreambuf_iterator<char>());
    size_t i = 0, n = 0;
    while (i + 5 <= all.size()) {
        int kind = (uint8_t)all[i];
        uint32_t len;
        memcpy(&len, all.data() + i + 1, 4);
        i += 5;
        if (i + len > all.size())
            break;
        std::string s = all.substr(i, len);
        i += len;
        hist_push(kind % 3, s);
        reuse_parse(*g_parser, *g_sbml, kind % 3, s);
        n++;
    }
    fprintf(stderr, "VERIF-HISTORY: preloaded %zu inputs from %s\n", n, p);
}

} // namespace

extern "C" int LLVMFuzzerInitialize(int *argc, char ***argv)
{
    fz::stats().init();
    fz::install_gmp_guard();
    atexit(fz::flush_at_exit);
    g_parser = new Parser();
    g_sbml = new SbmlParser();
    preload_history();
    return 0;
}

extern "C" int LLVMFuzzerTestOneInput(const uint8_t *data, size_t size)
{
    fz::Stats &st = fz::stats();
    st.tick();
    if (size < 1)
        return 0;
    int m = data[0];
    int kind = (m & 0x7f) % 3;
    std::string rest((const char *)data + 1, size - 1);
    if (!(m & 0x80)) {
        st.count("unit_single");
        one_string(kind, rest, nullptr, nullptr, data, size);
        return 0;
    }
    st.count("unit_history");
    Parser up;
    SbmlParser usp;
    size_t start = 0, pieces = 0;
    while (pieces < 8) {
        size_t e = rest.find('\x1e', start);
        std::string piece = rest.substr(start, e == std::string::npos ? std::string::npos : e - start);
        one_string(kind, piece, &up, &usp, data, size);
        pieces++;
        if (e == std::string::npos)
            break;
        start = e + 1;
    }
    return 0;
}
