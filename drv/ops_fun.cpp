// Function constructors of functions.h / ntheory_funcs.h
#include "drv.h"
#include <symengine/ntheory_funcs.h>

using namespace SymEngine;
using namespace vd;

#define FUN1(name, fn)                                                         \
    OP(name)                                                                   \
    {                                                                          \
        return Val::basic(fn(argB(a, 0)));                                     \
    }
#define FUN2(name, fn)                                                         \
    OP(name)                                                                   \
    {                                                                          \
        return Val::basic(fn(argB(a, 0), argB(a, 1)));                         \
    }

FUN1(sin, SymEngine::sin)
FUN1(cos, SymEngine::cos)
FUN1(tan, SymEngine::tan)
FUN1(cot, SymEngine::cot)
FUN1(csc, SymEngine::csc)
FUN1(sec, SymEngine::sec)
FUN1(asin, SymEngine::asin)
FUN1(acos, SymEngine::acos)
FUN1(asec, SymEngine::asec)
FUN1(acsc, SymEngine::acsc)
FUN1(atan, SymEngine::atan)
FUN1(acot, SymEngine::acot)
FUN1(sinh, SymEngine::sinh)
FUN1(csch, SymEngine::csch)
FUN1(cosh, SymEngine::cosh)
FUN1(sech, SymEngine::sech)
FUN1(tanh, SymEngine::tanh)
FUN1(coth, SymEngine::coth)
FUN1(asinh, SymEngine::asinh)
FUN1(acsch, SymEngine::acsch)
FUN1(acosh, SymEngine::acosh)
FUN1(atanh, SymEngine::atanh)
FUN1(acoth, SymEngine::acoth)
FUN1(asech, SymEngine::asech)
FUN1(log, SymEngine::log)
FUN2(log2, SymEngine::log)
FUN1(lambertw, SymEngine::lambertw)
FUN1(zeta, SymEngine::zeta)
FUN2(zeta2, SymEngine::zeta)
FUN1(dirichlet_eta, SymEngine::dirichlet_eta)
FUN1(erf, SymEngine::erf)
FUN1(erfc, SymEngine::erfc)
FUN1(gamma, SymEngine::gamma)
FUN1(loggamma, SymEngine::loggamma)
FUN2(lowergamma, SymEngine::lowergamma)
FUN2(uppergamma, SymEngine::uppergamma)
FUN2(beta, SymEngine::beta)
FUN2(polygamma, SymEngine::polygamma)
FUN1(digamma, SymEngine::digamma)
FUN1(trigamma, SymEngine::trigamma)
FUN1(abs, SymEngine::abs)
FUN1(sign, SymEngine::sign)
FUN1(floor, SymEngine::floor)
FUN1(ceiling, SymEngine::ceiling)
FUN1(truncate, SymEngine::truncate)
FUN1(conjugate, SymEngine::conjugate)
FUN2(atan2, SymEngine::atan2)
FUN2(kronecker_delta, SymEngine::kronecker_delta)
FUN1(primepi, SymEngine::primepi)
FUN1(primorial, SymEngine::primorial)
FUN1(unevaluated_expr, SymEngine::unevaluated_expr)
FUN1(trig_to_sqrt, SymEngine::trig_to_sqrt)

OP(levi_civita)
{
    return Val::basic(levi_civita(argVecB(a, 0)));
}
OP(max)
{
    return Val::basic(SymEngine::max(argVecB(a, 0)));
}
OP(min)
{
    return Val::basic(SymEngine::min(argVecB(a, 0)));
}
OP(function_symbol)
{
    return Val::basic(function_symbol(argStr(a, 0), argVecB(a, 1)));
}
OP(could_extract_minus)
{
    return Val::boolean(could_extract_minus(*argB(a, 0)));
}
