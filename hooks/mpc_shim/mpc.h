/* Declaration-only stand-in for <mpc.h> (GNU MPC 1.3.1).
 *
 * The sandbox has the MPC runtime (/usr/lib/x86_64-linux-gnu/libmpc.so.3) but not
 * its development header.  This file declares exactly the types, constants and
 * entry points that SymEngine (symengine/mp_class.h, complex_mpc.cpp, eval_mpc.cpp,
 * eval.cpp, cwrapper.cpp), its unit tests and the verification driver use.  Every
 * function below is an exported `T` symbol of libmpc.so.3 (checked with `nm -D`);
 * the type layout and the rounding-mode / inexact-flag encodings are those of the
 * upstream header (DESIGN.md 2.5 and Appendix A).  Nothing here defines code.
 */
#ifndef VERIF_MPC_SHIM_H
#define VERIF_MPC_SHIM_H

#include <gmp.h>
#include <mpfr.h>

typedef struct {
    mpfr_t re;
    mpfr_t im;
} __mpc_struct;
typedef __mpc_struct mpc_t[1];
typedef __mpc_struct *mpc_ptr;
typedef const __mpc_struct *mpc_srcptr;
typedef int mpc_rnd_t;

#define MPC_VERSION_MAJOR 1
#define MPC_VERSION_MINOR 3
#define MPC_VERSION_PATCHLEVEL 1
#define MPC_VERSION_STRING "1.3.1"

#define MPC_RND(r1, r2) (((int)(r1)) + ((int)(r2) << 4))
#define MPC_RND_RE(x) ((mpfr_rnd_t)((x)&0x0F))
#define MPC_RND_IM(x) ((mpfr_rnd_t)((x) >> 4))
#define MPC_RNDNN MPC_RND(MPFR_RNDN, MPFR_RNDN)
#define MPC_RNDNZ MPC_RND(MPFR_RNDN, MPFR_RNDZ)
#define MPC_RNDZN MPC_RND(MPFR_RNDZ, MPFR_RNDN)
#define MPC_RNDZZ MPC_RND(MPFR_RNDZ, MPFR_RNDZ)

#define MPC_INEX_POS(inex) (((inex) < 0) ? 2 : ((inex) == 0) ? 0 : 1)
#define MPC_INEX_NEG(inex) (((inex) == 2) ? -1 : ((inex) == 0) ? 0 : 1)
#define MPC_INEX(inex_re, inex_im)                                             \
    (MPC_INEX_POS(inex_re) | (MPC_INEX_POS(inex_im) << 2))
#define MPC_INEX_RE(inex) MPC_INEX_NEG((inex)&3)
#define MPC_INEX_IM(inex) MPC_INEX_NEG((inex) >> 2)

#define mpc_realref(x) ((x)->re)
#define mpc_imagref(x) ((x)->im)

#ifdef __cplusplus
extern "C" {
#endif

/* life cycle, precision */
void mpc_init2(mpc_ptr, mpfr_prec_t);
void mpc_clear(mpc_ptr);
mpfr_prec_t mpc_get_prec(mpc_srcptr);
void mpc_set_prec(mpc_ptr, mpfr_prec_t);
void mpc_swap(mpc_ptr, mpc_ptr);
const char *mpc_get_version(void);

/* assignment */
int mpc_set(mpc_ptr, mpc_srcptr, mpc_rnd_t);
int mpc_set_ui(mpc_ptr, unsigned long int, mpc_rnd_t);
int mpc_set_ui_ui(mpc_ptr, unsigned long int, unsigned long int, mpc_rnd_t);
int mpc_set_si_si(mpc_ptr, long int, long int, mpc_rnd_t);
int mpc_set_d(mpc_ptr, double, mpc_rnd_t);
int mpc_set_d_d(mpc_ptr, double, double, mpc_rnd_t);
int mpc_set_z(mpc_ptr, mpz_srcptr, mpc_rnd_t);
int mpc_set_q(mpc_ptr, mpq_srcptr, mpc_rnd_t);
int mpc_set_q_q(mpc_ptr, mpq_srcptr, mpq_srcptr, mpc_rnd_t);
int mpc_set_fr(mpc_ptr, mpfr_srcptr, mpc_rnd_t);
int mpc_set_fr_fr(mpc_ptr, mpfr_srcptr, mpfr_srcptr, mpc_rnd_t);
int mpc_set_str(mpc_ptr, const char *, int, mpc_rnd_t);

/* projections, comparison */
int mpc_real(mpfr_ptr, mpc_srcptr, mpfr_rnd_t);
int mpc_imag(mpfr_ptr, mpc_srcptr, mpfr_rnd_t);
int mpc_abs(mpfr_ptr, mpc_srcptr, mpfr_rnd_t);
int mpc_cmp(mpc_srcptr, mpc_srcptr);
int mpc_cmp_si_si(mpc_srcptr, long int, long int);
int mpc_conj(mpc_ptr, mpc_srcptr, mpc_rnd_t);

/* arithmetic */
int mpc_add(mpc_ptr, mpc_srcptr, mpc_srcptr, mpc_rnd_t);
int mpc_add_fr(mpc_ptr, mpc_srcptr, mpfr_srcptr, mpc_rnd_t);
int mpc_sub(mpc_ptr, mpc_srcptr, mpc_srcptr, mpc_rnd_t);
int mpc_sub_fr(mpc_ptr, mpc_srcptr, mpfr_srcptr, mpc_rnd_t);
int mpc_fr_sub(mpc_ptr, mpfr_srcptr, mpc_srcptr, mpc_rnd_t);
int mpc_mul(mpc_ptr, mpc_srcptr, mpc_srcptr, mpc_rnd_t);
int mpc_mul_fr(mpc_ptr, mpc_srcptr, mpfr_srcptr, mpc_rnd_t);
int mpc_div(mpc_ptr, mpc_srcptr, mpc_srcptr, mpc_rnd_t);
int mpc_div_fr(mpc_ptr, mpc_srcptr, mpfr_srcptr, mpc_rnd_t);
int mpc_fr_div(mpc_ptr, mpfr_srcptr, mpc_srcptr, mpc_rnd_t);
int mpc_ui_div(mpc_ptr, unsigned long int, mpc_srcptr, mpc_rnd_t);
int mpc_pow(mpc_ptr, mpc_srcptr, mpc_srcptr, mpc_rnd_t);
int mpc_pow_fr(mpc_ptr, mpc_srcptr, mpfr_srcptr, mpc_rnd_t);
int mpc_pow_d(mpc_ptr, mpc_srcptr, double, mpc_rnd_t);
int mpc_pow_ui(mpc_ptr, mpc_srcptr, unsigned long int, mpc_rnd_t);

/* elementary functions */
int mpc_exp(mpc_ptr, mpc_srcptr, mpc_rnd_t);
int mpc_log(mpc_ptr, mpc_srcptr, mpc_rnd_t);
int mpc_sin(mpc_ptr, mpc_srcptr, mpc_rnd_t);
int mpc_cos(mpc_ptr, mpc_srcptr, mpc_rnd_t);
int mpc_tan(mpc_ptr, mpc_srcptr, mpc_rnd_t);
int mpc_sinh(mpc_ptr, mpc_srcptr, mpc_rnd_t);
int mpc_cosh(mpc_ptr, mpc_srcptr, mpc_rnd_t);
int mpc_tanh(mpc_ptr, mpc_srcptr, mpc_rnd_t);
int mpc_asin(mpc_ptr, mpc_srcptr, mpc_rnd_t);
int mpc_acos(mpc_ptr, mpc_srcptr, mpc_rnd_t);
int mpc_atan(mpc_ptr, mpc_srcptr, mpc_rnd_t);
int mpc_asinh(mpc_ptr, mpc_srcptr, mpc_rnd_t);
int mpc_acosh(mpc_ptr, mpc_srcptr, mpc_rnd_t);
int mpc_atanh(mpc_ptr, mpc_srcptr, mpc_rnd_t);

#ifdef __cplusplus
}
#endif

#endif /* VERIF_MPC_SHIM_H */
