// Verification hook (guard: SYMENGINE_VERIF). Force-included by the
// verification builds (-DSYMENGINE_VERIF -include .../verif_hooks.h).
// symengine_assert.h only defines SYMENGINE_ASSERT if it is not defined
// yet, so pre-defining it here makes every library assertion throw a
// catchable, attributable exception instead of calling abort().  Nothing in
// /repo is edited for this.
#ifndef VERIF_HOOKS_H
#define VERIF_HOOKS_H
#if defined(SYMENGINE_VERIF) && defined(__cplusplus)
#include <stdexcept>
#include <string>
namespace SymEngine
{
class VerifAssertFailure : public std::logic_error
{
public:
    VerifAssertFailure(const char *file, int line, const char *cond)
        : std::logic_error(std::string("SYMENGINE_ASSERT failed: ") + file
                           + ":" + std::to_string(line) + ": " + cond)
    {
    }
};
} // namespace SymEngine
#define SYMENGINE_ASSERT(cond)                                                 \
    {                                                                          \
        if (!(cond)) {                                                         \
            throw SymEngine::VerifAssertFailure(__FILE__, __LINE__, #cond);    \
        }                                                                      \
    }
#define SYMENGINE_ASSERT_MSG(cond, msg)                                        \
    {                                                                          \
        if (!(cond)) {                                                         \
            throw SymEngine::VerifAssertFailure(__FILE__, __LINE__, #cond);    \
        }                                                                      \
    }
#endif
#endif
