"""C09 expand is value-preserving, complete, idempotent and decides identity."""
import os
import sys
from fractions import Fraction

sys.path.insert(0, os.path.join(os.path.dirname(os.path.abspath(__file__)), ".."))
from hypothesis import strategies as st
from pbt import engine, gen, pools
from pbt.engine import Violation, R, B, is_exc
from pbt import oracle_num as on
from pbt.valuecheck import ValueCheck

SYMS = ["x", "y", "z"]
FUNCS = {"Sin", "Cos", "Tan", "Cot", "Csc", "Sec", "ASin", "ACos", "ATan", "Log", "Abs", "FunctionSymbol", "Gamma", "Sinh", "Cosh",
         "Tanh", "Erf", "Sign", "Floor", "Ceiling", "Conjugate", "Max", "Min", "Derivative", "Subs", "Piecewise"}


# ---------------------------------------------------------------- polynomial reference
def pmul(a, b):
    out = {}
    for ma, ca in a.items():
        for mb, cb in b.items():
            d = dict(ma)
            for s, e in mb:
                d[s] = d.get(s, 0) + e
            m = tuple(sorted((s, e) for s, e in d.items() if e))
            out[m] = out.get(m, 0) + ca * cb
    return {m: c for m, c in out.items() if c != 0}


def padd(a, b, sign=1):
    out = dict(a)
    for m, c in b.items():
        out[m] = out.get(m, 0) + sign * c
    return {m: c for m, c in out.items() if c != 0}


def poly(r):
    """recipe -> {monomial: Fraction} or None when outside the polynomial fragment"""
    h = r[0]
    if h == "integer":
        return {(): Fraction(r[1])} if r[1] else {}
    if h == "rational":
        return {(): Fraction(r[1], r[2])}
    if h == "symbol":
        return {((r[1], 1),): Fraction(1)}
    if h in ("add", "sub", "mul"):
        a, b = poly(r[1]), poly(r[2])
        if a is None or b is None:
            return None
        return pmul(a, b) if h == "mul" else padd(a, b, 1 if h == "add" else -1)
    if h == "neg":
        a = poly(r[1])
        return None if a is None else {m: -c for m, c in a.items()}
    if h in ("add_vec", "mul_vec"):
        acc = {} if h == "add_vec" else {(): Fraction(1)}
        for x in r[1][1:]:
            p = poly(x)
            if p is None:
                return None
            acc = padd(acc, p) if h == "add_vec" else pmul(acc, p)
        return acc
    if h == "pow":
        if r[2][0] != "integer" or r[2][1] < 0:
            return None
        a = poly(r[1])
        if a is None:
            return None
        if r[2][1] == 0:
            return {(): Fraction(1)}
        acc = {(): Fraction(1)}
        for _ in range(r[2][1]):
            acc = pmul(acc, a)
            if len(acc) > 3000:
                return None
        return acc
    return None


def dump_poly(d):
    """expanded dump -> {monomial: Fraction}; raises ValueError when the dump is not a flat polynomial"""
    def num(x):
        if x[0] == "Integer":
            return Fraction(int(x[1]))
        if x[0] == "Rational":
            return Fraction(int(x[1]), int(x[2]))
        raise ValueError("coefficient %s" % (x,))

    def mono(t):
        if t[0] == "Symbol":
            return ((t[1], 1),), Fraction(1)
        if t[0] == "Pow" and t[1][0] == "Symbol" and t[2][0] == "Integer" and int(t[2][1]) > 0:
            return ((t[1][1], int(t[2][1])),), Fraction(1)
        if t[0] == "Mul":
            c = num(t[1])
            d = {}
            for b, e in t[2]:
                if b[0] != "Symbol" or e[0] != "Integer" or int(e[1]) <= 0 or b[1] in d:
                    raise ValueError("factor %s**%s" % (b, e))
                d[b[1]] = int(e[1])
            return tuple(sorted(d.items())), c
        raise ValueError("term %s" % (t,))
    if d[0] in ("Integer", "Rational"):
        c = num(d)
        return {(): c} if c else {}
    if d[0] == "Add":
        out = {}
        c0 = num(d[1])
        if c0:
            out[()] = c0
        for term, coef in d[2]:
            m, c = mono(term)
            if m in out:
                raise ValueError("monomial %s appears twice" % (m,))
            out[m] = c * num(coef)
        return out
    m, c = mono(d)
    return {m: c}


def unexpanded(d, path="result"):
    """a place where the dump still holds a product or positive integer power of a sum (outside function arguments)"""
    t = d[0]
    if t in FUNCS or t not in ("Add", "Mul", "Pow"):
        return None
    if t == "Add":
        for term, coef in d[2]:
            u = unexpanded(term, path + "/term")
            if u:
                return u
        return None
    if t == "Mul":
        for b, e in d[2]:
            if b[0] == "Add" and e[0] == "Integer" and int(e[1]) > 0:
                return "%s: Mul with factor (sum)**%s" % (path, e[1])
            u = unexpanded(b, path + "/base")
            if u:
                return u
        return None
    if t == "Pow":
        if d[1][0] == "Add" and d[2][0] == "Integer" and int(d[2][1]) > 0:
            return "%s: (sum)**%s" % (path, d[2][1])
        if d[2][0] == "Integer" or d[2][0] == "Rational":
            return unexpanded(d[1], path + "/base")
    return None


class C09(ValueCheck):
    pid = "C09"
    timeout = 60.0
    rule = ("expression trees (Hypothesis recursive, <= 9 leaves quick / 12 thorough) over sums, products and integer powers "
            "(-4..6) of exact numbers (integers, rationals, a few Gaussian), symbols x y z and opaque function applications "
            "(sin(x+y), f(x), exp(x+1), abs, log; rational powers of sums are outside the statement's domain), plus dedicated product-of-sums / power-of-multinomial shapes. Judged per case: (1) "
            "value(expand(e)) == value(e) at 3 generic complex points (mpmath, 1e-25); (2) the expanded dump holds no product "
            "or positive integer power of a sum outside function arguments; (3) expand(expand(e)) eq expand(e); (4) on the "
            "polynomial fragment the dump must encode exactly the dictionary of an independent Fraction polynomial model, a "
            "commuted/re-associated variant of e must expand to an eq result and a perturbed one to a non-eq result; "
            "(5) expand(e, deep=false) preserves the value. Non-trivial: e contains a product of sums or a power of a sum "
            "with >= 2 terms; distinct by recipe.")
    assumptions = ["mpmath and Python Fractions are the reference", "library exceptions decline a case"]
    tiers = {"quick": {"examples": 2000}, "thorough": {"examples": 200000}}
    case_timeout = 12

    def strategy(self, tier):
        num = gen.weighted([(6, st.integers(-6, 6).map(lambda n: ["integer", n])),
                            (3, st.builds(gen._rat, st.integers(-9, 9), st.integers(2, 5))), (1, gen.gaussian(big=False))])
        s = gen.sym(SYMS)
        opaque = st.one_of(st.builds(lambda a, b: ["sin", ["add", a, b]], s, s),
                           st.builds(lambda a: ["function_symbol", "f", ["list", a]], s),
                           st.builds(lambda a, k: ["exp", ["add", a, ["integer", k]]], s, st.integers(1, 3)),
                           st.builds(lambda f, a: [f, a], st.sampled_from(["abs", "log", "cos"]), s))
        leaves = gen.weighted([(4, num), (6, s), (1, opaque)])
        ipow = st.integers(-4, 6).filter(lambda n: n not in (0, 1)).map(lambda n: ["integer", n])

        def special(ch):
            summ = st.lists(ch, min_size=2, max_size=4).map(lambda xs: ["add_vec", ["list"] + xs])
            return st.one_of(st.builds(lambda b, e: ["pow", b, e], ch, ipow),
                             st.builds(lambda a, b: ["mul", a, b], summ, summ),
                             st.builds(lambda a, e: ["pow", a, e], summ, st.integers(2, 6 if tier == "thorough" else 4).map(lambda n: ["integer", n])),
                             st.builds(lambda xs: ["mul_vec", ["list"] + xs], st.lists(ch, min_size=2, max_size=4)))
        t = gen.tree(leaves, unary=("neg",), binary=("add", "sub", "mul", "mul"), max_leaves=8 if tier == "quick" else 12,
                     special=special)
        # products of two sums whose monomials cancel to a number (m * 1/m), inside a sum and under a coefficient:
        # the collapsed-constant path of the sum x sum expansion
        X, Y = ["symbol", "x"], ["symbol", "y"]
        mono = st.sampled_from([X, Y, ["mul", X, Y], ["pow", X, ["integer", 2]], ["function_symbol", "f", ["list", X]],
                                ["mul", ["integer", 2], X], ["pow", Y, ["integer", -1]]])
        small = st.one_of(num, s, st.builds(lambda a, b: ["mul", a, b], num, s))
        recip = st.builds(lambda m, a, b, c, rest, k: ["add", rest, ["mul", c, ["mul", ["add", m, a], ["add", ["pow", m, ["integer", -k]], b]]]],
                          mono, small, small, num, st.one_of(s, num, st.builds(lambda a, b: ["add", a, b], s, num)), st.integers(1, 2))
        recip2 = st.builds(lambda m, a, b, c, rest: ["sub", rest, ["mul", c, ["mul", ["add_vec", ["list", m, a, ["pow", m, ["integer", -1]]]],
                                                                          ["add_vec", ["list", ["pow", m, ["integer", -1]], b, m]]]]],
                           mono, small, small, num, s)
        return st.fixed_dictionaries({"e": st.one_of(t, t, t, recip, recip2), "envs": gen.envs(names=SYMS, n=3)})

    FUNCS_ENV = {"f": lambda u: 0.5 * u * u + 0.25 * u + 1}

    def judge(self, case):
        rec = case["e"]
        funcs = {"f": lambda u: u * u / 2 + u / 4 + 1}
        refs, blocked = self.references(rec, case["envs"], funcs=funcs)
        if blocked:
            self.skip("ref:overflow")
            return
        var = pools.regroup(pools.commute(rec))
        pert = ["add", rec, ["symbol", "x"]]
        stmts = [["let", rec], ["expand", R(0)], ["expand", R(1)], ["eq", R(1), R(2)], ["expand", R(0), False],
                 ["let", var], ["expand", R(5)], ["eq", R(1), R(6)], ["expand", pert], ["eq", R(1), R(8)]]
        res = self.run(stmts)
        if is_exc(res[0]) or is_exc(res[1]):
            r = res[0] if is_exc(res[0]) else res[1]
            self.skip("assert_seen" if r["exc"] == "VerifAssertFailure" else "declined:" + r["exc"])
            return
        got = B(res[1])
        desc = engine.sx(rec)[:300]
        self.cls("expand")
        # (1) value
        judged = self.compare(rec, got, case["envs"], refs, funcs=funcs, what="expand(e)")
        # (2) completeness
        u = unexpanded(got)
        if u:
            raise Violation("%s: expand left %s in %s" % (desc, u, got), {"recipe": rec, "result": got})
        # (3) idempotence
        if not is_exc(res[3]) and res[3] is not True:
            raise Violation("%s: expand(expand(e)) is not eq to expand(e): %s vs %s" % (desc, got, B(res[2])),
                            {"recipe": rec, "once": got, "twice": B(res[2])})
        # (5) deep=false preserves the value
        if not is_exc(res[4]):
            self.compare(rec, B(res[4]), case["envs"], refs, funcs=funcs, what="expand(e, deep=false)")
        # (4) polynomial identity
        p = poly(rec)
        if p is not None:
            self.cls("polynomial")
            try:
                dp = dump_poly(got)
            except ValueError as e:
                raise Violation("%s: expansion of a polynomial is not a flat sum of monomials (%s): %s" % (desc, e, got),
                                {"recipe": rec, "result": got})
            if dp != p:
                diff = {m: (p.get(m), dp.get(m)) for m in set(p) | set(dp) if p.get(m) != dp.get(m)}
                raise Violation("%s: expanded polynomial differs from the reference in %s" % (desc, dict(list(diff.items())[:4])),
                                {"recipe": rec, "result": got})
            if not is_exc(res[7]) and res[7] is not True:
                raise Violation("%s: a commuted/re-associated form of the same polynomial expands to a non-eq result: %s vs %s"
                                % (desc, got, B(res[6]) if not is_exc(res[6]) else res[6]), {"recipe": rec, "variant": var})
            if not is_exc(res[9]) and res[9] is True:
                raise Violation("%s: e and e + x expand to eq results" % desc, {"recipe": rec})
        if judged or p is not None:
            if self.has_product_of_sums(rec):
                self.nontriv(rec)
                self.cls("nontrivial")
            self.sample({"e": desc, "expanded": engine.sx(["str", rec])[:10] and got})

    @staticmethod
    def has_product_of_sums(r):
        def is_sum(x):
            return isinstance(x, list) and x and (x[0] in ("add", "sub") or (x[0] == "add_vec" and len(x[1]) > 2))
        if not isinstance(r, list) or not r:
            return False
        if r[0] == "mul" and (is_sum(r[1]) or is_sum(r[2])):
            return True
        if r[0] == "mul_vec" and any(is_sum(x) for x in r[1][1:]):
            return True
        if r[0] == "pow" and is_sum(r[1]) and r[2][0] == "integer" and r[2][1] >= 2:
            return True
        return any(C09.has_product_of_sums(x) for x in r[1:] if isinstance(x, list))


def has_neg_power_of_sum(d):
    if isinstance(d, list):
        if d and d[0] == "Pow" and d[1][0] == "Add" and d[2][0] == "Integer" and int(d[2][1]) <= -2:
            return True
        if d and d[0] == "Mul":
            for b, e in d[2]:
                if b[0] == "Add" and e[0] == "Integer" and int(e[1]) <= -2:
                    return True
        return any(has_neg_power_of_sum(x) for x in d)
    return False


def m_expand_negative_power_not_idempotent(case, v):
    """KF-C09-01: a sum raised to an integer power <= -2 that arises *during* expansion ((S**-1)**2 -> S**-2) is left
    as it is, while expand applied to S**-2 itself rewrites it to (expand(S**2))**-1: expand is not idempotent there"""
    return "expand(expand(e)) is not eq" in v.msg and isinstance(v.detail, dict) and has_neg_power_of_sum(v.detail.get("once"))


C09.matchers = {"expand_negative_power_not_idempotent": m_expand_negative_power_not_idempotent}


if __name__ == "__main__":
    sys.exit(engine.main(C09))
