"""C38 Finite-difference weights are exact.

generate_fdiff_weights_vector(grid, max_deriv, around) returns a vector of length
len(grid)*(max_deriv+1) with weights[i + k*len(grid)] = weight of grid point i for derivative
order k (finitediff.cpp: "weights[grid_index, deriv_order] ... column major").  Oracle: the exact
moment conditions  sum_i w[i,k] * g_i**m == m!/(m-k)! * c**(m-k)  (0 for k > m) for every monomial
degree m < len(grid) and every k <= max_deriv, in Fractions.  For symbolic grids the returned
expressions are evaluated exactly (Fractions) at rational values of the symbols."""
import math
import os
import sys
from fractions import Fraction

sys.path.insert(0, os.path.join(os.path.dirname(os.path.abspath(__file__)), ".."))
from hypothesis import strategies as st
from pbt import engine
from pbt.engine import Check, Violation, R, B, is_exc

SYMS = ["h", "a", "b"]


class Unsupported(Exception):
    pass


def ev(d, env):
    """exact value of a raw dump built from Integer/Rational/Symbol/Add/Mul/Pow(integer exponent)"""
    t = d[0]
    if t == "Integer":
        return Fraction(int(d[1]))
    if t == "Rational":
        return Fraction(int(d[1]), int(d[2]))
    if t == "Symbol":
        if d[1] not in env:
            raise Unsupported("symbol " + d[1])
        return env[d[1]]
    if t == "Add":
        s = ev(d[1], env)
        for term, coef in d[2]:
            s += ev(term, env) * ev(coef, env)
        return s
    if t == "Mul":
        p = ev(d[1], env)
        for base, exp in d[2]:
            p *= _pow(ev(base, env), ev(exp, env))
        return p
    if t == "Pow":
        return _pow(ev(d[1], env), ev(d[2], env))
    raise Unsupported(t)


def _pow(b, e):
    if e.denominator != 1:
        raise Unsupported("fractional exponent")
    e = e.numerator
    if e < 0 and b == 0:
        raise ZeroDivisionError
    return b ** e


# points: ["q", "p/q"]  or  ["lin", [[sym, "p/q"], ...], "p/q"]  (sum coef*sym + const)
def point_value(p, env):
    if p[0] == "q":
        return Fraction(p[1])
    v = Fraction(p[2])
    for s, c in p[1]:
        v += Fraction(c) * env[s]
    return v


def qrec(q):
    q = Fraction(q)
    return ["integer", q.numerator] if q.denominator == 1 else ["rational", q.numerator, q.denominator]


def point_recipe(p):
    if p[0] == "q":
        return qrec(p[1])
    terms = [["mul", qrec(c), ["symbol", s]] for s, c in p[1] if Fraction(c) != 0]
    r = qrec(p[2])
    for t in terms:
        r = ["add", r, t]
    return r


def point_key(p):
    if p[0] == "q":
        return ((), Fraction(p[1]))
    co = {}
    for s, c in p[1]:
        co[s] = co.get(s, 0) + Fraction(c)
    return (tuple(sorted((s, c) for s, c in co.items() if c != 0)), Fraction(p[2]))


def moments_ok(w, g, c, n, md):
    """first violated condition (k, m, lhs, rhs) or None"""
    for k in range(md + 1):
        for m in range(n):
            lhs = sum(w[i + k * n] * g[i] ** m for i in range(n))
            if k > m:
                rhs = Fraction(0)
            else:
                rhs = Fraction(math.factorial(m), math.factorial(m - k)) * c ** (m - k)
            if lhs != rhs:
                return (k, m, lhs, rhs)
    return None


# ------------------------------------------------------------------ strategies
def fr(n, d):
    return str(Fraction(n, d))


small_q = st.builds(fr, st.integers(-12, 12), st.integers(1, 6))
wide_q = st.one_of(small_q, small_q, st.builds(fr, st.integers(-10 ** 6, 10 ** 6), st.integers(1, 10 ** 4)),
                   st.builds(fr, st.integers(-2 ** 70, 2 ** 70), st.integers(1, 2 ** 40)))
qpoint = wide_q.map(lambda q: ["q", q])


def distinct(points):
    seen = set()
    out = []
    for p in points:
        k = point_key(p)
        if k not in seen:
            seen.add(k)
            out.append(p)
    return out


rat_grid = st.one_of(
    st.lists(qpoint, min_size=1, max_size=8).map(distinct),
    # uniform grids x0 + i*h (the textbook stencils), optionally shuffled
    st.builds(lambda x0, h, n, perm: [["q", str(Fraction(x0) + i * Fraction(h))] for i in perm(list(range(n)))],
              small_q, small_q.filter(lambda q: Fraction(q) != 0), st.integers(1, 8),
              st.one_of(st.just(lambda l: l), st.just(lambda l: l[::-1]), st.just(lambda l: l[::2] + l[1::2]))),
)
coef = st.builds(fr, st.integers(-4, 4), st.integers(1, 3))
lin_point = st.one_of(
    st.builds(lambda k: ["lin", [["h", k]], "0"], coef),                                  # k*h
    st.builds(lambda k, c: ["lin", [["h", k]], c], coef, small_q),                        # c + k*h
    st.builds(lambda k: ["lin", [["a", "1"], ["h", k]], "0"], coef),                      # a + k*h
    st.just(["lin", [["a", "1"]], "0"]), st.just(["lin", [["b", "1"]], "0"]),             # a, b
    st.builds(lambda k, l, c: ["lin", [["a", k], ["b", l]], c], coef, coef, small_q),
    qpoint,
)
sym_grid = st.lists(lin_point, min_size=1, max_size=6).map(distinct)
env_s = st.fixed_dictionaries({s: st.builds(fr, st.integers(-40, 40), st.integers(1, 9)).filter(lambda q: Fraction(q) != 0) for s in SYMS})
rat_case = st.fixed_dictionaries({"grid": rat_grid, "c": qpoint, "md": st.integers(0, 6)})
oncenter = st.builds(lambda g, i, md: {"grid": g, "c": g[i % len(g)], "md": md}, rat_grid, st.integers(0, 7), st.integers(0, 6))
sym_case = st.fixed_dictionaries({"grid": sym_grid, "c": lin_point, "md": st.integers(0, 4),
                                  "envs": st.lists(env_s, min_size=2, max_size=3)})


def fixed_cases():
    out = []
    # classical stencils
    for n in range(1, 9):
        g = [["q", str(i - n // 2)] for i in range(n)]
        for md in (0, 1, 2, n - 1, n, 6):
            out.append({"grid": g, "c": ["q", "0"], "md": max(0, min(md, 6))})
            out.append({"grid": g, "c": ["q", "1/2"], "md": max(0, min(md, 6))})
    # symbolic: h, 2h, a  / uniform around a
    e = [{"h": "1/3", "a": "5/7", "b": "-2"}, {"h": "-7/2", "a": "1/9", "b": "4/5"}]
    H = lambda k: ["lin", [["h", str(k)]], "0"]
    AH = lambda k: ["lin", [["a", "1"], ["h", str(k)]], "0"]
    A = ["lin", [["a", "1"]], "0"]
    for md in range(0, 4):
        out.append({"grid": [H(1), H(2), A], "c": ["q", "0"], "md": md, "envs": e})
        out.append({"grid": [H(1), H(2), A], "c": ["lin", [["b", "1"]], "0"], "md": md, "envs": e})
        out.append({"grid": [AH(-1), AH(0), AH(1)], "c": A, "md": md, "envs": e})
        out.append({"grid": [AH(-2), AH(-1), AH(0), AH(1), AH(2)], "c": A, "md": md, "envs": e})
        out.append({"grid": [H(0), H(1), H(2), H(3)], "c": H("1/2"), "md": md, "envs": e})
    return out


class C38(Check):
    pid = "C38"
    exe = "driver_nt"
    builds = [("main", ("driver_nt",))]
    rule = ("case = (grid of 1-8 distinct points, centre, max_deriv 0-6). Rational grids: arbitrary distinct rationals (to "
            "2^70/2^40) or shuffled uniform stencils, centre rational (on or off the grid); symbolic grids: points k*h, c+k*h, "
            "a+k*h, a, b, k*a+l*b+c with a symbolic or rational centre, max_deriv 0-4. The returned vector (layout "
            "weights[i + k*len(grid)], read from finitediff.cpp) must satisfy every exact moment condition sum_i w[i,k] g_i^m = "
            "m!/(m-k)! c^(m-k) for m < len(grid), k <= max_deriv (these determine the weights uniquely); symbolic weights are "
            "evaluated exactly at 2-3 rational assignments of the symbols. Non-trivial: non-uniform grid of >=3 points, centre "
            "off-grid, max_deriv >= 2; distinct by (grid, centre, max_deriv).")
    assumptions = ["Fraction arithmetic is the reference; the moment conditions are the definition of the property",
                   "symbolic weights are rational functions of the symbols; they are judged at rational points where all grid points are distinct"]
    tiers = {"quick": {"examples": 5000}, "thorough": {"examples": 200000}}
    min_nontrivial = 50

    def enumerate(self, tier):
        return fixed_cases()

    def strategy(self, tier):
        return st.one_of(rat_case, rat_case, oncenter, sym_case, sym_case)

    def judge(self, case):
        grid = distinct(case["grid"])
        n = len(grid)
        if n == 0:
            self.skip("empty_grid")
            return
        md = case["md"]
        c = case["c"]
        symbolic = any(p[0] != "q" for p in grid + [c])
        stmts = [["let", point_recipe(p)] for p in grid]
        stmts.append(["let", point_recipe(c)])
        stmts.append(["fdiff_weights", ["list"] + [R(i) for i in range(n)], md, R(n)])
        res = self.run(stmts)
        r = res[-1]
        self.count()
        self.cls("symbolic" if symbolic else "rational")
        self.cls("n%d_md%d" % (n, md))
        if is_exc(r):
            if r["exc"] == "VerifAssertFailure":
                self.skip("assert_seen")
            elif r["exc"] in ("Dep", "Decline"):
                self.skip("declined:" + r["exc"])
            else:
                self.skip("declined:" + r["exc"])
            return
        if not isinstance(r, list) or len(r) != n * (md + 1):
            raise Violation("weights vector has length %s, expected len(grid)*(max_deriv+1) = %d" % (
                len(r) if isinstance(r, list) else r, n * (md + 1)), {"case": case})
        dumps = [B(x) for x in r]
        envs = [{}]
        if symbolic:
            envs = [{s: Fraction(v) for s, v in e.items()} for e in case.get("envs", [])]
        judged = 0
        for env in envs:
            try:
                g = [point_value(p, env) for p in grid]
                cv = point_value(c, env)
            except KeyError:
                self.skip("env_incomplete")
                continue
            if len(set(g)) != n:
                self.skip("env_collapses_grid")
                continue
            try:
                w = [ev(d, env) for d in dumps]
            except Unsupported as u:
                if not symbolic:
                    raise Violation("weight of a rational grid is not an exact rational number (%s)" % u, {"case": case, "weights": dumps})
                self.skip("unsupported_dump")
                continue
            except ZeroDivisionError:
                if not symbolic:
                    raise Violation("weight of a rational grid contains a division by zero", {"case": case, "weights": dumps})
                self.skip("pole_at_env")
                continue
            bad = moments_ok(w, g, cv, n, md)
            if bad is not None:
                k, m, lhs, rhs = bad
                raise Violation("grid %s centre %s%s: weights of derivative order %d applied to t**%d give %s, exact value %s"
                                % ([str(x) for x in g], cv, (" at %s" % {s: str(v) for s, v in env.items()}) if symbolic else "", k, m, lhs, rhs),
                                {"case": case, "weights_order_k": [str(x) for x in w[k * n:(k + 1) * n]]})
            judged += 1
        if not judged:
            return
        if symbolic:
            self.count(judged - 1)
        uniform = n >= 2 and not symbolic and len({g[i + 1] - g[i] for i in range(n - 1)}) == 1
        if n >= 3 and md >= 2 and not uniform and point_key(c) not in {point_key(p) for p in grid}:
            self.nontriv((grid, c, md))
        self.sample({"grid": grid, "centre": c, "max_deriv": md, "weights_order_0": [str(x) for x in w[:n]]})


if __name__ == "__main__":
    sys.exit(engine.main(C38))
