"""C12 Double-precision evaluation is accurate (eval_double family, evalf at <= 53 bits)."""
import json
import math
import os
import sys

sys.path.insert(0, os.path.join(os.path.dirname(os.path.abspath(__file__)), ".."))
from hypothesis import strategies as st
from mpmath import mpf, mpc
from pbt import engine, gen
from pbt.engine import Check, Violation, B, F, R, is_exc
from pbt import oracle_num as on
from pbt import evalnum as en
from pbt.oracle_num import Unjudgeable

# ---- node types with an eval_double bvisit (symengine/eval_double.cpp; 58 overloads).
# EvalDoubleVisitor<T,C> (both evaluators), lines 28-277:
BASE_NODES = ["Integer", "Rational", "RealDouble", "Add", "Mul", "Pow", "Sin", "Cos", "Tan", "Log", "Cot", "Csc", "Sec",
              "ASin", "ACos", "ASec", "ACsc", "ATan", "ACot", "Sinh", "Csch", "Cosh", "Sech", "Tanh", "Coth", "ASinh",
              "ACsch", "ACosh", "ATanh", "ACoth", "ASech", "Constant", "Abs", "UnevaluatedExpr"]
# EvalRealDoubleVisitor only, lines 293-399:
REAL_NODES = ["ATan2", "Gamma", "LogGamma", "Erf", "Erfc", "Equality", "Unequality", "LessThan", "StrictLessThan",
              "Max", "Min", "BooleanAtom", "Piecewise"]
# EvalComplexDoubleVisitor only, lines 423-444:
COMPLEX_NODES = ["Complex", "ComplexDouble"]
# not reachable in build `main` / through the public constructors: RealMPFR, ComplexMPC (MPFR/MPC builds),
# NumberWrapper, FunctionWrapper (abstract user-extension classes), Symbol and Basic (throwing overloads).
# init_eval_double() (single dispatch table, lines 459-721) has no entry for Piecewise, BooleanAtom, UnevaluatedExpr:
SD_MISSING = ["Piecewise", "BooleanAtom", "UnevaluatedExpr"]

UNARY_BASE = ["neg", "sqrt", "cbrt", "exp", "sin", "cos", "tan", "cot", "csc", "sec", "asin", "acos", "asec", "acsc",
              "atan", "acot", "sinh", "csch", "cosh", "sech", "tanh", "coth", "asinh", "acsch", "acosh", "atanh",
              "acoth", "asech", "log", "abs", "unevaluated_expr"]
UNARY_REAL = ["gamma", "loggamma", "erf", "erfc"]
UNARY_UNSUPPORTED = ["sign", "floor", "ceiling", "truncate"]   # no bvisit in eval_double.cpp: must decline
BINARY = ["add", "sub", "mul", "div", "pow"]
RELS = ["Eq", "Ne", "Lt", "Le", "Gt", "Ge"]
CONSTS = ["pi", "E", "EulerGamma", "Catalan", "GoldenRatio"]

# known-finding tags (GUIDE "Known findings protocol"): an exclusion is applied iff self.tag_active(tag)
TAG_NEGPOW = "evalf_symbolic_negative_base_integer_power"     # KF-C12-01
TAG_GAMMA = "gamma_half_integer_int_overflow"                  # gamma_multiple_2 `int` product (crasher)

I = lambda n: ["integer", n]
Q = lambda a, b: gen._rat(a, b)
L = lambda *a: ["list"] + list(a)


def real_leaves():
    small = st.integers(-12, 12).map(I)
    mid = st.integers(-1000, 1000).map(I)
    big = st.one_of(st.sampled_from(gen.interesting_ints()), st.integers(-2 ** 70, 2 ** 70)).map(I)
    rat = st.builds(Q, st.integers(-30, 30), st.integers(1, 12))
    brat = st.builds(Q, st.integers(-2 ** 70, 2 ** 70), st.integers(1, 2 ** 66))
    dbl = st.one_of(st.sampled_from(gen.FLOAT_POOL),
                    st.floats(-100, 100, allow_nan=False, allow_infinity=False).map(gen._moderate)).map(
        lambda f: ["real_double", f])
    con = st.sampled_from(CONSTS).map(lambda n: ["constant", n])
    return en.weighted([(6, small), (1, mid), (1, big), (4, rat), (1, brat), (3, dbl), (4, con)])


def complex_leaves():
    part = st.builds(Q, st.integers(-12, 12), st.integers(1, 6))
    nz = part.filter(lambda q: q != ["integer", 0])
    cx = st.builds(lambda a, b: ["complex", a, b], part, nz)
    cd = st.builds(lambda a, b: ["complex_double", a, b], st.sampled_from(gen.FLOAT_POOL[:14]),
                   st.sampled_from(gen.FLOAT_POOL[:14]))
    return en.weighted([(3, real_leaves()), (4, cx), (3, cd), (1, st.just(["constant", "I"]))])


def real_tree(max_leaves, unsupported=False):
    un = UNARY_BASE + UNARY_REAL * 2 + (UNARY_UNSUPPORTED if unsupported else [])

    def ext(ch):
        rel = st.builds(lambda o, a, b: [o, a, b], st.sampled_from(RELS), ch, ch)
        cond = en.weighted([(3, rel), (1, st.sampled_from([["true"], ["false"]]))])
        pw = st.builds(lambda ps, last: ["piecewise", L(*([L(e, c) for e, c in ps] + [L(last, ["true"])]))],
                       st.lists(st.tuples(ch, cond), min_size=1, max_size=3), ch)
        return en.weighted([
            (8, st.builds(lambda o, a: [o, a], st.sampled_from(un), ch)),
            (3, st.builds(lambda o, a, b: [o, a, b], st.sampled_from(BINARY), ch, ch)),
            (1, st.builds(lambda a, n: ["pow", a, I(n)], ch, st.integers(-4, 5))),
            (1, st.builds(lambda a, b: ["atan2", a, b], ch, ch)),
            (2, st.builds(lambda o, xs: [o, L(*xs)], st.sampled_from(["max", "min", "max", "min", "add_vec", "mul_vec"]),
                          st.lists(ch, min_size=2, max_size=4))),
            (1, pw), (1, rel)])
    return st.recursive(real_leaves(), ext, max_leaves=max_leaves)


def complex_tree(max_leaves):
    def ext(ch):
        return en.weighted([
            (6, st.builds(lambda o, a: [o, a], st.sampled_from(UNARY_BASE), ch)),
            (3, st.builds(lambda o, a, b: [o, a, b], st.sampled_from(BINARY), ch, ch)),
            (1, st.builds(lambda a, n: ["pow", a, I(n)], ch, st.integers(-4, 5))),
            (1, st.builds(lambda o, xs: [o, L(*xs)], st.sampled_from(["add_vec", "mul_vec"]),
                          st.lists(ch, min_size=2, max_size=3)))])
    return st.recursive(complex_leaves(), ext, max_leaves=max_leaves)


def negbase_intpow(d):
    """does the (real) dump contain base**n with an Integer exponent n != 1 and a negative base value"""
    found = [False]

    def check(b):
        try:
            if en.plain_value(b, None, False, None, 40) < 0:
                found[0] = True
        except Unjudgeable:
            pass

    def walk(x):
        if found[0] or not isinstance(x, list) or not x:
            return
        if isinstance(x[0], str):
            if x[0] == "Pow" and x[2][0] == "Integer":
                check(x[1])
            if x[0] == "Mul":
                for base, ex in x[2]:
                    if ex[0] == "Integer" and ex[1] != "1":
                        check(base)
            for y in x[1:]:
                walk(y)
        else:
            for y in x:
                walk(y)
    walk(d)
    return found[0]


def finite(x):
    return x is not None and x == x and x not in (float("inf"), float("-inf"))


class C12(Check):
    pid = "C12"
    exe = "driver_eval"
    builds = [("main", ("driver_eval",))]
    rule = ("symbol-free recipe trees (Hypothesis recursive, <= 9 leaves quick / 12 thorough, plus a deterministic table "
            "function x argument-shape) over every node type with an eval_double bvisit (eval_double.cpp: 34 shared, "
            "13 real-only, 2 complex-only; RealMPFR/ComplexMPC/NumberWrapper/FunctionWrapper unreachable in build main). "
            "A deterministic repair pass moves every argument into the function's real domain (real mode) or off "
            "branch cuts/poles (complex mode) and keeps magnitudes in [1e-9,1e7].  Reference: mpmath value of the "
            "recipe (35/70 digits) which must equal the value of the constructed tree; tolerance 64*2^-53*E where "
            "E = sum over all rounding points of the constructed tree of |d result/d log value| (every interior node, "
            "every leaf that is not an exactly representable double, every summand of an Add, the argument of the "
            "reciprocal inverse functions; two-sided single-point perturbation by 2^-30), kappa=E/|result|>1e4 => "
            "ill_conditioned.  eval_double, "
            "eval_double_single_dispatch, eval_double_visitor_pattern, eval_complex_double, evalf(bits<=53, "
            "real|complex|symbolic) are judged; the three real evaluators must agree within 4 ulp (kappa-tolerance "
            "when exp(x) is present: single dispatch computes pow(E,x)).  Known findings (tags evalf_symbolic_negative_base_integer_power, gamma_half_integer_int_overflow) are "
            "excluded narrowly only while their tag is active, counted under skipped['known:*'].  Non-trivial: constructed tree with >= 3 "
            "distinct node types; distinct by recipe.  classes: node:<T> = judged eval_double cases containing T, "
            "sd:/cx:/evalf: likewise per evaluator.")
    assumptions = ["mpmath principal branches are the reference (DESIGN 3.5: asec x = acos(1/x) ...)",
                   "glibc libm functions are accurate to a few ulp (covered by the factor 64)",
                   "library exceptions decline a case; NaN/inf where the reference is finite and well-conditioned is a violation"]
    tiers = {"quick": {"examples": 7000}, "thorough": {"examples": 280000}}

    # ------------------------------------------------------------------ generation
    def enumerate(self, tier):
        """every supported node type in >= 6 argument shapes (guaranteed coverage, also of the domain edges)"""
        args = [["add", ["sin", I(1)], Q(1, 3)], ["mul", ["constant", "pi"], Q(2, 7)], ["sub", ["cos", I(2)], ["real_double", 0.25]],
                ["neg", ["exp", Q(1, 2)]], ["div", ["constant", "E"], I(-3)], ["pow", ["constant", "GoldenRatio"], Q(5, 2)],
                ["add", ["constant", "EulerGamma"], ["constant", "Catalan"]], ["mul", I(7), ["tanh", Q(3, 4)]],
                Q(5, 7), I(3), ["real_double", -1.75], ["sqrt", I(7)]]
        for f in UNARY_BASE + UNARY_REAL + UNARY_UNSUPPORTED:
            for a in args:
                yield {"mode": "real", "e": en.repair(["add", [f, a], Q(1, 7)])[0], "bits": 53}
                yield {"mode": "real", "e": en.repair([f, ["mul", a, ["constant", "Catalan"]]])[0], "bits": 30}
        for i, a in enumerate(args):
            b = args[(i + 5) % len(args)]
            c = args[(i + 7) % len(args)]
            for o in BINARY + ["atan2"] + RELS:
                yield {"mode": "real", "e": en.repair([o, a, b])[0], "bits": 53}
                yield {"mode": "real", "e": en.repair([o, b, ["sin", a]])[0], "bits": 12}
            for o in ("max", "min", "add_vec", "mul_vec"):
                yield {"mode": "real", "e": en.repair([o, L(a, b, c)])[0], "bits": 53}
                yield {"mode": "real", "e": en.repair([o, L(c, ["cos", a], ["sin", b], ["atan", c])])[0], "bits": 53}
            for o in RELS:
                yield {"mode": "real", "e": en.repair(["piecewise", L(L(a, [o, b, c]), L(["sin", c], ["true"]))])[0], "bits": 53}
                yield {"mode": "real", "e": en.repair(["piecewise", L(L(a, [o, ["sin", b], ["sin", c]]), L(b, [o, a, ["cos", c]]),
                                                                 L(c, ["true"]))])[0], "bits": 53}
            yield {"mode": "real", "e": en.repair(["unevaluated_expr", ["add", a, ["unevaluated_expr", b]]])[0], "bits": 53}
        cargs = [["complex", Q(1, 3), Q(2, 5)], ["complex_double", 0.5, -1.5], ["add", ["sin", I(1)], ["constant", "I"]],
                 ["mul", ["complex", I(2), I(-1)], ["constant", "pi"]], ["exp", ["complex", Q(1, 2), Q(3, 4)]],
                 ["sub", ["complex_double", -2.5, 0.1], ["sqrt", I(2)]]]
        for f in UNARY_BASE:
            for a in cargs:
                yield {"mode": "complex", "e": en.repair(["add", [f, a], Q(1, 7)], True)[0], "bits": 53}
        for i, a in enumerate(cargs):
            b = cargs[(i + 1) % len(cargs)]
            for o in BINARY:
                yield {"mode": "complex", "e": en.repair([o, a, b], True)[0], "bits": 53}
            yield {"mode": "complex", "e": en.repair(["pow", a, I(i - 2)], True)[0], "bits": 53}

    def strategy(self, tier):
        n = 9 if tier == "quick" else 12
        bits = st.sampled_from([53, 53, 52, 30, 24, 1])
        real = st.builds(lambda e, b: {"mode": "real", "e": en.repair(e)[0], "bits": b}, real_tree(n), bits)
        realu = st.builds(lambda e, b: {"mode": "real", "e": en.repair(e)[0], "bits": b}, real_tree(n, True), bits)
        cx = st.builds(lambda e, b: {"mode": "complex", "e": en.repair(e, True)[0], "bits": b}, complex_tree(n), bits)
        return en.weighted([(5, real), (1, realu), (2, cx)])

    # ------------------------------------------------------------------ judging
    def _skipexc(self, r, tag):
        if r["exc"] == "VerifAssertFailure":
            self.skip("assert_seen")
        else:
            self.skip("declined:%s:%s" % (tag, r["exc"]))

    def _cmp(self, what, got, ref, factor, case, dump):
        """got: python float or complex; ref: en.Ref"""
        self.count()
        parts = (got.real, got.imag) if isinstance(got, complex) else (got,)
        if not all(finite(p) for p in parts):
            raise Violation("%s returned %r but the expression has the finite, well-conditioned value %s (kappa %.3g)"
                            % (what, got, ref.value, float(ref.kappa)), {"recipe": case["e"], "dump": dump})
        g = mpc(got.real, got.imag) if isinstance(got, complex) else mpf(got)
        tol = factor * ref.tol_abs(64) + mpf(10) ** -40 * max(1, abs(ref.value))   # + mpmath's own noise
        if not on.close(g, ref.value, 0, tol):
            raise Violation("%s = %r but the value is %s (|diff| %.3g > tol %.3g, kappa %.3g); expr %s"
                            % (what, got, ref.value, float(abs(g - ref.value)), float(tol), float(ref.kappa),
                               engine.sx(case["e"])[:600]), {"recipe": case["e"], "dump": dump})

    def judge(self, case):
        rec, mode, bits = case["e"], case["mode"], case["bits"]
        cm = mode == "complex"
        stmts = [rec, ["eval_complex_double", R(0)], ["evalf", R(0), bits, "complex"], ["evalf", R(0), bits, "symbolic"]]
        if not cm:
            stmts += [["eval_double", R(0)], ["eval_double_sd", R(0)], ["eval_double_vp", R(0)], ["evalf", R(0), bits, "real"]]
        if self.tag_active(TAG_GAMMA) and en.gamma_half_integer_risk(rec):
            self.skip("known:" + TAG_GAMMA)     # crasher: not sent to the driver while the finding is open
            return
        # reference over the recipe first (also guards against astronomically large intermediates)
        try:
            rv = on.stable_value(rec, None, mag=280)
        except Unjudgeable as u:
            self.skip("recipe:" + u.reason.split(":")[0])
            return
        res = self.run(stmts)
        if is_exc(res[0]):
            self._skipexc(res[0], "construct")
            return
        dump = B(res[0])
        heads = en.dump_heads(dump)
        if "NaN" in heads or "Infty" in heads:
            # a constructor produced oo/zoo/nan from finite arguments: C08's business
            self.skip("constructor_nonfinite")
            return
        try:
            ref = en.stable_reference(dump, None, cm)
        except Unjudgeable as u:
            self.skip("ref:" + ":".join(u.reason.split(":")[:2]))
            return
        if not cm and isinstance(rv, mpc):
            if rv.imag != 0:
                self.skip("recipe:non_real")
                return
            rv = rv.real
        # the constructed tree must have the recipe's value, else the constructors changed it (C07/C08
        # findings; eval_double was handed a different expression).  With floating leaves the constructors
        # have already rounded (C07's kappa-scaled tolerance); the reference is then the constructed tree's value.
        if on.has_float(rec):
            try:
                ctol = float(64 * 2.0 ** -53 * on.float_kappa(rec, None, mag=280))
            except Unjudgeable as u:
                self.skip("recipe_kappa:" + u.reason.split(":")[0])
                return
        else:
            ctol = 1e-25
        if not on.close(rv, ref.value, ctol, 1e-30):
            self.skip("constructor_changed_value")
            return
        # (the reference used below is the 70-digit value of the constructed tree, which was just shown to
        # equal the recipe's value)
        judged = []

        # ---- complex evaluators (for real trees: same first-order bound, twice the tolerance)
        fac = 1 if cm else 2
        r = res[1]
        if is_exc(r):
            self._skipexc(r, "eval_complex_double")
        else:
            self._cmp("eval_complex_double", complex(F(r[0]), F(r[1])), ref, fac, case, dump)
            judged.append("cx")
        r = res[2]
        if is_exc(r):
            self._skipexc(r, "evalf_complex")
        else:
            d = B(r)
            if d[0] != "ComplexDouble":
                raise Violation("evalf(e, %d, Complex) returned %s, not a ComplexDouble" % (bits, d), {"recipe": rec})
            self._cmp("evalf(e,%d,Complex)" % bits, complex(engine.hexf(d[1]), engine.hexf(d[2])), ref, fac, case, dump)
            judged.append("evalfc")
        r = res[3]
        if any(h in heads for h in ("Sign", "Floor", "Ceiling", "Truncate")):
            # not node types eval_double / eval_complex_double accept (the statement quantifies over those); the
            # symbolic domain turns them into exact integers and re-runs exact constructor logic (C08's domain,
            # e.g. acot(sign(cos(2))) -> acot(-1) -> 3*pi/4)
            self.skip("evalf_symbolic:node_type_outside_eval_double")
        elif is_exc(r):
            self._skipexc(r, "evalf_symbolic")
        else:
            d = B(r)
            try:
                if d[0] == "RealDouble":
                    self._cmp("evalf(e,%d,Symbolic)" % bits, engine.hexf(d[1]), ref, 2, case, dump)
                    judged.append("evalfs")
                elif d[0] == "ComplexDouble":
                    self._cmp("evalf(e,%d,Symbolic)" % bits, complex(engine.hexf(d[1]), engine.hexf(d[2])), ref, 2, case, dump)
                    judged.append("evalfs")
                else:
                    # partially evaluated tree: judge its value
                    try:
                        v = en.plain_value(d, None, cm, None)
                        self.count()
                        if not on.close(v, ref.value, 0, 2 * ref.tol_abs(64)):
                            raise Violation("evalf(e,%d,Symbolic) = %s has the value %s but e has the value %s (kappa %.3g)"
                                            % (bits, d, v, ref.value, float(ref.kappa)), {"recipe": rec, "dump": dump})
                        judged.append("evalfs_tree")
                    except Unjudgeable as u:
                        self.skip("evalf_symbolic_result:" + u.reason.split(":")[0])
            except Violation:
                # KF-C12-01: a *real* expression containing (negative base) ** (integer exponent): the symbolic
                # evalf converts the exponent to RealDouble and RealDouble::powreal(RealDouble) takes the complex
                # route for every negative base -> ComplexDouble with a rounding-noise imaginary part -> real-only
                # consumers (min/max/relationals) return the wrong argument
                if cm or not self.tag_active(TAG_NEGPOW) or not negbase_intpow(dump):
                    raise
                self.skip("known:" + TAG_NEGPOW)
        # ---- real evaluators
        if not cm:
            vals = {}
            for name, r in (("eval_double", res[4]), ("eval_double_sd", res[5]), ("eval_double_vp", res[6])):
                if is_exc(r):
                    self._skipexc(r, name)
                    continue
                vals[name] = F(r)
                self._cmp(name, F(r), ref, 1, case, dump)
                judged.append({"eval_double": "node", "eval_double_sd": "sd", "eval_double_vp": "vp"}[name])
            r = res[7]
            if is_exc(r):
                self._skipexc(r, "evalf_real")
            else:
                d = B(r)
                if d[0] != "RealDouble":
                    raise Violation("evalf(e, %d, Real) returned %s, not a RealDouble" % (bits, d), {"recipe": rec})
                self._cmp("evalf(e,%d,Real)" % bits, engine.hexf(d[1]), ref, 1, case, dump)
                judged.append("evalfr")
                if "eval_double" in vals and engine.hexf(d[1]) != vals["eval_double"]:
                    raise Violation("evalf(e,%d,Real)=%r differs from eval_double(e)=%r (evalf_numeric returns "
                                    "real_double(eval_double(b)))" % (bits, engine.hexf(d[1]), vals["eval_double"]),
                                    {"recipe": rec, "dump": dump})
            # agreement of the three real evaluators
            # exp(x) = Pow(E, x), also as a Mul factor [E, n]: the visitors call exp(x), the table pow(double(E), x)
            has_exp = '["Constant", "E"]' in json.dumps(dump)
            names = sorted(vals)
            for i in range(len(names)):
                for j in range(i):
                    a, b = vals[names[i]], vals[names[j]]
                    self.count()
                    ok = en.ulp_diff(a, b) <= 4
                    if not ok and has_exp and "eval_double_sd" in (names[i], names[j]):
                        ok = on.close(mpf(a), mpf(b), 0, 2 * ref.tol_abs(64))
                    if not ok:
                        raise Violation("%s=%r and %s=%r differ by %.1f ulp (value %s, kappa %.3g)"
                                        % (names[i], a, names[j], b, en.ulp_diff(a, b), ref.value, float(ref.kappa)),
                                        {"recipe": rec, "dump": dump})
        if judged:
            self.cls("mode:" + mode)
            for k in set(judged):
                pre = {"node": "node:", "sd": "sd:", "cx": "cx:", "evalfs": "evalf_sym:"}.get(k)
                if pre:
                    for h in heads:
                        self.cls(pre + h)
            if len(heads) >= 3:
                self.nontriv(rec)
            self.sample({"recipe": engine.sx(rec), "value": str(ref.value)[:24], "kappa": float(ref.kappa),
                         "judged": sorted(set(judged))})


def coverage_ok(ev):
    """every supported node type was hit by a judged case (DESIGN C12); returns list of problems"""
    cl = ev["coverage"]["classes"]
    miss = []
    for n in BASE_NODES + REAL_NODES:
        if not cl.get("node:" + n):
            miss.append("eval_double:" + n)
        if n not in SD_MISSING and not cl.get("sd:" + n):
            miss.append("single_dispatch:" + n)
    for n in BASE_NODES + COMPLEX_NODES:
        if not cl.get("cx:" + n):
            miss.append("eval_complex_double:" + n)
    return miss


def main():
    rc = engine.main(C12)
    if rc == 0 and "--replay" not in sys.argv:
        with open(os.path.join(engine.VERIF, "evidence", "C12.json")) as f:
            ev = json.load(f)
        miss = coverage_ok(ev)
        tab = {k: v for k, v in ev["coverage"]["classes"].items() if k.startswith(("node:", "sd:", "cx:"))}
        print("coverage: %d node-type counters, missing: %s" % (len(tab), miss or "none"))
        if miss:
            print("INTERNAL ERROR in check C12: supported node types never judged: %s (generator defect)" % miss)
            return 2
    return rc


if __name__ == "__main__":
    sys.exit(main())
