"""C34 Property queries under assumptions are sound."""
import os
import sys
from fractions import Fraction

sys.path.insert(0, os.path.join(os.path.dirname(os.path.abspath(__file__)), ".."))
from hypothesis import strategies as st
from pbt import engine, gen
from pbt.engine import Check, Violation, R, B, is_exc
from pbt import oracle_num as on
from pbt.oracle_num import Unjudgeable
from pbt import assumeref as ar

I_ = lambda n: ["integer", n]
SYMS = ["x", "y", "z"]
PI, E_, IU = ["constant", "pi"], ["constant", "E"], ["constant", "I"]
ATOMIC = ("Symbol", "Integer", "Rational", "Complex", "Constant", "RealDouble", "ComplexDouble")
DOUBLES = [0.5, 1.5, -2.5, 0.1, 3.0, -0.75, 2.0, -1.0, 0.0]
FUN1 = ["abs", "sign", "floor", "ceiling", "conjugate", "exp", "log", "sin", "cos"]
FUN1_MORE = ["tan", "cot", "sec", "csc", "asin", "acos", "atan", "acot", "asec", "acsc", "sinh", "cosh", "tanh",
             "atanh", "acoth", "asech", "acsch", "lambertw"]


def q(a, b=1):
    return gen._rat(a, b)


def sym():
    return st.sampled_from(SYMS).map(lambda n: ["symbol", n])


def rat():
    return st.builds(q, st.integers(-9, 9), st.sampled_from([2, 3, 4, 5, 7]))


def gauss():
    part = st.builds(q, st.integers(-4, 4), st.sampled_from([1, 1, 2, 3]))
    return st.builds(lambda a, b: ["complex", a, b] if b != I_(0) else a, part, part)


def dbl():
    return st.sampled_from(DOUBLES).map(lambda f: ["real_double", f])


def number():
    return gen.weighted([(6, st.integers(-6, 6).map(I_)), (3, rat()), (1, gauss()), (1, dbl()),
                         (1, st.sampled_from([8, 9, 16, -8, 12, 100, 2 ** 31, -2 ** 64 + 1]).map(I_))])


def const():
    return st.sampled_from([PI, PI, E_, E_, IU, IU, ["constant", "GoldenRatio"], ["constant", "EulerGamma"]])


def atom():
    return gen.weighted([(7, sym()), (2, const())])


def coef():
    return gen.weighted([(6, st.integers(-5, 5).filter(bool).map(I_)), (3, rat()), (2, st.sampled_from([I_(1), I_(-1), I_(2)])),
                         (1, st.sampled_from([IU, ["neg", IU], ["complex", I_(1), I_(1)], ["complex", I_(0), q(1, 2)]])),
                         (1, dbl())])


def expo():
    return gen.weighted([(6, st.sampled_from([1, 1, 2, 2, 3, 4, -1, -2, -3]).map(I_)),
                         (4, st.sampled_from([q(1, 2), q(1, 3), q(-1, 2), q(3, 2), q(2, 3), q(-1, 3), q(5, 2)])),
                         (2, sym()), (1, st.sampled_from([PI, IU, ["real_double", 2.0], ["real_double", 0.5], I_(0)]))])


def linear(term=None):
    """c0 + sum c_i * atom_i : the shape PositiveVisitor / IntegerVisitor / RealVisitor / AlgebraicVisitor decide"""
    term = atom() if term is None else term
    t = st.builds(lambda c, a: a if c == I_(1) else ["mul", c, a], coef(), term)
    return st.builds(lambda c0, ts: ["add_vec", ["list"] + ([c0] if c0 is not None else []) + ts] if (len(ts) > 1 or c0 is not None) else ts[0],
                     st.one_of(st.none(), number(), number(), gauss()), st.lists(t, min_size=1, max_size=3))


def product(base=None):
    base = atom() if base is None else base
    f = st.builds(lambda b, e: b if e == I_(1) else ["pow", b, e], base, expo())
    return st.builds(lambda c, fs: ["mul_vec", ["list"] + ([c] if c is not None else []) + fs] if (len(fs) > 1 or c is not None) else fs[0],
                     st.one_of(st.none(), st.none(), coef()), st.lists(f, min_size=1, max_size=3))


def parity():
    """2*x, 2*x + 1, x + y, 4*x*y - 3 ...: reach is_even / is_odd / is_integer on Add and Mul"""
    k = st.sampled_from([1, 2, 2, 2, 3, 4, -2, 6]).map(I_)
    mono = st.builds(lambda c, vs: ["mul_vec", ["list", c] + vs] if c != I_(1) or len(vs) > 1 else vs[0], k,
                     st.lists(sym(), min_size=1, max_size=2))
    return st.builds(lambda ms, c0: ["add_vec", ["list"] + ms + ([I_(c0)] if c0 else [])] if (len(ms) > 1 or c0) else ms[0],
                     st.lists(mono, min_size=1, max_size=2), st.sampled_from([0, 0, 1, -1, 2, 3, 5]))


def signed_sum():
    """+-c1*a1 +- c2*a2 (+- c0): symbols and the positive constants with positive and negative coefficients -- the sign
    bookkeeping of PositiveVisitor::bvisit(Add)"""
    c = st.sampled_from([1, 1, 2, 3, -1, -1, -2, -3]).map(I_)
    cq = st.one_of(c, c, st.builds(q, st.sampled_from([1, -1, 3, -5]), st.sampled_from([2, 3])))
    a = st.one_of(sym(), sym(), sym(), st.sampled_from([PI, E_, ["constant", "GoldenRatio"], ["constant", "EulerGamma"]]))
    t = st.builds(lambda k, x: x if k == I_(1) else ["mul", k, x], cq, a)
    return st.builds(lambda ts, c0: ["add_vec", ["list"] + ts + ([c0] if c0 is not None else [])],
                     st.lists(t, min_size=2, max_size=3), st.one_of(st.none(), st.none(), st.integers(-3, 3).filter(bool).map(I_), rat()))


def int_shapes():
    """integer-coefficient monomials with positive, negative and symbolic exponents, sums of them: is_integer / is_even /
    is_odd on Mul, Add and Pow"""
    e = st.sampled_from([1, 1, 1, 2, 3, -1, -2, -1]).map(I_)
    f = st.builds(lambda b, ex: b if ex == I_(1) else ["pow", b, ex], sym(), st.one_of(e, e, e, sym()))
    mono = st.builds(lambda k, fs: ["mul_vec", ["list"] + ([I_(k)] if k != 1 else []) + fs] if (k != 1 or len(fs) > 1) else fs[0],
                     st.sampled_from([1, 1, 2, 3, -1, 4, 6]), st.lists(f, min_size=1, max_size=2))
    return st.one_of(mono, mono, st.builds(lambda ms, c0: ["add_vec", ["list"] + ms + ([I_(c0)] if c0 else [])],
                                           st.lists(mono, min_size=1, max_size=2), st.sampled_from([0, 1, -1, 2, 3])))


def expression(tier):
    fun = st.sampled_from(FUN1 * 3 + FUN1_MORE)
    inner = st.one_of(atom(), atom(), linear(), product(), number(), parity())
    call = st.builds(lambda f, a: [f, a], fun, inner)
    leaves = gen.weighted([(5, sym()), (3, number()), (2, const())])

    def special(ch):
        return st.one_of(st.builds(lambda b, e: ["pow", b, e], ch, expo()),
                         st.builds(lambda f, a: [f, a], fun, ch))
    tree = gen.tree(leaves, unary=("neg", "abs", "sign", "floor", "conjugate", "exp", "log", "sin", "cos"),
                    binary=("add", "sub", "mul", "div"), max_leaves=6 if tier == "quick" else 9, special=special)
    return gen.weighted([
        (2, atom()), (1, number()),
        (6, linear()), (5, product()), (3, parity()), (4, signed_sum()), (3, int_shapes()),
        (4, call), (2, linear(st.one_of(atom(), call))), (2, product(st.one_of(atom(), call, linear()))),
        (2, st.builds(lambda f, a: [f, a], fun, call)),
        (4, tree),
    ])


# ------------------------------------------------------------------------------------------ known findings
def _walk(d):
    if isinstance(d, list) and d:
        if isinstance(d[0], str):
            yield d
        for x in (d[1:] if isinstance(d[0], str) else d):
            if isinstance(x, list):
                yield from _walk(x)


def _nonreal_number(d):
    return d[0] in ("Complex", "ComplexDouble")


def m_positive_add_complex_constant(case, v):
    """KF-C34-01: PositiveVisitor::bvisit(Add) ignores a non-real constant term: is_positive(x + I, x > 0) is true"""
    dt = v.detail or {}
    d = dt.get("dump")
    return dt.get("query") == "is_positive" and dt.get("answer") == "T" and bool(d) and d[0] == "Add" and _nonreal_number(d[1])


def _exact_zero(node, assign):
    try:
        xenv, _ = ar.split_env(assign)
        _, qv = ar.reduce(node, xenv)
        return qv is not None and qv.is_zero()
    except ar.Undefined:
        return False


def m_real_mul_zero_factor(case, v):
    """KF-C34-02: RealVisitor calls a product with exactly one non-real factor non-real although a real factor may
    vanish (is_real(I*x, x real) is false; pinned by test_test_visitors.cpp).  Matches an is_real = F answer refuted at an
    assignment where a factor of a product in the tree is exactly zero."""
    dt = v.detail or {}
    if dt.get("query") != "is_real" or dt.get("answer") != "F" or not dt.get("dump"):
        return False
    for n in _walk(dt["dump"]):
        if n[0] == "Mul" and any(_exact_zero(b, dt["assign"]) for b, e in n[2]):
            return True
        if n[0] == "Add" and any(_nonreal_number(c) and _exact_zero(t, dt["assign"]) for t, c in n[2]):
            return True
    return False


def m_real_add_two_nonreal(case, v):
    """KF-C34-03: RealVisitor::bvisit(Add) answers false as soon as two or more terms are non-real (their imaginary
    parts may cancel): is_real(I*x - I*y) with x, y real"""
    dt = v.detail or {}
    if dt.get("query") != "is_real" or dt.get("answer") != "F" or not dt.get("dump"):
        return False
    for n in _walk(dt["dump"]):
        if n[0] == "Add":
            k = (1 if _nonreal_number(n[1]) else 0)
            for t, c in n[2]:
                if _nonreal_number(c) or (t[0] == "Mul" and _nonreal_number(t[1])) or any(
                        m[0] == "Add" and (_nonreal_number(m[1]) or any(_nonreal_number(c2) for _, c2 in m[2])) for m in _walk(t)):
                    k += 1
            if k >= 2:
                return True
    return False


class C34(Check):
    pid = "C34"
    timeout = 30.0
    rule = ("one expression over x, y, z per case (linear combinations of symbols / constants with integer, rational, "
            "complex and a few double coefficients; products of powers with integer / rational / symbolic exponents; "
            "parity shapes 2x, 2x+1, 4xy-3; abs sign floor ceiling conjugate exp log and the (inverse) trigonometric / "
            "hyperbolic functions of those; small recursive trees) and, per symbol, a witness-first assumption set: a "
            "witness (integer / non-integer rational / a+b*sqrt(n) / a+b*pi, a+b*E / non-real Gaussian rational), a random "
            "subset of Contains(x, Integers|Rationals|Reals|Complexes), c<x, c<=x, x<c, x<=c (both spellings, Integer / "
            "Rational / double constants, boundary included), Eq(x,c), Ne(x,c) that are true of the witness, and 3 further "
            "values constructed inside the described region (set level x interval, end points when closed, every class "
            "the level allows). All 17 tribool queries are asked with and without the assumptions, is_polynomial with a "
            "random and with the empty variable list. Every definite answer is compared with the truth of the property at "
            "4-6 joint satisfying assignments (answers given without assumptions also at 2 unconstrained assignments): "
            "exactly when the value is in Q(i), numerically (mpmath 35/70 digits, margin 1e-20) for zero / sign / real "
            "otherwise; integer/rational/irrational/algebraic/transcendental only from classes known by construction "
            "(closure of the algebraic numbers, sqrt of a non-square rational, pi, E, Lindemann-Weierstrass for exp / "
            "log / sin / cos / tan of algebraic arguments). is_polynomial must equal an independent syntactic reference "
            "on the raw dump and be true for recipes that are polynomials by construction. 'U' is always accepted. "
            "Non-trivial: a definite answer under assumptions on a non-atomic expression that differs from the answer "
            "without assumptions; distinct by (expression, statements, query).")
    assumptions = ["assignments at which the expression (or the canonical tree the library built from it) is undefined, "
                   "infinite, on a branch cut of a non-literal base, within 1e-15 of a jump of floor/sign, or "
                   "ill-conditioned are skipped",
                   "with a double anywhere in the expression only zero / sign / real are judged, with a margin of 1000 "
                   "forward-error bounds; whether a double is an integer / rational / algebraic number is not judged",
                   "the value of the canonical tree must agree with the value of the recipe, otherwise the assignment is "
                   "left to C07 / C08",
                   "is_finite=T / is_complex=T are never contradicted by an assignment where the expression is infinite "
                   "(DESIGN: the statement speaks of values the expression has)",
                   "an exception from a query or from the Assumptions constructor declines it"]
    tiers = {"quick": {"examples": 2600}, "thorough": {"examples": 110000}}
    min_nontrivial = 20

    def setup_worker(self, tier):
        ar.activate_extra_findings(self)

    def strategy(self, tier):
        free = ar.free_sets(SYMS, 2)
        return st.fixed_dictionaries({"e": expression(tier), "syms": ar.assumption_sets(SYMS, 4), "free": free,
                                      "pv": st.lists(st.sampled_from(SYMS), max_size=2, unique=True)})

    # ------------------------------------------------------------------ judge
    def judge(self, case):
        rec, syms = case["e"], case["syms"]
        ar.check_case_syms(syms)
        names = sorted(gen.symbols_in(rec))
        pv = sorted(case.get("pv") or [])
        stmts = [["let", rec], ["asm_new", ["list"] + ar.asm_statements(syms)]]
        idx = {}
        for qn in ar.WITH_ASM:
            idx[qn] = len(stmts)
            stmts.append([qn, R(0), R(1)])
            stmts.append([qn, R(0)])
        for qn in ar.NO_ASM:
            idx[qn] = len(stmts)
            stmts.append([qn, R(0)])
        ip = len(stmts)
        stmts.append(["is_polynomial", R(0), ["list"] + [["symbol", n] for n in pv]])
        stmts.append(["is_polynomial", R(0)])
        stmts.append(["id", R(0)])
        res = self.run(stmts)
        if is_exc(res[0]) or is_exc(res[-1]):
            self.skip("assert_seen" if is_exc(res[0], "VerifAssertFailure") else "declined:expr")
            return
        dump = B(res[-1])
        if ar.dump_has(dump, ("Infty", "NaN")):
            self.skip("nonfinite_expr")
            return
        asm_ok = not is_exc(res[1])
        if not asm_ok:
            self.skip("declined:asm:" + str(res[1].get("exc")))
        floaty = on.has_float(rec) or on.has_float(dump)
        atomic = dump[0] in ATOMIC

        # ---- is_polynomial: syntactic reference
        for k, V in ((ip, pv), (ip + 1, [])):
            r = res[k]
            if is_exc(r) or not isinstance(r, bool):
                self.skip("declined:is_polynomial")
                continue
            self.count()
            want = ar.dump_poly(dump, set(V))
            self.cls("poly:%s" % ("T" if r else "F"))
            if r != want or (ar.recipe_poly(rec, set(V)) and not r):
                raise Violation("is_polynomial(%s, %s) = %s but the tree %s is %sa polynomial in these variables"
                                % (engine.sx(rec), V or "all symbols", r, dump, "" if want else "not "),
                                {"query": "is_polynomial", "expr": rec, "dump": dump, "vars": V})
            if not atomic and V and set(V) & set(names) and set(names) - set(V):
                self.nontriv((rec, tuple(V), "poly"))

        # ---- tribool queries
        answers = []      # (query, with_asm?, answer)
        for qn in ar.WITH_ASM:
            a, b = res[idx[qn]], res[idx[qn] + 1]
            for with_asm, r in ((True, a), (False, b)):
                if with_asm and not asm_ok:
                    continue
                if is_exc(r):
                    self.skip("declined:" + qn)
                    continue
                self.cls("%s:%s" % (qn, r))
                if r in ("T", "F"):
                    answers.append((qn, with_asm, r))
            if asm_ok and a in ("T", "F") and a != b:
                self.cls("depends_on_asm:" + qn)
        for qn in ar.NO_ASM:
            r = res[idx[qn]]
            if is_exc(r):
                self.skip("declined:" + qn)
                continue
            self.cls("%s:%s" % (qn, r))
            if r in ("T", "F"):
                answers.append((qn, False, r))
        if not answers:
            self.cls("all_U")
            return
        for k in sorted(set(v[0] for n in names for v in syms[n]["vals"][:1])):
            self.cls("witness:" + k)

        sat = ar.assignments(syms, names, 2)
        free = ar.assignments(case["free"], names, 0, key="vals") if any(not w for _, w, _ in answers) else []
        judged = {}
        for assign, is_sat in [(a, True) for a in sat] + [(a, False) for a in free]:
            todo = [(qn, w, r) for (qn, w, r) in answers if is_sat or not w]
            if not todo:
                continue
            T = self.truth(rec, dump, assign, floaty)
            if T is None:
                continue
            for qn, w, r in todo:
                exp = ar.expected(qn, T)
                if exp is None:
                    continue
                judged[(qn, w)] = judged.get((qn, w), 0) + 1
                if exp != (r == "T"):
                    prop, neg = ar.QUERIES[qn]
                    raise Violation("%s(%s%s) = %s but at %s the value is %s, which is %s%s"
                                    % (qn, engine.sx(rec), (", " + ar.asm_str(syms, names)) if w else "", r,
                                       ar.assign_str(assign), self.last_value, "" if T[prop] else "not ", prop),
                                    {"query": qn, "with_asm": w, "answer": r, "expr": rec, "dump": dump,
                                     "assign": assign, "asm": ar.asm_str(syms, names) if w else None})
        for (qn, w), n in judged.items():
            self.count()
            self.cls("judged:" + qn)
        for qn, w, r in answers:
            if (qn, w) not in judged:
                self.skip("undecidable:" + qn)
        dep = [(qn, r) for (qn, w, r) in answers if w and (qn, True) in judged and (qn, False, r) not in answers]
        if dep and not atomic:
            key = tuple(engine.sx(s) for s in ar.asm_statements(syms, names))
            for qn, r in dep:
                self.nontriv((rec, key, qn))
            self.sample({"expr": engine.sx(rec), "assumptions": ar.asm_str(syms, names), "answers": {qn: r for qn, r in dep},
                         "assignments": [ar.assign_str(a) for a in sat]})

    def truth(self, rec, dump, assign, floaty):
        """truth table of the properties of the expression at the assignment, or None (assignment not judgeable)"""
        try:
            clf = ar.Classifier(assign)
            info = clf.run(rec)
            v = ar.numeric(info.node, clf.nenv)
            dnode, dq = ar.reduce(dump, clf.xenv)
            dv = ar.numeric(dnode, clf.nenv)
            if not on.close(v, dv, 1e-9 if floaty else 1e-25, 1e-30):
                self.skip("canon_value_differs")
                return None
            m = None
            if floaty:
                tol = on.float_abs_tol(info.node, clf.nenv, margin=1e-15, cut_guard=True, mag=100)
                m = 1000 * tol + 1e-12
            self.last_value = on.mp.nstr(v, 15)
            return ar.truth_table(info, v, m, floaty)
        except ar.Undefined as u:
            self.skip("undefined_at_assignment")
        except Unjudgeable as u:
            self.skip("unjudgeable:" + u.reason.split(":")[0])
        return None


C34.matchers = {"positive_add_complex_constant": m_positive_add_complex_constant,
                "real_mul_zero_factor": m_real_mul_zero_factor, "real_add_two_nonreal": m_real_add_two_nonreal}

if __name__ == "__main__":
    sys.exit(engine.main(C34))
