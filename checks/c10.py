"""C10 Differentiation is correct."""
import os
import sys

sys.path.insert(0, os.path.join(os.path.dirname(os.path.abspath(__file__)), ".."))
import mpmath
from mpmath import mp, mpf, mpc
from hypothesis import strategies as st
from pbt import engine, gen
from pbt.engine import Violation, R, B, is_exc
from pbt import oracle_num as on
from pbt.oracle_num import Unjudgeable
from pbt.valuecheck import ValueCheck

SYMS = ["x", "y"]
HOLO = ["sin", "cos", "tan", "cot", "csc", "sec", "asin", "acos", "atan", "acot", "asec", "acsc", "sinh", "cosh", "tanh",
        "coth", "csch", "sech", "asinh", "acosh", "atanh", "acoth", "asech", "acsch", "exp", "log", "sqrt", "cbrt", "erf", "erfc",
        "gamma", "loggamma", "digamma", "trigamma", "lambertw", "zeta", "dirichlet_eta"]
HOLO2 = ["lowergamma", "uppergamma", "beta", "polygamma", "zeta2", "log2"]
NONHOLO = ["abs", "sign", "conjugate", "floor", "ceiling", "max", "min"]

FUNCS = {"f": lambda u: mp.sin(1.3 * u + 0.2) + u * u / 3,
         "g": lambda u, v: mp.cos(0.7 * u - 0.4 * v) + u * v / 2 + v * v * v / 5}


def numdiff(rec, env, var, order, real):
    """high-precision numerical derivative of the recipe's value along `var` (Unjudgeable when unstable)"""
    out = []
    for dps in (40, 70):
        with mp.workdps(dps):
            base = on.env_mp(env)
            x0 = base[var]

            def f(t):
                e2 = dict(base)
                e2[var] = t
                return on.Evaluator(e2, FUNCS, 1e-6 if real else None, True).value(rec)
            try:
                out.append(+mp.diff(f, x0, order, h=mpf(10) ** (-dps // (order + 2))))
            except (ZeroDivisionError, ValueError, OverflowError):
                raise Unjudgeable("nd_failed")
    with mp.workdps(70):
        a, b = out
        if not (mpmath.isfinite(abs(b))):
            raise Unjudgeable("nd_nonfinite")
        if abs(a - b) > mpf(10) ** -14 * max(1, abs(b)):
            raise Unjudgeable("nd_unstable")
    return b


class C10(ValueCheck):
    pid = "C10"
    timeout = 60.0
    rule = ("expression trees (<= 8 leaves) over arithmetic, powers and every function with a DiffVisitor rule, undefined "
            "functions f(u), g(u, v) of arbitrary arguments, and the non-holomorphic abs/sign/conjugate/floor/ceiling/max/min "
            "(real points only); variable x. Judged: value(diff(e, x)) and value(diff(diff(e, x), x)) against a "
            "high-precision numerical derivative of the *recipe* (mpmath.diff at 40 and 70 digits, accepted only when both "
            "agree to 1e-14) at 2 generic complex points (holomorphic trees) or 2 real points kept away from kinks; "
            "undefined functions are bound to analytic stand-ins, so Derivative/Subs results are evaluated through the "
            "chain rule numerically; diff w.r.t. a symbol that does not occur must be exactly 0; diff with and without the "
            "cache must be eq; mixed partials of e in x, y must agree in value. Non-trivial: x occurs under >= 2 nested "
            "non-linear nodes; distinct by recipe.")
    assumptions = ["numerical differentiation at 40/70 digits is the reference (tolerance 1e-9 relative)",
                   "library exceptions decline a case"]
    tiers = {"quick": {"examples": 2500}, "thorough": {"examples": 200000}}
    exact_tol = 1e-9
    case_timeout = 15
    float_rel_floor = 1e-7

    TABLE_ENVS = [{"x": ["-3/2", "1/2"], "y": ["1/2", "1/4"]}, {"x": ["-1/4", "-3/2"], "y": ["-3/4", "5/4"]},
                  {"x": ["5/4", "-1/2"], "y": ["1/2", "-7/4"]}, {"x": ["1/4", "3/2"], "y": ["-5/4", "1/4"]}]
    TABLE_RENVS = [{"x": ["-23/16", "0"], "y": ["9/16", "0"]}, {"x": ["7/16", "0"], "y": ["-21/16", "0"]},
                   {"x": ["27/16", "0"], "y": ["5/16", "0"]}, {"x": ["-5/16", "0"], "y": ["13/16", "0"]}]

    def enumerate(self, tier):
        """every DiffVisitor rule at fixed points in all four quadrants (generated search alone reaches a given
        rule in a given region only now and then)"""
        x, y = ["symbol", "x"], ["symbol", "y"]
        inner = [x, ["add", ["mul", ["integer", 2], x], y], ["mul", x, x], ["pow", x, ["integer", -1]]]
        for f in HOLO:
            for a in inner:
                for k in (0, 2):
                    yield {"e": [f, a], "real": False, "envs": self.TABLE_ENVS[k:k + 2]}
        for f in HOLO2:
            for a, b in ((x, y), (y, x), (x, ["mul", ["integer", 2], x]), (["integer", 2], x), (x, ["rational", 3, 2])):
                yield {"e": [f, a, b], "real": False, "envs": self.TABLE_ENVS[:2]}
        for a in inner[:3]:
            for f in ("abs", "sign", "conjugate", "floor", "ceiling"):
                yield {"e": ["mul", [f, a], x], "real": True, "envs": self.TABLE_RENVS[:2]}
            yield {"e": ["max", ["list", a, y]], "real": True, "envs": self.TABLE_RENVS[2:]}
        for e in (["pow", x, x], ["pow", x, y], ["pow", ["integer", 2], x], ["pow", ["add", x, ["integer", 1]], ["rational", 1, 3]],
                  ["function_symbol", "f", ["list", ["mul", x, x]]], ["function_symbol", "g", ["list", x, ["mul", x, y]]],
                  ["function_symbol", "g", ["list", ["sin", x], x]], ["mul", ["function_symbol", "f", ["list", x]], ["function_symbol", "f", ["list", x]]]):
            yield {"e": e, "real": False, "envs": self.TABLE_ENVS[:2]}

    def strategy(self, tier):
        num = gen.weighted([(6, st.integers(-4, 4).map(lambda n: ["integer", n])), (3, st.builds(gen._rat, st.integers(-7, 7), st.integers(2, 4))),
                            (1, gen.gaussian(big=False)), (1, gen.real_double())])
        s = gen.weighted([(4, st.just(["symbol", "x"])), (1, st.just(["symbol", "y"]))])
        leaves = gen.weighted([(3, num), (7, s), (1, gen.constant(("pi", "E", "I")))])
        expo = st.one_of(st.integers(-3, 4).map(lambda n: ["integer", n]), st.builds(gen._rat, st.integers(-5, 5), st.integers(2, 3)), s)

        def holo(ch):
            cheap = [f for f in HOLO if f not in ("zeta", "dirichlet_eta", "lambertw", "loggamma", "digamma", "trigamma")]
            return st.one_of(st.builds(lambda f, a: [f, a], st.sampled_from(cheap), ch),
                             st.builds(lambda f, a: [f, a], st.sampled_from(cheap), ch),
                             st.builds(lambda f, a, b: [f, a, b], st.sampled_from(["log2"]), ch, ch),
                             st.builds(lambda b, e: ["pow", b, e], ch, expo),
                             st.builds(lambda b, e: ["pow", b, e], ch, ch),
                             st.builds(lambda a: ["function_symbol", "f", ["list", a]], ch),
                             st.builds(lambda a, b: ["function_symbol", "g", ["list", a, b]], ch, ch),
                             st.builds(lambda xs: ["mul_vec", ["list"] + xs], st.lists(ch, min_size=2, max_size=3)))

        def nonholo(ch):
            return st.one_of(holo(ch), st.builds(lambda f, a: [f, a], st.sampled_from(["abs", "sign", "conjugate", "floor", "ceiling"]), ch),
                             st.builds(lambda f, a, b: [f, ["list", a, b]], st.sampled_from(["max", "min"]), ch, ch))
        ml = 7 if tier == "quick" else 10
        th = gen.tree(leaves, unary=("neg",), binary=("add", "sub", "mul", "div"), max_leaves=ml, special=holo)
        tn = gen.tree(leaves, unary=("neg",), binary=("add", "sub", "mul", "div"), max_leaves=ml, special=nonholo)
        return st.one_of(
            st.fixed_dictionaries({"e": th, "real": st.just(False), "envs": gen.envs(names=SYMS, n=2)}),
            st.fixed_dictionaries({"e": th, "real": st.just(False), "envs": gen.envs(names=SYMS, n=2)}),
            st.fixed_dictionaries({"e": tn, "real": st.just(True), "envs": gen.envs(names=SYMS, n=2, value=gen.real_env_value())}))

    @staticmethod
    def zero_base_pow(r):
        if isinstance(r, list) and r:
            if r[0] == "pow" and isinstance(r[1], list) and ((r[1][0] == "integer" and r[1][1] == 0) or (r[1][0] == "real_double" and r[1][1] == 0)):
                return True
            return any(C10.zero_base_pow(x) for x in r[1:])
        return False

    @staticmethod
    def nonholo_in(r):
        if isinstance(r, list):
            if r and r[0] in NONHOLO:
                return True
            return any(C10.nonholo_in(x) for x in r[1:])
        return False

    def judge(self, case):
        rec, envs, real = case["e"], case["envs"], case["real"]
        if not real and self.nonholo_in(rec):
            return
        if self.zero_base_pow(rec):
            self.skip("zero_base_power")   # 0**u: value 0 but the rule 0**u*log(0) is -oo*0 (not judged)
            return
        margin = 1e-6 if real else None
        if on.resource_blocked(rec, envs[0], 100, FUNCS):
            self.skip("ref:overflow")
            return
        try:
            on.value(rec, envs[0], 30, FUNCS, margin, False, 100)
        except Unjudgeable as u:
            if u.reason.startswith(("pole", "non_finite", "infinite")):
                self.skip("e_undefined_at_point")   # e itself has no value there (asec(0), atanh(1), 1/0 ...)
                return
        x, y, w = ["symbol", "x"], ["symbol", "y"], ["symbol", "w"]
        stmts = [rec, ["diff", R(0), x, True], ["diff", R(0), x, False], ["eq", R(1), R(2)],
                 ["diff", R(1), x, True], ["diff", R(0), w, True], ["diff", ["diff", R(0), x], y], ["diff", ["diff", R(0), y], x],
                 ["sdiff", R(0), x, True]]
        res = self.run(stmts)
        if is_exc(res[0]) or is_exc(res[1]):
            r = res[0] if is_exc(res[0]) else res[1]
            self.skip("assert_seen" if r["exc"] == "VerifAssertFailure" else "declined:" + r["exc"])
            return
        if any(t in str(res[0]) for t in ("'Infty'", "'NaN'", "'nan'", "'inf'", "'-inf'")):
            self.skip("expression_contains_infinity")
            return
        desc = engine.sx(rec)[:300]
        d1 = B(res[1])
        self.cls("diff")
        # (2) absent symbol
        def is_zero_dump(d):
            if d == ["Integer", "0"]:
                return True
            return on.has_float(rec) and d[0] in ("RealDouble", "ComplexDouble") and all(p in ("0x0p+0", "-0x0p+0") for p in d[1:])
        if not is_exc(res[5]) and not is_zero_dump(B(res[5])):
            raise Violation("%s: diff w.r.t. a symbol that does not occur returned %s, not 0" % (desc, B(res[5])), {"recipe": rec})
        # (3) cache
        if res[3] is False and "nan" not in str(res[1]):
            raise Violation("%s: diff with and without cache are not eq: %s vs %s" % (desc, d1, B(res[2])), {"recipe": rec})
        judged = 0
        for order, r in ((1, res[1]), (2, res[4]), (1, res[8])):
            if is_exc(r):
                continue
            got = B(r)
            refs = []
            for env in envs:
                try:
                    refs.append(numdiff(rec, env, "x", order, real))
                except Unjudgeable as u:
                    refs.append(u)
            try:
                judged += self.compare(rec, got, envs, refs, margin=margin, funcs=FUNCS, what="d^%d/dx^%d" % (order, order))
            except Violation as v:
                raise Violation("%s: %s" % (desc, v.msg), v.detail)
        # (4) mixed partials agree in value
        if not is_exc(res[6]) and not is_exc(res[7]):
            a, b = B(res[6]), B(res[7])
            for env in envs:
                try:
                    va = on.stable_value(a, env, funcs=FUNCS, margin=margin, cut_guard=True)
                    vb = on.stable_value(b, env, funcs=FUNCS, margin=margin, cut_guard=True)
                except Unjudgeable as u:
                    self.skip("mixed:" + u.reason.split(":")[0])
                    continue
                self.count()
                if not on.close(va, vb, 1e-9, 1e-25):
                    raise Violation("%s: mixed partials differ at %s: d/dy d/dx = %s, d/dx d/dy = %s" % (desc, env, va, vb),
                                    {"recipe": rec})
        if judged:
            if self.depth_nonlinear(rec) >= 2:
                self.nontriv(rec)
                self.cls("nontrivial")
            self.sample({"e": desc, "diff": d1})

    @staticmethod
    def depth_nonlinear(r):
        """max number of nested non-linear nodes above an occurrence of x"""
        if not isinstance(r, list) or not r:
            return -1
        if r[:2] == ["symbol", "x"]:
            return 0
        best = -1
        for c in r[1:]:
            d = C10.depth_nonlinear(c)
            if d >= 0:
                best = max(best, d + (0 if r[0] in ("add", "sub", "neg", "list", "add_vec") else 1))
        return best


def m_acosh_derivative_branch(case, v):
    """KF-C10-01: d/dx acosh(u) is returned as u'/sqrt(u**2 - 1); the derivative is u'/(sqrt(u-1)*sqrt(u+1)), which
    differs by sign for Re u < 0 (pinned by test_functions)"""
    return "acosh" in engine.sx(case["e"]) and "value mismatch" in v.msg


def m_constant_at_singular_rule(case, v):
    """KF-C10-02: the chain rule multiplies the outer rule by the inner derivative 0; where the outer rule is singular
    (acosh(-1), acsch(I), asin(1) ...) 0*zoo gives nan instead of 0"""
    return "does not occur returned" in v.msg and "['NaN']" in v.msg


C10.matchers = {"acosh_derivative_branch": m_acosh_derivative_branch,
                "constant_at_singular_rule": m_constant_at_singular_rule}


if __name__ == "__main__":
    sys.exit(engine.main(C10))
