"""C22 Multivariate polynomial arithmetic is correct (MIntPoly, MExprPoly)."""
import os
import sys
from fractions import Fraction

sys.path.insert(0, os.path.join(os.path.dirname(os.path.abspath(__file__)), ".."))
from hypothesis import strategies as st
from pbt import engine
from pbt.engine import Check, Violation, R, B, is_exc, DriverTimeout
from pbt import polyref as pr
from pbt.polyref import Unsupported
from pbt.polycommon import HangJudge

SYMS = ["x", "y", "z", "u", "v"]
CLASS = {"I": "MIntPoly", "E": "MExprPoly"}

# known library defect (same loop as in C21): UDictWrapper::pow(a, 0) never terminates (msymenginepoly.h).
# While the finding with matcher K_POW0 is active (GUIDE, known-findings protocol) exponent 0 is excluded by
# construction and counted as skip("known:<tag>"); otherwise it is generated and judged.
K_POW0 = "pow_exponent_zero_hang"
PROBES = [
    (K_POW0, '(symbol "x") (mint_from_dict [$0] [[[1] 1]]) (pow_mpoly $1 0)', ["MIntPoly", [["Symbol", "x"]], [[[0], "1"]]]),
    (K_POW0, '(mexpr_from_dict [] []) (pow_mpoly $0 0)', ["MExprPoly", [], [[[], ["Integer", "1"]]]]),
]


# ------------------------------------------------------------------ case data -> reference / recipes
def coef_pp(cls, c):
    if cls == "I":
        return pr.const(c)
    p = {}
    for k, n, d in c:
        p = pr.add(p, pr.scale(pr.var("a", k), Fraction(n, d)))
    return p


def coef_arg(cls, c):
    return c if cls == "I" else pr.pp_recipe(coef_pp(cls, c))


def poly_pp(cls, spec):
    p = {}
    for exps, c in spec["t"]:
        t = coef_pp(cls, c)
        for v, e in zip(spec["v"], exps):
            t = pr.mul(t, pr.var(v, e))
        p = pr.add(p, t)
    return p


def ctor(cls, spec):
    op = "mint_from_dict" if cls == "I" else "mexpr_from_dict"
    return [op, ["list"] + [["symbol", v] for v in spec["v"]],
            ["list"] + [["list", ["list"] + list(exps), coef_arg(cls, c)] for exps, c in spec["t"]]]


# ------------------------------------------------------------------ generators
def coef_strategy(cls):
    if cls == "I":
        return st.one_of(st.integers(-9, 9), st.integers(-9, 9), st.integers(-2 ** 70, 2 ** 70), st.integers(-2 ** 200, 2 ** 200),
                         st.just(0))
    return st.lists(st.tuples(st.integers(0, 2), st.integers(-5, 5).filter(bool), st.integers(1, 3)),
                    min_size=1, max_size=2, unique_by=lambda t: t[0]).map(lambda l: [list(t) for t in l])


def poly_on(cls, vs, max_terms=12):
    """polynomial over the ordered variable list vs (a permutation of a subset of SYMS)"""
    n = len(vs)
    mono = st.lists(st.one_of(st.integers(0, 2), st.integers(0, 6)), min_size=n, max_size=n)
    nterms = st.one_of(st.integers(0, 3), st.integers(0, max_terms)) if n else st.integers(0, 1)
    terms = nterms.flatmap(lambda k: st.lists(st.tuples(mono, coef_strategy(cls)), min_size=k, max_size=k,
                                              unique_by=lambda t: tuple(t[0])))
    return terms.map(lambda ts: {"v": list(vs), "t": [[list(e), c] for e, c in ts]})


def var_pair():
    """two ordered variable lists: equal, overlapping, nested, disjoint, empty; independent orders"""
    def mk(perm, perm2, i, lo, hi, eq):
        a = list(perm[:i])
        b = list(a) if eq else list(perm[min(lo, hi):max(lo, hi)])
        b.sort(key=perm2.index)
        return [a, b]
    return st.builds(mk, st.permutations(SYMS), st.permutations(SYMS), st.integers(0, 4), st.integers(0, 5), st.integers(0, 5),
                     st.sampled_from([True, False, False, False]))


def arith_case(cls):
    def build(vp):
        return st.fixed_dictionaries({
            "k": st.just("arith"), "cls": st.just(cls), "p": poly_on(cls, vp[0]), "q": poly_on(cls, vp[1], 8),
            "n": st.integers(0, 4),
            "env": st.lists(st.one_of(st.integers(-3, 3), st.integers(-2 ** 40, 2 ** 40)), min_size=5, max_size=5),
            "dv": st.sampled_from(SYMS)})
    return var_pair().flatmap(build)


def conv_case():
    ints = st.integers(-6, 6).map(lambda n: ["integer", n])
    rats = st.tuples(st.integers(-7, 7), st.integers(2, 5)).map(lambda t: pr.num_recipe(Fraction(t[0], t[1])))
    sym = st.sampled_from(SYMS).map(lambda s: ["symbol", s])
    fam = {
        "int": [(7, sym), (3, ints)],
        "rat": [(7, sym), (2, ints), (2, rats), (1, st.just(["symbol", "a"]))],
        "gen": [(5, sym), (2, ints),
                (2, st.builds(lambda s, k: ["pow", ["symbol", s], pr.num_recipe(Fraction(k, 2))], st.sampled_from(SYMS[:2]), st.integers(1, 5))),
                (2, st.builds(lambda s, k: ["pow", ["integer", 2], ["mul", ["integer", k], ["symbol", s]]], st.sampled_from(SYMS[:2]), st.integers(1, 3)))],
    }

    def tree(name):
        pool = []
        for w, s in fam[name]:
            pool += [s] * w
        leaves = st.one_of(pool)

        def ext(ch):
            return st.one_of(
                st.builds(lambda o, a, b: [o, a, b], st.sampled_from(["add", "sub", "mul", "mul"]), ch, ch),
                st.builds(lambda a, n: ["pow", a, ["integer", n]], ch, st.integers(0, 3)),
                st.builds(lambda a: ["neg", a], ch))
        return st.fixed_dictionaries({"k": st.just("conv"), "fam": st.just(name), "e": st.recursive(leaves, ext, max_leaves=7),
                                      "extra": st.lists(st.sampled_from(SYMS), max_size=2)})
    return st.one_of(tree("int"), tree("int"), tree("rat"), tree("gen"))


SMALL = [
    {"v": [], "t": []}, {"v": [], "t": [[[], 1]]}, {"v": [], "t": [[[], -3]]}, {"v": ["x"], "t": []},
    {"v": ["x"], "t": [[[1], 1]]}, {"v": ["x"], "t": [[[0], 2]]}, {"v": ["y"], "t": [[[1], 1], [[0], -1]]},
    {"v": ["x", "y"], "t": [[[1, 0], 1], [[0, 1], 1]]}, {"v": ["y", "x"], "t": [[[1, 0], 1], [[0, 1], -1]]},
    {"v": ["y", "z"], "t": [[[1, 1], 2], [[0, 0], 1]]}, {"v": ["z", "x", "y"], "t": [[[1, 2, 0], 3], [[0, 0, 2], -1], [[0, 0, 0], 5]]},
    {"v": ["u", "v"], "t": [[[2, 0], 1], [[0, 2], -1]]}, {"v": ["x", "y"], "t": [[[0, 0], 7]]},
]


def expr_version(spec):
    """the same polynomial with Expression coefficients (integer c -> c*a**0, odd ones get an `a`)"""
    return {"v": spec["v"], "t": [[e, [[abs(c) % 2, c, 1]]] for e, c in spec["t"]]}


class C22(HangJudge, Check):
    pid = "C22"
    exe = "driver_poly"
    builds = [("main", ("driver_poly",))]
    rule = ("kind arith: class MIntPoly/MExprPoly; p, q over two ordered variable lists drawn from 5 symbols (equal, "
            "overlapping, nested, disjoint, empty; independent orders), 0-12 terms, exponents 0-6, coefficients small, "
            "multi-limb and explicit zeros (MExprPoly: polynomials in a symbol a): from_dict, add(p,q) add(q,p) sub(both) "
            "sub(p,p) neg mul(both) mul(p,p) pow(n<=4) eval(p) eval(p*q) as_symbolic(p, p*q) diff(p,v) diff(p*q,v) "
            "from_basic(as_symbolic) against monomial-dictionary arithmetic over the union of the variables "
            "(value as {monomial: Fraction}; variable set of the result = the union; exponent vectors of that length; no zero "
            "coefficient, no repeated monomial); kind conv: expression trees over the 5 symbols (+ rationals/a, sqrt and 2^x "
            "generators): from_basic with automatic and explicit generator sets (incl. unused generators) has the value of "
            "the recipe; as_symbolic(from_basic(e)) eq expand(e). Enumerated: all ordered pairs of a small pool for both "
            "classes. A program that gives no answer in 25 s is split; an instruction that twice gives no answer alone is "
            "reported as non-terminating. Non-trivial: two operands whose variable sets are neither equal nor disjoint (both "
            "non-zero); distinct by operands.")
    assumptions = ["Python Fraction dictionary arithmetic is the reference; dumped Expression coefficients are evaluated in Python",
                   "from_dict precondition: distinct variables, exponent vectors of the variables' length (the ops decline otherwise)",
                   "eval is given a value for every variable of the polynomial (the header marks missing values as TODO)",
                   "pow_mpoly(p, 0) does not terminate (known finding; excluded by construction as skip known:pow_exponent_zero_hang while the finding is active)",
                   "MExprPoly may store coefficients that vanish only after expansion; compared by value",
                   "documented exceptions of from_basic decline a case; an exception of an arithmetic op or query is a violation"]
    tiers = {"quick": {"examples": 1400}, "thorough": {"examples": 100000}}
    timeout = 40.0
    case_timeout = 240

    def enumerate(self, tier):
        for tag, text, want in PROBES:
            yield {"k": "probe", "tag": tag, "prog": text, "want": want}
        k = 0
        for cls in ("I", "E"):
            pool = SMALL if cls == "I" else [expr_version(s) for s in SMALL]
            for p in pool:
                for q in pool:
                    yield {"k": "arith", "cls": cls, "p": p, "q": q, "n": k % 4, "env": [2, -1, 3, 0, 5], "dv": SYMS[k % 5]}
                    k += 1

    def strategy(self, tier):
        return st.one_of(arith_case("I"), arith_case("I"), arith_case("E"), conv_case())

    # ------------------------------------------------------------ helpers
    def known(self, tag):
        if tag is not None and self.tag_active(tag):
            self.count()
            self.skip("known:" + tag)
            return True
        return False

    def bad_exc(self, r, what, detail):
        if not is_exc(r):
            return False
        if r["exc"] == "VerifAssertFailure":
            self.skip("assert_seen")
        elif r["exc"] == "Dep":
            self.skip("dep")
        elif r["exc"] == "Decline":
            raise engine.GeneratorDefect("%s declined: %s" % (what, r.get("what")))
        else:
            raise Violation("%s raised %s: %s" % (what, r["exc"], r.get("what")), detail)
        return True

    def expect_poly(self, cls, r, want, wvars, what, detail):
        """want: PP value; wvars: the required variable set (names)"""
        if self.bad_exc(r, what, detail):
            return
        d = B(r)
        detail = dict(detail, got=d, expected=pr.show(want), expected_vars=sorted(wvars))
        if d is None or d[0] != CLASS[cls]:
            raise Violation("%s returned %s, not a %s" % (what, str(r)[:300], CLASS[cls]), detail)
        names = [v[1] if v[0] == "Symbol" else str(v) for v in d[1]]
        if len(set(names)) != len(names) or set(names) != set(wvars):
            raise Violation("%s has the variables %s, expected the set %s" % (what, names, sorted(wvars)), detail)
        monos = [tuple(ent[0]) for ent in d[2]]
        if any(len(m) != len(names) for m in monos):
            raise Violation("%s: exponent vector length differs from the number of variables: %s" % (what, d), detail)
        if len(set(monos)) != len(monos):
            raise Violation("%s stores a monomial twice: %s" % (what, d), detail)
        if any(e < 0 for m in monos for e in m):
            raise Violation("%s has a negative exponent: %s" % (what, d), detail)
        try:
            val = pr.dump_pp(d)
        except Unsupported:
            self.skip("unsupported_coef")
            return
        if val != want:
            raise Violation("%s has the value %s, expected %s" % (what, pr.show(val), pr.show(want)), detail)
        if cls == "I":
            if any(ent[1] == "0" for ent in d[2]):
                raise Violation("%s stores a zero coefficient: %s" % (what, d), detail)
        else:
            try:
                if any(not pr.dump_pp(ent[1]) for ent in d[2]):
                    self.cls("expr_zero_valued_coefficient_stored")
            except Unsupported:
                pass

    def judge(self, case):
        k = case["k"]
        if k == "probe":
            if self.known(case["tag"]):
                return
            self.count()
            res = None
            for _ in range(2):
                try:
                    res = self.run(case["prog"], timeout=10)
                    break
                except DriverTimeout:
                    pass
            if res is None:
                raise Violation("does not terminate (no answer within 10 s, twice; trivial operands, result 1 required): %s"
                                % case["prog"], {"tag": case["tag"]})
            if B(res[-1]) != case["want"]:
                raise Violation("%s returned %s, expected %s" % (case["prog"], res[-1], case["want"]), {"tag": case["tag"]})
            return
        if k == "arith":
            return self.judge_arith(case)
        return self.judge_conv(case)

    def judge_arith(self, case):
        cls = case["cls"]
        ps, qs = case["p"], case["q"]
        P, Q = poly_pp(cls, ps), poly_pp(cls, qs)
        vp, vq = set(ps["v"]), set(qs["v"])
        vu = vp | vq
        det = {"cls": CLASS[cls], "p": ps, "q": qs}
        stm = [ctor(cls, ps), ctor(cls, qs)]
        plan = [(0, "poly", P, vp, "from_dict(p)"), (1, "poly", Q, vq, "from_dict(q)")]

        def ask(recipe, kind, want, wv, what):
            plan.append((len(stm), kind, want, wv, what))
            stm.append(recipe)
            return R(len(stm) - 1)

        p, q = R(0), R(1)
        ask(["add_mpoly", p, q], "poly", pr.add(P, Q), vu, "add_mpoly(p,q)")
        ask(["add_mpoly", q, p], "poly", pr.add(P, Q), vu, "add_mpoly(q,p)")
        ask(["sub_mpoly", p, q], "poly", pr.sub(P, Q), vu, "sub_mpoly(p,q)")
        ask(["sub_mpoly", q, p], "poly", pr.sub(Q, P), vu, "sub_mpoly(q,p)")
        ask(["sub_mpoly", p, p], "poly", {}, vp, "sub_mpoly(p,p)")
        ask(["neg_mpoly", p], "poly", pr.neg(P), vp, "neg_mpoly(p)")
        PQ = pr.mul(P, Q)
        pq = ask(["mul_mpoly", p, q], "poly", PQ, vu, "mul_mpoly(p,q)")
        ask(["mul_mpoly", q, p], "poly", PQ, vu, "mul_mpoly(q,p)")
        ask(["mul_mpoly", p, p], "poly", pr.mul(P, P), vp, "mul_mpoly(p,p)")
        n = case["n"]
        if len(P) ** n > 1500 or pr.bits(P) * n > 3000:
            n = min(n, 2)
        if cls == "E" and len(P) > 3:
            n = min(n, 2)
        if not self.known(K_POW0 if n == 0 else None):
            ask(["pow_mpoly", p, n], "poly", pr.pw(P, n), vp, "pow_mpoly(p,%d)" % n)
        # eval: values for all five symbols (more than needed is allowed)
        envv = dict(zip(SYMS, case["env"]))
        if cls == "E":
            # small rational / symbolic values keep the Expression trees small
            envv = {s: Fraction(v % 7 - 3, 1 + abs(v) % 3) for s, v in envv.items()}
        envpp = {s: pr.const(v) for s, v in envv.items()}
        envarg = ["list"] + [["list", ["symbol", s], (v if cls == "I" else pr.num_recipe(v))] for s, v in envv.items()]
        ask(["mpoly_eval", p, envarg], "val", pr.subst(P, envpp), None, "eval(p)")
        ask(["mpoly_eval", pq, envarg], "val", pr.subst(PQ, envpp), None, "eval(p*q)")
        sp = ask(["mpoly_as_symbolic", p], "expr", P, None, "as_symbolic(p)")
        ask(["mpoly_as_symbolic", pq], "expr", PQ, None, "as_symbolic(p*q)")
        dv = case["dv"]
        ask(["diff", p, ["symbol", dv]], "poly", pr.diff(P, dv), vp, "diff(p,%s)" % dv)
        ask(["sdiff", pq, ["symbol", dv]], "poly", pr.diff(PQ, dv), vu, "sdiff(p*q,%s)" % dv)
        for s in ps["v"][:2]:
            ask(["diff", p, ["symbol", s]], "poly", pr.diff(P, s), vp, "diff(p,%s)" % s)
        gens = ["list"] + [["symbol", s] for s in ps["v"]]
        ask(["mpoly_from_basic_gens", CLASS[cls], sp, gens], "poly", P, vp, "from_basic(as_symbolic(p), vars(p))")
        res = self.run_nominating(stm)
        if res is None:
            return
        for idx, kind, want, wv, what in plan:
            r = res[idx]
            self.count()
            self.cls(cls + ":" + what.split("(")[0])
            d2 = dict(det, op=what)
            if kind == "poly":
                self.expect_poly(cls, r, want, wv, what, d2)
            elif kind == "val":
                if self.bad_exc(r, what, d2):
                    continue
                if cls == "I":
                    w = pr.as_const(want)
                    if r != int(w):
                        raise Violation("%s at %s returned %s, expected %s" % (what, envv, r, int(w)), d2)
                else:
                    self.expect_value(r, want, what, d2)
            elif kind == "expr":
                if self.bad_exc(r, what, d2):
                    continue
                self.expect_value(r, want, what, d2)
        rel = ("equal" if vp == vq else "disjoint" if not (vp & vq) else "nested" if (vp <= vq or vq <= vp) else "overlap")
        if not vp or not vq:
            rel = "empty"
        self.cls("varsets:" + rel)
        if P and Q and rel in ("overlap", "nested"):
            self.nontriv(("arith", cls, str(ps), str(qs)))
        self.sample({"kind": "arith", "cls": CLASS[cls], "p": pr.show(P, 120), "vars_p": ps["v"], "q": pr.show(Q, 120),
                     "vars_q": qs["v"], "relation": rel})

    def expect_value(self, r, want, what, detail):
        try:
            val = pr.dump_pp(B(r))
        except Unsupported:
            self.skip("unsupported_tree")
            return
        if val != want:
            raise Violation("%s has the value %s, expected %s" % (what, pr.show(val), pr.show(want)), dict(detail, got=B(r)))

    def judge_conv(self, case):
        e = case["e"]
        fam = case["fam"]
        try:
            ref = pr.recipe_pp(e)
        except (Unsupported, ZeroDivisionError):
            self.skip("ref_unsupported")
            return
        if pr.bits(ref) > 3000 or len(ref) > 300:
            self.skip("ref_large")
            return
        used = sorted(s for s in pr.atoms(ref) if s in SYMS or s == "a")
        stm = [["let", e], ["expand", R(0)]]
        plan = []
        classes = {"int": "IE", "rat": "EI", "gen": "IE"}[fam]
        for c in classes:
            name = CLASS[c]
            variants = [(["mpoly_from_basic", name, R(0)], "from_basic<%s>(e)" % name, None),
                        (["mpoly_from_basic", name, R(0), True], "from_basic<%s>(e, ex=true)" % name, None)]
            if fam != "gen":
                # explicit generator set: the symbols of the recipe plus unused ones; for MExprPoly also a strict
                # subset (the remaining symbols become coefficients)
                g = sorted(set(self.recipe_syms(e)) | set(case["extra"]))
                variants.append((["mpoly_from_basic_gens", name, R(0), ["list"] + [["symbol", s] for s in g]],
                                 "from_basic<%s>(e, {%s})" % (name, ",".join(g)), set(g)))
                if c == "E" and len(g) > 1:
                    g2 = g[:-1]
                    variants.append((["mpoly_from_basic_gens", name, R(0), ["list"] + [["symbol", s] for s in g2]],
                                     "from_basic<%s>(e, {%s})" % (name, ",".join(g2)), set(g2)))
            for rec, what, gs in variants:
                i = len(stm)
                stm.append(rec)
                stm.append(["mpoly_as_symbolic", R(i)])
                stm.append(["eq", R(i + 1), R(1)])
                stm.append(["eq", ["expand", R(i + 1)], R(1)])
                plan.append((i, c, what, gs))
        res = self.run_nominating(stm)
        if res is None:
            return
        if is_exc(res[1]):
            self.skip("build_declined")
            return
        xdump = B(res[1])
        try:
            if pr.dump_pp(xdump) != ref:
                self.skip("tree_value_differs")   # value of expand(e): C09's business
                return
        except Unsupported:
            self.skip("tree_unsupported")
            return
        det = {"e": e, "expected": pr.show(ref)}
        for i, c, what, gs in plan:
            r = res[i]
            self.count()
            self.cls("conv:%s:%s" % (fam, CLASS[c]))
            if is_exc(r):
                if r["exc"] == "VerifAssertFailure":
                    self.skip("assert_seen")
                elif r["exc"] in ("SymEngineException", "NotImplementedError", "DomainError", "Dep", "DivisionByZeroError"):
                    self.skip("declined:" + r["exc"])
                elif r["exc"] == "Decline":
                    raise engine.GeneratorDefect("%s declined: %s" % (what, r.get("what")))
                else:
                    raise Violation("%s raised %s: %s" % (what, r["exc"], r.get("what")), det)
                continue
            d = B(r)
            if d is None or d[0] != CLASS[c]:
                raise Violation("%s returned %s" % (what, str(r)[:300]), det)
            try:
                got = pr.dump_pp(d)
            except Unsupported:
                self.skip("result_unsupported")
                continue
            d2 = dict(det, got=d)
            if got != ref:
                raise Violation("%s = %s has the value %s, the expression has %s" % (what, d, pr.show(got), pr.show(ref)), d2)
            monos = [tuple(ent[0]) for ent in d[2]]
            if any(len(m) != len(d[1]) for m in monos) or len(set(monos)) != len(monos):
                raise Violation("%s: malformed dictionary %s" % (what, d), d2)
            if gs is not None:
                names = set(v[1] for v in d[1] if v[0] == "Symbol")
                if names != gs or len(d[1]) != len(gs):
                    raise Violation("%s has the variables %s, expected %s" % (what, d[1], sorted(gs)), d2)
            if c == "I" and any(ent[1] == "0" for ent in d[2]):
                raise Violation("%s stores a zero coefficient: %s" % (what, d), d2)
            s, q1, q2 = res[i + 1], res[i + 2], res[i + 3]
            self.count()
            if is_exc(s):
                if s["exc"] == "VerifAssertFailure":
                    self.skip("assert_seen")
                    continue
                raise Violation("as_symbolic(%s) raised %s: %s" % (what, s["exc"], s.get("what")), d2)
            try:
                sv = pr.dump_pp(B(s))
            except Unsupported:
                self.skip("symbolic_unsupported")
                continue
            if sv != ref:
                raise Violation("as_symbolic(%s) = %s has the value %s, expected %s" % (what, B(s), pr.show(sv), pr.show(ref)), d2)
            if any(v[0] == "Pow" and v[1][0] != "Symbol" for v in d[1]):
                self.skip("eq_not_judged_for_exponential_generator")
                continue
            numeric = c == "I" or all(self.is_num(ent[1]) for ent in d[2])
            if q1 is not True and not (q2 is True and not numeric):
                if is_exc(q1) or is_exc(q2):
                    self.skip("eq_declined")
                    continue
                raise Violation("as_symbolic(%s) = %s is not eq to expand(e) = %s" % (what, B(s), xdump), d2)
            if len(d[1]) >= 2:
                self.nontriv(("conv", c, str(e), what))
        self.sample({"kind": "conv", "family": fam, "e": e, "value": pr.show(ref, 160), "symbols": used})

    @staticmethod
    def is_num(d):
        return d[0] in ("Integer", "Rational")

    def recipe_syms(self, r):
        out = set()

        def walk(x):
            if isinstance(x, list) and x:
                if x[0] == "symbol":
                    if x[1] in SYMS:
                        out.add(x[1])
                else:
                    for y in x[1:]:
                        walk(y)
        walk(r)
        return out


if __name__ == "__main__":
    sys.exit(engine.main(C22))
