"""C41 Thread-safe build: shared expressions are race-free (ThreadSanitizer harness drv/thr_main.cpp)."""
import json
import os
import sys

sys.path.insert(0, os.path.join(os.path.dirname(os.path.abspath(__file__)), ".."))
from pbt import engine
from pbt.engine import Check, Violation, Driver, DriverCrash, DriverTimeout, GeneratorDefect
from pbt import threads as th

TSAN_ENV = {"TSAN_OPTIONS": "halt_on_error=1:exitcode=66:history_size=4:second_deadlock_stack=1",
            "TSAN_SYMBOLIZER_PATH": "/usr/bin/llvm-symbolizer-14"}


# sensitivity runs: VERIF_SCRATCH_VARIANTS=tsan takes only the build under test from the tagged scratch
# tree; the positive control then uses the regular tsan0 build of /repo
_TAG = os.environ.get("VERIF_BUILD_TAG", "")
_SCRATCH = [v for v in os.environ.get("VERIF_SCRATCH_VARIANTS", "").split(",") if v] if _TAG else []


def _driver(variant, timeout):
    d = Driver(variant, "thr", timeout, env=TSAN_ENV)
    if _SCRATCH and variant not in _SCRATCH:
        d.path = os.path.join(engine.BUILD, variant, "drv", "thr")
    return d


class Pair:
    """the two harness processes (thread-safe build under test, non-thread-safe control) behind the
    interface the engine expects of `Check.drv`"""

    def __init__(self, timeout):
        self.tsan = _driver("tsan", timeout)
        self.tsan0 = _driver("tsan0", timeout)

    def stop(self):
        self.tsan.stop()
        self.tsan0.stop()

    @property
    def restarts(self):
        return self.tsan.restarts + self.tsan0.restarts


def tsan_signature(stderr):
    lines = stderr.splitlines()
    head = [l.strip() for l in lines if "WARNING: ThreadSanitizer" in l or "ERROR: ThreadSanitizer" in l
            or "ThreadSanitizer: " in l][:1]
    frames = []
    for l in lines:
        if "/repo/symengine/" in l or "/tmp/" in l and "/symengine/" in l:
            f = l.strip().split(" ", 1)[-1]
            f = f.split(" (thr+")[0]
            if f not in frames:
                frames.append(f)
        if len(frames) >= 4:
            break
    return (head[0] if head else "ThreadSanitizer report") + " @ " + " | ".join(frames)


def is_tsan_report(e):
    return e.rc == 66 or "ThreadSanitizer" in (e.stderr or "")


# fixed positive-control programs (also judged on the thread-safe build like every other case)
CONTROLS = [
    # 4 threads: diff / expand / hash on ONE shared expression
    {"control": True,
     "pool": [{"f": "pow", "x": [{"f": "add", "x": [{"s": "x"}, {"f": "sin", "x": [{"s": "y"}]}]}, {"i": 4}]}, {"s": "x"}],
     "threads": [[{"op": "diff", "a": 0, "s": "x"}, {"op": "expand", "a": 0}, {"op": "hash", "a": 0}]] * 4},
    # 6 threads: hash / str / subs / arithmetic over a pool with shared sub-structure
    {"control": True,
     "pool": [{"f": "add", "x": [{"s": "x"}, {"s": "y"}]}, {"f": "mul", "x": [{"ref": 0}, {"f": "exp", "x": [{"ref": 0}]}]},
              {"f": "pow", "x": [{"ref": 1}, {"i": 3}]}],
     "threads": [[{"op": "hash", "a": 2}, {"op": "str", "a": 1}, {"op": "subs", "a": 2, "s": "x", "v": {"i": 3}},
                  {"op": "mul", "a": 1, "b": 2}, {"op": "cmp", "a": 1, "b": 2}]] * 6},
    # 2 threads, one operation each: the smallest program the statement allows
    {"control": True, "pool": [{"f": "add", "x": [{"s": "x"}, {"i": 1}]}, {"s": "y"}],
     "threads": [[{"op": "hash", "a": 0}], [{"op": "hash", "a": 0}]]},
]


class C41(Check):
    pid = "C41"
    variant = "tsan"
    exe = "thr"
    builds = [(v, ("thr",)) for v in ("tsan", "tsan0") if not _SCRATCH or v in _SCRATCH]
    rule = ("A case is (pool program, T per-thread instruction lists), T = 2..8. The pool (2-9 expressions over x,y,z, "
            "small and multi-limb integers, rationals, pi/E/I, + - * / **, elementary functions, undefined functions, "
            "PrimePi/Primorial of a symbol; later elements reference earlier ones, so sub-structure is shared) is built "
            "sequentially without hashing, printing or comparing its elements, so their lazy hash cache is first written in "
            "the concurrent phase. The threads meet at a barrier, copy the pool registers and run 1-12 instructions each "
            "from {hash, cmp, eq, str, diff, subs, expand, add, sub, mul, div, pow} over pool elements and their own "
            "earlier results, with generated yield / spin(10..1e5) perturbations. Build under test: clang "
            "-fsanitize=thread with WITH_SYMENGINE_THREAD_SAFE=yes. Oracle: (a) no ThreadSanitizer report "
            "(halt_on_error, exit code 66); (b) every thread's result strings (raw dumps, strings, integers, exception "
            "classes) equal a sequential re-execution of its list; (c) the pool is unchanged: raw dumps and reference "
            "counts before/after the concurrent phase are equal, and str/hash/eq of every element agree with a pool "
            "rebuilt from scratch. (d) positive control: three fixed programs and the first generated non-trivial "
            "programs of every worker are also run on the same harness built WITHOUT thread safety (variant tsan0); the "
            "fixed ones must all produce a ThreadSanitizer report within 5 attempts, otherwise the run ends as an internal "
            "error (the harness would be blind), never as a violation. Non-trivial: >= 2 threads touch the same pool "
            "element and at least one of them applies a hash-caching or constructing operation to it; distinct by program.")
    assumptions = ["the harness does not own the scheduler: interleavings are explored by ThreadSanitizer's happens-before analysis plus generated yield/spin perturbation; an interleaving-specific logic race that is not a data race can be missed",
                   "ThreadSanitizer (clang 14) reports are trusted; the positive control on the non-thread-safe build shows the harness can see refcount / hash-cache races",
                   "operand sizes are bounded by construction (estimated polynomial degree <= 16, sieve limits <= 7919)"]
    tiers = {"quick": {"examples": 300}, "thorough": {"examples": 20000}}
    timeout = 60.0
    case_timeout = 200
    min_nontrivial = 50
    CONTROL_SAMPLE = 6  # generated non-trivial programs per worker that are also run on tsan0

    def setup_worker(self, tier):
        self.drv = Pair(self.timeout)
        self.ctl_gen = [0, 0]  # sampled, raced

    def sieve_allowed(self):
        if os.environ.get("C41_DEV_TAGS"):
            return "sieve_not_thread_safe" not in os.environ["C41_DEV_TAGS"].split(",")
        return not self.tag_active("sieve_not_thread_safe")

    def strategy(self, tier):
        return th.case_strategy(sieve=self.sieve_allowed())

    def enumerate(self, tier):
        for c in CONTROLS:
            yield c

    # ------------------------------------------------------------------ oracle
    def run_tsan(self, text):
        try:
            return self.drv.tsan.run(text)
        except DriverCrash as e:
            if is_tsan_report(e):
                raise Violation("ThreadSanitizer report in the thread-safe build: " + tsan_signature(e.stderr),
                                {"report": e.stderr[-6000:], "request": text[:4000]})
            raise Violation("harness process died in the thread-safe build (rc=%s): %s" % (e.rc, engine.crash_signature(e.stderr)),
                            {"stderr": e.stderr[-4000:], "request": text[:4000]})

    def control_run(self, text, attempts):
        """-> first lines of the ThreadSanitizer report of the non-thread-safe build, or None"""
        for _ in range(attempts):
            try:
                self.drv.tsan0.run(text)
            except DriverCrash as e:
                if is_tsan_report(e):
                    return tsan_signature(e.stderr)
            except DriverTimeout:
                pass
        return None

    REPEAT_ON_REPLAY = 150

    def oracle(self, r, P, T, text):
        # (b) thread results = sequential re-execution
        for t in range(T):
            if r["thr"][t] != r["seq"][t]:
                k = next((i for i in range(min(len(r["thr"][t]), len(r["seq"][t]))) if r["thr"][t][i] != r["seq"][t][i]), -1)
                raise Violation("thread %d statement %d: concurrent result differs from the sequential re-execution" % (t, k),
                                {"concurrent": r["thr"][t][k] if k >= 0 else r["thr"][t],
                                 "sequential": r["seq"][t][k] if k >= 0 else r["seq"][t], "request": text[:4000]})
        # (c) pool unchanged
        if r["pool0"] != r["pool1"]:
            k = next(i for i in range(P) if r["pool0"][i] != r["pool1"][i])
            raise Violation("pool element %d changed during the concurrent phase" % k,
                            {"before": r["pool0"][k], "after": r["pool1"][k], "request": text[:4000]})
        if r["rc0"] != r["rc1"]:
            raise Violation("reference counts of the pool differ after all threads have finished: %s -> %s" % (r["rc0"], r["rc1"]),
                            {"request": text[:4000]})
        if r["obs"] != r["obs2"] or not all(r["same"]):
            k = next(i for i in range(P) if r["obs"][i] != r["obs2"][i] or not r["same"][i])
            raise Violation("pool element %d: str/hash/eq after the concurrent phase differ from a freshly built pool" % k,
                            {"after": r["obs"][k], "fresh": r["obs2"][k], "eq": r["same"][k], "request": text[:4000]})

    def judge(self, case):
        if self.drv is None:
            self.setup_worker("quick")
        if th.uses_sieve(case) and not self.sieve_allowed():
            # replayed / enumerated case with PrimePi / Primorial nodes while the known finding is active
            self.skip("known:sieve_not_thread_safe")
            return
        text, P, touched = th.compile_case(case)
        hot = th.shared_hot(touched)
        T = len(case["threads"])
        # A schedule-dependent failure (lost update, use after free, wrong result) does not recur on every
        # execution, but the engine confirms a violation by re-judging the case three times.  A case that has
        # failed once is therefore marked "repeat": N (in place - the marked case is what reaches the replay
        # file), and a marked case is executed up to N times; any failing execution is a violation.
        reps = max(1, int(case.get("repeat", 1)))
        r = None
        for attempt in range(reps):
            try:
                r = self.run_tsan(text)
                self.oracle(r, P, T, text)
            except DriverTimeout:
                self.skip("timeout")
                self.timeouts = getattr(self, "timeouts", 0) + 1
                if self.timeouts <= 2:
                    self.slow.append({"timeout_request": text[:3000]})
                return
            except Violation as v:
                if "repeat" not in case:
                    case["repeat"] = self.REPEAT_ON_REPLAY
                if reps > 1:
                    v.msg += " (execution %d of up to %d)" % (attempt + 1, reps)
                raise
        self.count()
        self.cls("threads:%d" % T)
        if th.uses_sieve(case):
            self.cls("pool_has_primepi_or_primorial")
        for lst in case["threads"]:
            for ins in lst:
                self.cls("op:" + ins["op"])
        for t in range(T):
            for x in r["thr"][t]:
                if isinstance(x, dict) and "exc" in x:
                    self.skip("stmt:" + x["exc"])
        if hot:
            self.nontriv(text)
            self.cls("nontrivial")
        # (d) positive control
        if case.get("control"):
            sig = self.control_run(text, 5)
            if sig is None:
                raise GeneratorDefect("positive control failed: the non-thread-safe build (tsan0) produced no "
                                      "ThreadSanitizer report for a fixed control program in 5 attempts: " + text[:300])
            self.cls("positive_control:fixed_program_raced_on_tsan0")
            self.sample({"positive_control": True, "request": text[:600], "tsan0_report": sig[:600]})
        elif hot and self.ctl_gen[0] < self.CONTROL_SAMPLE:
            self.ctl_gen[0] += 1
            sig = self.control_run(text, 1)
            if sig is not None:
                self.ctl_gen[1] += 1
                self.cls("positive_control:generated_program_raced_on_tsan0")
            else:
                self.cls("positive_control:generated_program_clean_on_tsan0")
            if self.ctl_gen[0] == self.CONTROL_SAMPLE and self.ctl_gen[1] == 0:
                raise GeneratorDefect("positive control failed: none of %d generated non-trivial programs raced on tsan0" % self.CONTROL_SAMPLE)
        if self.rng.random() < 0.05:
            self.sample({"request": text[:700], "threads": T, "shared_hot_elements": hot,
                         "first_thread_results": json.dumps(r["thr"][0])[:300]})


if __name__ == "__main__":
    sys.exit(engine.main(C41))
