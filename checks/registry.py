"""Registry of claimed checks -> MANIFEST.json (bin/mkmanifest)."""

# id -> dict(engine, technique, level_text, level_note, design_ref, variants)
CHECKS = {
    "C05": dict(
        engine="hy", technique="property-based testing: exhaustive small table + Hypothesis multi-limb values against a Fraction/Gaussian-rational reference model",
        text="Every binary operation and integer power on exact numbers is compared with an independent exact model and with the unique normalised representation; small universe exhaustively, multi-limb values randomly. Exploration: absence of counterexamples in the explored space, not a proof.",
        note="Trusts Python fractions, the driver's raw dump (public accessors only) and the ASan/UBSan runtime to surface memory errors/UB.",
        variants=["main"]),
    "C07": dict(
        engine="hy", technique="property-based testing: Hypothesis recursive arithmetic recipes + all ordered number-kind pairs; metamorphic value oracle (mpmath at two precisions) comparing the returned tree with the recipe at generated complex points",
        text="Every generated arithmetic recipe is evaluated independently with mpmath (principal branches) at three generic complex points and compared with the value of the tree the library returned; exact trees to 1e-25, float-containing trees to a forward-error-scaled double tolerance. Exploration only.",
        note="Trusts mpmath, the raw dump, and the stated domain guards (non-literal bases on the negative axis, |value| outside 1e+-300 (1e+-100 with floats) are skipped and counted).",
        variants=["main"]),
    "C06": dict(
        engine="hy", technique="property-based testing: exhaustive ordered-pair table over representatives of every number kind x 10 operations + Hypothesis values, judged by a decision table written from the statement (commutativity, nan absorption, oo rules, exactness)",
        text="All 1521 ordered pairs of 39 representative numbers of every kind, for add/sub/mul/div/pow as free functions and as Number methods, are enumerated exhaustively and judged against the extended-number rules of the statement; random values per kind extend the table. Exhaustive over the table, exploration beyond.",
        note="Rules are only those the statement names; conventions outside it (x**0, 1**x, complex factor times oo, float zero times oo) are not judged. Exact 0 times a float returning exact 0 is the library's documented exception.",
        variants=["main"]),
    "C29": dict(
        engine="hy", technique="property-based testing: table of equal / one-ulp-apart values of different kinds + Hypothesis pairs (derived twins), exact-rational comparison oracle, algebraic laws between Lt/Le/Gt/Ge/Eq/Ne and subs instantiation",
        text="Every generated ordered pair of real numbers (Integer, Rational, double, +-oo) is compared exactly in Python (doubles at their exact rational value) and all six relational constructors, their swapped forms and their symbolic forms instantiated by subs are judged against it. Exploration.",
        note="NaN/zoo/complex operands are outside the property. oo versus an infinite double of the same sign is not judged. Known finding KF-C29-02 (comparison through double subtraction) is excluded by a narrow matcher (values within one ulp / outside double range).",
        variants=["main"]),
    "C01": dict(
        engine="hy", technique="property-based testing: generated pools of expressions of every kind plus re-constructions along other API paths and exhaustive small per-class universes; all-pairs oracle eq => equal hash computed in the driver, and hash/ordered container consequences under two insertion orders",
        text="For every ordered pair of each pool (generated members plus commuted / re-associated / round-tripped / near-miss re-constructions, and exhaustively enumerated small universes of intervals, finite sets, set operations, relationals, logic, functions, arithmetic, derivatives and numbers) eq implies equal hashes, and unordered_set / Add dictionary / std::set / std::map built from the pool never hold two eq keys nor lose a member. Exploration.",
        note="eq itself is trusted (only its consistency with hashing is judged). Objects containing NaN doubles are excluded from the container laws. Polynomial and matrix-expression classes join the pools through the per-area checks, not here.",
        variants=["main"]),
    "C02": dict(
        engine="hy", technique="property-based testing: the C01 pools; n x n matrices of __cmp__, eq and RCPBasicKeyLess from the driver, order axioms checked on all pairs and triples with boolean matrix products; ordered containers under two insertion orders",
        text="On every pool: cmp takes values in {-1,0,1}, is zero exactly on eq pairs, antisymmetric and transitive (also across eq), RCPBasicKeyLess is a strict weak order whose equivalence is eq, comparisons never throw, and std::set/std::map iterate identically after different insertion orders. Small per-class universes are enumerated exhaustively, larger ones generated. Exploration.",
        note="Members that contain NaN doubles (not equal to themselves) are excluded from the laws that presuppose reflexivity and counted.",
        variants=["main"]),
    "C04": dict(
        engine="hy", technique="property-based testing (metamorphic): generated multisets of exact operands built in every permutation and every binary bracketing, pairwise and n-ary; all results must be eq with equal hash, str and raw tree",
        text="For each generated multiset of 2-6 exact operands the sum/product/max/min/and/or is constructed in all (n<=4) or 30 sampled permutations, through the n-ary constructor and through every full binary bracketing of the binary one; the driver's all-pairs eq matrix, hashes, printed forms and raw dumps (up to dictionary order) must coincide. Exploration.",
        note="Operands are exact by construction (no floats). Exceptions raised in only some orders are counted, not reported.",
        variants=["main"]),
    "C21": dict(
        engine="hy", technique="property-based testing: generated UIntPoly/URatPoly/UExprPoly operands (zero, constants, sparse/dense, 1-300 bit mixed-sign coefficients, constructed Kronecker-boundary pairs) against schoolbook Fraction-dictionary arithmetic; from_basic/as_symbolic round trip against expand",
        text="Every univariate polynomial operation (add sub neg mul pow divides eval multieval get_coeff get_degree get_lc diff, from_dict/from_vec/from_basic/as_symbolic) on generated and enumerated operands is compared with an independent schoolbook reference; hangs on trivially small inputs are nominated and reported. Exploration.",
        note="Trusts Python Fractions and the raw dump. Expression coefficients are polynomials in one symbol compared by value.",
        variants=["main"]),
    "C22": dict(
        engine="hy", technique="property-based testing: MIntPoly/MExprPoly over generated pairs of variable lists (equal, overlapping, nested, disjoint, empty) against monomial-dictionary arithmetic over the union of variables",
        text="add/sub/neg/mul/pow/eval/diff/as_symbolic/from_basic of multivariate polynomials are compared with a Python monomial-dictionary model; the result must live over the union of the variables with no zero or repeated monomials. Exploration.",
        note="Trusts Python Fractions and the raw dump.",
        variants=["main"]),
    "C23": dict(
        engine="hy", technique="property-based testing: exhaustive pairs over GF(2), GF(3), GF(5) of small degree plus generated polynomials over all primes <= 97; brute-force mod-p list arithmetic and independent irreducibility tests (Rabin, sympy second opinion) as oracle; factorisations validated as multisets",
        text="All GaloisFieldDict operations and the square-free / distinct-degree / equal-degree / full factorisation routines are judged against arithmetic modulo p: exhaustive for tiny fields and degrees, generated (incl. constructed products of known irreducibles with multiplicities) beyond. Exploration; exhaustive on the enumerated boxes.",
        note="Preconditions of ddf/edf are met by construction. Known finding KF-C23-02 (_gf_trace_map) is excluded by construction while listed.",
        variants=["main"]),
    "C24": dict(
        engine="hy", technique="property-based testing: dense matrices constructed per routine precondition (arbitrary, singular, pivot-requiring, L*U, SPD as L*D*L^T, full column rank) over rationals / Gaussian rationals, judged against exact Fraction linear algebra and by reconstruction of factorisations",
        text="Determinants (3 algorithms), inverses (5), solvers (9), LU/LDL/QR/Cholesky/fraction-free factorisations, rref, eliminations, char poly, structural ops and predicates on generated 1-6 x 1-6 exact matrices are compared with an independent exact model; factorisations must multiply back. Exploration.",
        note="Routines are judged only inside their documented precondition; outside it only absence of crashes is required. KF-C24-03 (is_lower/is_upper names swapped, pinned by the suite) is a listed known finding.",
        variants=["main"]),
    "C25": dict(
        engine="hy", technique="property-based testing (model-based, histories): CSR matrices built from arrays / unsorted COO with duplicates and mutated by generated set/get histories, compared after every step with a dense Python model and an independent canonical-format check",
        text="After every step of a generated history the CSR arrays must be canonical (own Python check) and equal the dense model; every CSR operation (transpose, conjugate, elementwise product, binop add/sub/mul, matmat, diagonal, scaling, jacobian, from_coo) must agree with the dense operation. Exploration.",
        note="An is_canonical assertion firing inside a judged operation is a violation of this property.",
        variants=["main"]),
    "C26": dict(
        engine="hy", technique="property-based testing: shape-consistent matrix-expression trees over concrete leaves, every node judged: dense Gaussian-rational evaluation of the returned object versus the recipe, and soundness of size and the 8 structural predicates against the concrete matrix",
        text="Generated and enumerated trees of matrix_add / matrix_mul / hadamard_product / transpose / conjugate / trace over identity, zero, diagonal and dense leaves are evaluated densely in Python on both sides; definite predicate answers must agree with the concrete matrix (indeterminate is always allowed). Exploration.",
        note="Value preservation is judged for symbol-free trees; symbolic dimensions only for size logic.",
        variants=["main"]),
    "C32": dict(
        engine="hy", technique="property-based testing: exhaustive bounded boxes of argument tuples for every listed number-theoretic function against brute-force Python-int definitions, plus generated multi-limb arguments judged by defining identities (CRT over constructed factorisations); sympy consulted as referee on mismatches",
        text="Every function named in the statement is bound and judged: exhaustively on bounded boxes by brute force, and on generated large arguments by the defining identities. Conventions the header leaves open are not judged; probabilistic factor methods only on claims of success. Exhaustive on the boxes, exploration beyond.",
        note="Zero divisors/moduli are outside the functions' domain and declined. Trusts Python ints and, as tie-breaker only, sympy.ntheory.",
        variants=["main"]),
    "C33": dict(
        engine="hy", technique="property-based testing (stateful, model-based): generated histories of generate_primes / iterator creation, next_prime bursts and destruction / clear / set_clear / set_sieve_size with limits placed around cache and segment boundaries, each history one driver program, judged against a plain Python sieve",
        text="Every generate_primes result must be exactly the primes up to the limit in increasing order and every iterator must yield the prime sequence without gaps or repeats and then a value above its limit, after any generated history of the process-global sieve; ASan watches the segment buffer. Exploration.",
        note="The driver resets the sieve at the start of each program; a small Python cache model only chooses interesting limits, the oracle is an independent sieve.",
        variants=["main"]),
    "C38": dict(
        engine="hy", technique="property-based testing: generated grids of 1-8 distinct rational (and symbolic) points, centres and derivative orders; exact moment conditions in Fractions as oracle",
        text="For each generated grid, centre and max order, the returned weights applied to every monomial of degree below the grid size must give exactly the k-th derivative at the centre (Fractions); symbolic grids are evaluated exactly at rational assignments. Exploration.",
        note="The weight-vector layout is read from finitediff.cpp.",
        variants=["main"]),
    "C46": dict(
        engine="hy", technique="property-based testing: exhaustive small integer matrices (1x2, 1x3, 2x3) and generated 1-3 x 2-5 matrices; brute-force Hilbert basis by complete enumeration of a box proven to contain every minimal solution",
        text="homogeneous_lde's result must equal, as a set with each element once, the set of minimal non-zero non-negative solutions found by an independent complete enumeration. Exhaustive on the small classes, exploration beyond.",
        note="The enumeration bound argument is written out in pbt/hilbert.py; systems on which the library needs longer than the driver timeout are skipped as slow.",
        variants=["main"]),
    "C08": dict(
        engine="hy", technique="property-based testing: one constructor call per case with argument generators built to reach the automatic rewrites (pi-multiples with shifts, radical pool for the inverse tables, exact numbers of every kind, doubles, infinities, nested inverse pairs, special-function lattices); value oracle = mpmath's function at the argument values, at generated complex / real points",
        text="Each generated call f(args) of every constructor named in the statement is compared with mpmath's f at the argument values (principal branches, arguments on branch cuts excluded) at three generated points; zoo/nan results are accepted exactly where the reference has a pole. Exploration.",
        note="Five recorded known findings (acot of negatives, the mis-scaled table constant C5, atan2 table quadrant, truncate of n+y, zeta with negative integer a) are excluded by narrow matchers; beta with a non-positive integer argument is not judged (pole ratio convention).",
        variants=["main"]),
    "C12": dict(
        engine="hy", technique="property-based testing: symbol-free trees over every node type eval_double accepts (arguments repaired into each function's domain) plus a function x argument-shape table; 70-digit mpmath reference with a per-rounding-point forward error bound; agreement of the three real evaluators",
        text="eval_double, its single-dispatch and visitor variants, eval_complex_double and evalf at <= 53 bits (real/complex/symbolic) are compared with a 70-digit reference within 64*2^-53 times a first-order error amplification estimated per rounding point; the real evaluators must agree within 4 ulp; every supported node type must be hit or the run fails. Exploration.",
        note="Ill-conditioned trees (amplification > 1e4), branch cuts and kinks are skipped and counted.",
        variants=["main"]),
    "C13": dict(
        engine="hy", technique="property-based testing (stateful): histories of init(cse?)/call on one lambda visitor incl. throwing inits, compared after every step with fresh visitors (same init; opposite CSE flag) and with the mpmath value of every output",
        text="After every step of a generated history the reused visitor must behave exactly like a fresh one given the same init (throws iff fresh throws, bit-equal outputs), CSE on/off must agree, and every output must equal the mpmath value within the C12 tolerance; real and complex visitors. Exploration.",
        note="Outputs share generated sub-expressions so CSE is exercised; input names x0, x1 collide with CSE temporaries on purpose.",
        variants=["main"]),
    "C42": dict(
        engine="hy", technique="property-based testing (model-based programs): generated programs of C API calls on genuine C handles (arguments deliberately include values that make the C++ side throw), each call compared with its C++ counterpart computed in the same driver step; containers against Python list/set/dict models; Expression operators against the core functions",
        text="247 bindings covering 269 cwrapper.h functions: every step must either return SYMENGINE_NO_EXCEPTION with a result whose dump equals the C++ API result, or a non-zero code with all output handles still valid; an exception escaping an extern C function is caught by the binding and reported; vec/set/map containers are model-checked after every mutation; 11 Expression operator bindings agree with the core. Exploration.",
        note="Preconditions guarded only by SYMENGINE_ASSERT (index ranges, handle sorts) are respected by construction. Known findings KF-C42-04 (lambda visitor init has no error channel) and KF-C42-07 (parser boolean downcast) are excluded while listed.",
        variants=["main"]),
    "C27": dict(
        engine="hy", technique="property-based testing: exhaustive ordered pairs of 43 structured set leaves x 6 operations plus generated set expressions of depth <= 4; exact three-valued membership model (Fractions) probed at 30-48 critical points per node; sup/inf/boundary/interior/closure against the model",
        text="For every node of every generated or enumerated set expression (intervals of all open/closed shapes, finite sets, the number sets, empty/universal, ConditionSet/ImageSet leaves) the membership of each probe point read from the returned object, and every definite contains() answer, must equal the boolean combination of the operands' exact memberships; topological functions are compared with the exact model. Exhaustive on the pair table, exploration beyond.",
        note="Membership of +-oo and of doubles in Rationals/Integers is not judged. KF-C27-12 (ImageSet::set_complement swapped, pinned by test_sets) is a listed known finding.",
        variants=["main"]),
    "C28": dict(
        engine="hy", technique="property-based testing: generated boolean formulas of depth <= 5 over relational and membership atoms plus an exhaustive literal table; exact truth-table oracle over assignments at the atoms' critical points; piecewise branch selection",
        text="The truth value of the recipe (computed in Python with exact rationals) must equal the truth value of the returned formula's dump and of every definite result.subs(assignment) on up to 64 assignments that realise every sign pattern of the atoms; Piecewise must select the branch of the first true condition. Exploration.",
        note="Assignments are real rationals; assignments where no Piecewise branch matches are skipped.",
        variants=["main"]),
    "C09": dict(
        engine="hy", technique="property-based testing: generated sum/product/integer-power trees; value oracle (mpmath at generated complex points), structural completeness walk over the raw dump, idempotence, and an independent Fraction polynomial model deciding identity on the polynomial fragment (plus commuted and perturbed variants)",
        text="For each generated expression: expand preserves the value at three generic complex points, the result holds no product or positive integer power of a sum outside function arguments, expanding twice is eq to expanding once, deep=false preserves the value, and on polynomials the result encodes exactly the reference monomial dictionary, with equal polynomials expanding to eq results and unequal ones to non-eq results. Exploration.",
        note="Rational powers of sums are outside the statement's domain and not generated. KF-C09-01 (non-idempotence on sums to powers <= -2 created during expansion) is a listed known finding with a narrow matcher.",
        variants=["main"]),
    "C11": dict(
        engine="hy", technique="property-based testing: generated expressions and simultaneous symbol substitution maps (numbers, symbols incl. swaps, expressions mentioning other keys); metamorphic value oracle value(subs(e,m), env) == value(e, env[k -> value(m[k], env)]) for subs/xreplace/msubs/ssubs with cache on and off, plus eq laws",
        text="For each generated (e, map): all four substitution entry points with both cache settings must return a tree whose value at three generic complex points equals the value of e in the environment where every key is rebound to the value of its image; cached and uncached results must be eq; substituting an absent symbol and the identity map must return an eq expression. Exploration.",
        note="Keys are symbols (the only keys for which the statement's value semantics is unambiguous); derivative-free expressions. A zoo/nan result is accepted exactly where the reference has a pole.",
        variants=["main"]),
    "C16": dict(
        engine="hy", technique="property-based testing: generated expressions of the parseable fragment plus a table; round trip parse(str(e)) == e (floats: str stable) and metamorphic 'eq variants print identically' (commuted / regrouped / rewritten constructions)",
        text="For every generated or tabulated expression of the fragment the parser's name tables and the printer share, parse(str(e)) must be eq to e (with doubles: str(parse(str e)) == str e), and constructions of the same value along different paths that the library reports eq must print to the same string. Exploration.",
        note="Functions whose printed name the parser does not know (kroneckerdelta, levicivita, truncate, conjugate) are outside the statement. KF-C16-02 (power of a reciprocal kept unevaluated by Mul::power_num) is a listed known finding.",
        variants=["main"]),
    "C17": dict(
        engine="hy", technique="property-based testing: reference grammar (own AST -> string printer with random whitespace, redundant parentheses, sign chains, both power operators, implicit multiplication, leading zeros, every float spelling, every name table) against direct construction of the AST through the API",
        text="parse(s) must be eq to the expression built directly from the generating syntax tree under conventional precedence and associativity; integer literals are base 10, a lone float literal equals Python's float bit for bit, all-integer trees equal their Fraction value; every name of every parser table is exercised. Exploration.",
        note="Spellings on which conventions disagree (implicit multiplication right of / or **, 1.e3, chained relationals) are not generated.",
        variants=["main"]),
    "C44": dict(
        engine="hy", technique="property-based testing: generated expressions of every class the printers visit and deep towers; validity predicates per printer (XML well-formedness, LaTeX group/delimiter nesting, rectangular Unicode boxes, balanced Julia parentheses) and the parse_sbml(sbml(e)) round trip on the SBML fragment",
        text="LaTeX, MathML, Unicode, Julia and SBML printers must return or throw a library exception on every generated expression; MathML must parse as XML, LaTeX groups and \\left/\\right pairs must nest, Unicode rows must have equal width, and parse_sbml(sbml(e)) must be eq to e inside the SBML fragment. Exploration.",
        note="Well-formedness is judged only for names the printers can emit verbatim. KF-C44-04 (latex(FiniteSet) emits bare braces after \\left, pinned by test_printing) and KF-C44-07 are listed known findings.",
        variants=["main"]),
    "C10": dict(
        engine="hy", technique="property-based testing: a table of every differentiation rule at fixed points in all four quadrants plus generated trees (incl. undefined functions bound to analytic stand-ins, non-holomorphic nodes at real points); oracle = high-precision numerical derivative of the recipe (mpmath.diff at two precisions), plus exact-zero, cache-independence and mixed-partials laws",
        text="First and second derivatives returned by diff/sdiff are evaluated (Derivative/Subs nodes through numerical differentiation of stand-in functions, which decides the chain rule) and compared with a numerical derivative of the original recipe at complex or real points; diff by an absent symbol must be exactly 0, cached and uncached results eq, mixed partials equal in value. Exploration; the rule table is covered on every run.",
        note="Reference derivatives are accepted only when two precisions agree to 1e-14; tolerance 1e-9. KF-C10-01 (acosh rule wrong for Re u < 0, pinned by the suite) is a listed known finding.",
        variants=["main"]),
    "C36": dict(
        engine="hy", technique="property-based testing: generated arithmetic/trigonometric/hyperbolic expressions; metamorphic value oracle for as_numer_denom (n/d), as_real_imag (re + I*im, realness of both parts), rewrite_as_exp/sin/cos, expand_as_exp, trig_to_sqrt and conjugate at generated positive-real or complex points, plus the structural 'no negative exponent on the top level' rule",
        text="Each transformation's result is evaluated with mpmath at three generated points and compared with the value of the original recipe (conjugate: with its complex conjugate); numerator and denominator must not keep a negative numeric exponent on their top level; re and im must be real-valued at positive real symbol values. Exploration.",
        note="KF-C36-01 (as_real_imag of a negative base to a non-integer power) and KF-C36-02 (imaginary part of cot, pinned by the suite) are listed known findings with narrow matchers.",
        variants=["main"]),
    "C39": dict(
        engine="hy", technique="property-based testing: generated expressions of every kind incl. Derivative/Subs objects; independent tree walk over the raw dump as oracle for free_symbols / has_symbol / function_symbols / atoms<Symbol|FunctionSymbol>; polynomial reconstruction law for coeff",
        text="free_symbols must equal the symbols occurring outside Subs-bound positions of the dumped tree, has_symbol must agree with it for every pool symbol, function_symbols and atoms must return exactly the matching sub-trees, and for generated polynomials in x with symbolic coefficients the coefficients returned by coeff must equal the constructed ones and reconstruct expand(p). Exploration.",
        note="ConditionSet/ImageSet binders are not judged; atoms<Pow/Add/Mul> operate on the materialised get_args view and are not compared with the raw dump. KF-C39-01 (has_symbol sees Subs-bound variables) is a listed known finding.",
        variants=["main"]),
    "C37": dict(
        engine="hy", technique="property-based testing: generated expression lists built from shared parts (common sub-sums/sub-products, related powers, functions; symbols x0..x2 and user functions named like cse's markers); oracle = the statement's back-substitution law with the library's xreplace, freshness/ordering invariants of the replacement list, and an independent value comparison threading the replacements through the environment",
        text="For every generated list: reduced_exprs has the input length; replacement symbols are fresh, distinct Symbols; replacement i mentions only input symbols and earlier replacements; substituting back last-to-first gives expressions eq to the inputs (or eq after expansion when the input held a non-distributed -1*(sum)); and the reduced expressions evaluated with the replacements bound in order have the input's value at two complex points. Exploration.",
        note="KF-C37-01 (user functions named add/mul/pow are rebuilt as Add/Mul/Pow) is a listed known finding.",
        variants=["main"]),
    "C14": dict(
        engine="hy", technique="property-based testing (stateful): histories of init/call on LLVM visitors of all three float types over the full LLVMVisitor node list; every output against the mpmath value (tolerance scaled to the type's epsilon), agreement across optimisation levels 0-3 and symbolic CSE on/off, bit-identical dumps/loads round trip, re-used visitor versus fresh visitor",
        text="For each generated history and each of double/float/long double: every output of the compiled function must equal the mpmath value within 64*eps(type) times a first-order error amplification; four (cse, opt_level) configurations are compiled per step and must agree to 8 ulp; a function saved with dumps and reloaded must be bit-identical; a re-used visitor must behave like a fresh one. Exploration; a coverage gate requires every node type x float type.",
        note="Runs in the opt build (g++ -O1, LLVM 14, MPFR, MPC through a declaration-only header shim).",
        variants=["opt"]),
    "C45": dict(
        engine="hy", technique="property-based testing: symbol-free trees over every node type of eval_mpfr / eval_mpc at 54-2000 bits against mpmath at bits+64; single arithmetic operations on RealMPFR/ComplexMPC numbers against exact Fraction / Gaussian-rational arithmetic with an own round-to-nearest-even (correct rounding at the maximum operand precision)",
        text="eval_mpfr (all rounding modes), eval_mpc and evalf above 53 bits must be within 64*2^-bits times the error amplification of the reference and carry the requested precision; add/sub/mul/div/pow on two arbitrary-precision operands must be the correctly rounded exact result per component, mixed exact/double operands within 1 ulp plus the conversion effect. Exploration.",
        note="Runs in the opt build; the MPC half depends on the header shim, whose declarations are validated by the repository's own MPC tests and by last-bit comparison with Python.",
        variants=["opt"]),
    "C34": dict(
        engine="hy", technique="property-based testing: witness-first assumption sets (a value of a known class is chosen per symbol, then statements true of it), all 17 tribool queries with and without assumptions, soundness oracle evaluated exactly in Q(i) or with mpmath at satisfying assignments; syntactic reference for is_polynomial",
        text="Whenever a query returns a definite answer, every sampled satisfying assignment must give the expression that property (decided exactly where the value lies in Q(i), numerically with a 1e-20 margin otherwise; irrational/algebraic/transcendental only from classes known by construction); indeterminate is always accepted. Exploration.",
        note="KF-C34-02 (is_real(I*x) false although x = 0 is allowed, pinned by the suite) is a listed known finding.",
        variants=["main"]),
    "C35": dict(
        engine="hy", technique="property-based testing: generated expressions with abs/sign/floor/ceiling/conjugate/max/min, nested powers, logs and reciprocal trig under witness-first assumption sets; metamorphic value oracle refine(e, A) == e == simplify(e, A) at satisfying assignments (and without assumptions at unconstrained complex points)",
        text="refine and simplify, with and without assumptions, must return a tree whose value equals the value of e at every sampled assignment satisfying the assumptions (exactly at integer points of discontinuous functions, numerically 1e-6 away from jumps otherwise). Exploration.",
        note="KF-C35-03 ((x**-1)**b -> x**(-b) through pow(), same family as KF-C16-02) is a listed known finding.",
        variants=["main"]),
    "C30": dict(
        engine="hy", technique="property-based testing: polynomials of degree 0-4 built from chosen roots (rational, quadratic irrational, complex pairs, repeated, zero) and random coefficients in several input forms, rational equations with common factors, linear trigonometric equations, domains UniversalSet/Reals/Interval, and constructed non-singular linear systems; oracle = exact polynomial model (Sturm counts, reference roots) and 80-digit evaluation of the returned set interpreted semantically",
        text="Every explicit member of the returned set must be a root (residual <= 1e-40 scale), inside the domain and not a pole; every reference root inside the domain must be a member (sets such as Intersection(Reals, FiniteSet) or ImageSet over the integers are interpreted, not declined); linsolve results must satisfy A x = b exactly. Exploration.",
        note="ConditionSet answers and exceptions count as declined. KF-C30-03 (solve_trig through atan2's quadrant TODO) and KF-C30-04 (structural pole removal) are listed known findings.",
        variants=["main"]),
    "C31": dict(
        engine="hy", technique="property-based testing: compositions (depth <= 3) of the series module's functions applied to polynomials, made analytic at 0 by construction; oracle = exact Fraction power-series recurrences (mpmath at 50/90 digits when constants occur), cross-checked per case against mpmath.taylor and a point evaluation",
        text="The coefficients of degree < n returned by series(f, x, n) through get_coeff, as_dict and as_basic must equal the Taylor coefficients computed by an independent power-series model of the recipe; cases on which the check's own two references disagree are counted and not judged. Exploration.",
        note="KF-C31-01 (intermediate truncation before division by x**k loses the top coefficients of removable quotients) is a listed known finding; while active only the coefficients a model of the truncation proves safe are judged.",
        variants=["main"]),
    "C03": dict(
        engine="hy", technique="property-based testing: generated API programs (one expression of the broad grammar followed by 27 public transformations) in the assertion build whose asserts throw an attributable exception; oracle (a) no assertion fires, (b) an independent Python re-statement of the canonical-form rules holds on every node of every returned tree",
        text="Every instruction of every generated program must neither trip a SYMENGINE_ASSERT (is_canonical and friends, turned into catchable VerifAssertFailure exceptions by the verification hook) nor return a tree violating the transcribed canonical-form rules for Rational, Complex, Add, Mul, Pow and the container classes. Exploration.",
        note="Assertion sites already recorded (4, one known finding each, matched by file:line) are excluded; any other site or structural violation is reported. The generator covers the core expression API; matrices, polynomials and solvers are exercised by their own checks, which count assertion failures as assert_seen.",
        variants=["main"]),
    "C40": dict(
        engine="hy", technique="property-based testing / sanitizer-backed: generated API programs (1-3 expressions of the broad grammar, 31 operations each, pairwise combinations), each executed in its own AddressSanitizer + UndefinedBehaviorSanitizer + LeakSanitizer process; oracle = normal exit, no sanitizer report, no leak after all registers are dropped",
        text="Every generated program must run to completion without an out-of-bounds access, use-after-free, undefined behaviour or a LeakSanitizer report at exit (every expression freed once its last reference is dropped); library exceptions are normal outcomes. Exploration.",
        note="Process-per-program keeps failures attributable (the replay is the program). Uninitialised reads are not observable (no MSan-instrumented libstdc++). The per-area checks (polynomials, matrices, sets, C API, ...) run under the same sanitizers and report memory errors in their own areas.",
        variants=["main"]),
    "C15": dict(
        engine="hy", technique="property-based testing (differential against a real C compiler): generated expressions over all 59 node types the C printers accept, emitted by ccode (double and float), c89code and c99code, compiled in batches with gcc and executed on generated inputs; oracle = mpmath value of the expression with a forward-error-scaled tolerance; non-compiling batches are bisected",
        text="Every emitted C expression, wrapped as double f_k(double x, ...), compiled with gcc -O0 -std=gnu99 and run at four input vectors, must reproduce the mpmath value of the expression within 64*u*amplification (u = 2^-53 or 2^-24); code that gcc rejects although it only uses bound symbols and <math.h> is a violation. Exploration with a coverage gate over the 59 node types.",
        note="KF-C15-01 (bare integer literals give C integer arithmetic, pinned by test_ccode) is a listed known finding excluded by a type inference over the tree.",
        variants=["main"]),
    "C18": dict(
        engine="fz", technique="coverage-guided fuzzing (libFuzzer, ASan+UBSan) of parse / parse with xor conversion / parse_sbml in single-string and history mode, with the oracle inside the target (clean return or std::exception; long-lived parser == fresh parser; print/re-parse), followed by Hypothesis-generated histories of valid/truncated/damaged strings through one parser object compared with a fresh parser per string",
        text="Every generated byte string given to parse, parse(convert_xor) or parse_sbml either returns or throws a std::exception under ASan+UBSan (crash-/leak- artifacts are violations, replayed 3x); for every history of up to 8 strings through one Parser/SbmlParser object each result equals (eq and str, or both throw) what a fresh parser gives for that string alone. Exploration bounded by run counts; committed corpus of 754 units plus an empty-corpus worker.",
        note="timeout-/oom-/slow-unit artifacts and GMP allocation aborts (2**10**12 style inputs) are resource noise, never violations. KF-C18-01/02/03 are fixed in /repo and replayed as regressions.",
        variants=["fuzz", "main"]),
    "C19": dict(
        engine="hy", technique="property-based testing (round trip): typed grammar over all 88 serialisable classes with shared sub-objects and 22 special double bit patterns; oracle = eq, raw tree equality, identical multiset of double bit patterns, restored sharing (no value class has more distinct objects after loading), stable second round trip, unchanged hash",
        text="For every generated object of a class with a save/load overload: dumps and loads do not throw; loads(dumps(e)) == e (NaN-holding objects compared by tree), the raw trees are equal, every stored double keeps its bit pattern, sharing is restored, a second round trip gives the same tree and hash; DenseMatrix through its own dumps/loads. A deterministic class tour visits all 88 classes in every run. Exploration.",
        note="classes without serialisation support (12) are counted, not judged. The ASan quarantine is switched off for this driver so that address reuse (what _keep_alive guards against) can occur. KF-C19-01 fixed in /repo.",
        variants=["main"]),
    "C20": dict(
        engine="fz", technique="coverage-guided fuzzing (libFuzzer, ASan+UBSan) of Basic::loads: raw bytes, and structure-aware units = a generated object program over every serialisable class, dumped and then edited (type code, sharing reference, first_seen byte, counts, integer strings, truncation, duplication, byte flips); oracle inside the target: loads throws a std::exception or returns an object on which str, hash, eq, compare, free_symbols, dumps/loads, evalf, diff and subs run without sanitizer report",
        text="Every generated byte string given to Basic::loads either throws a std::exception or returns an object that survives the post-load API battery under ASan+UBSan; crash-/leak- artifacts are violations (replayed 3x in fresh processes). Exploration bounded by run counts; committed corpus of 320 dumps + 24 program units plus an empty-corpus worker.",
        note="allocation above 256 KiB per request throws bad_alloc in the target (release builds throw where ASan would abort), GMP requests above 256 MiB and trees above 4000 nodes are resource noise. KF-C20-01/02 fixed in /repo and replayed as regressions.",
        variants=["fuzz"]),
    "C41": dict(
        engine="tsan", technique="property-based testing of generated concurrent programs under ThreadSanitizer: Hypothesis generates a shared expression pool and 2-8 per-thread instruction lists with yield/spin perturbations; oracle = no ThreadSanitizer report, every thread's results equal a sequential re-execution, pool unchanged (dumps, reference counts, str/hash/eq against a rebuilt pool); positive control on the same harness built without thread safety must produce reports",
        text="For every generated program (pool of 2-9 shared expressions whose lazy hash is first computed concurrently; 2-8 threads running 1-12 operations from hash/compare/eq/str/diff/subs/expand/arithmetic after a barrier) on the WITH_SYMENGINE_THREAD_SAFE=yes build under -fsanitize=thread: no data-race report, per-thread results identical to sequential execution, pool and reference counts unchanged. Weak exploration: the harness does not own the scheduler.",
        note="interleaving coverage comes from ThreadSanitizer's happens-before analysis plus generated perturbation, not from schedule enumeration (DESIGN.md section 7); the positive control (variant tsan0) makes a blind harness an internal error, never a pass. KF-C41-01 (global prime table) fixed in /repo.",
        variants=["tsan", "tsan0"]),
    "C43": dict(
        engine="hy", technique="property-based differential testing across integer backends: the same generated program of exact computations (division family, gcd/gcdext/inverse, Legendre/Jacobi/Kronecker, roots, perfect powers, primality, combinatorial numbers, rationals, powers and radicals, expand, UIntPoly/URatPoly, trig at rational multiples of pi, big literal parsing/printing; operands at limb boundaries up to 2^400) is executed by three drivers built with INTEGER_CLASS gmp, gmpxx and boostmp and compared statement by statement",
        text="For every generated program the three builds (gmp = variant main, gmpxx, boostmp) give identical answers per statement: raw dumps with hash-ordered dictionaries sorted, integers, strings, booleans, exception class. Randomised routines are excluded; FLINT/Piranha are not installed and not compared. Exploration.",
        note="judges agreement of the builds, not correctness of the common answer (C05/C32/C21 judge that on gmp); probab_prime_p compared as zero/non-zero. KF-C43-01/02/03 (boostmp gcdext(0,0), kronecker(a,0), probab_prime_p(n<0)) fixed in /repo.",
        variants=["main", "gmpxx", "boostmp"]),
}

NOT_APPLICABLE = {}

NOT_YET = {}
