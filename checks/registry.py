"""Registry of claimed checks -> MANIFEST.json (bin/mkmanifest)."""

# id -> dict(engine, technique, level_text, level_note, design_ref, variants)
CHECKS = {
    "C05": dict(
        engine="hy", technique="property-based testing: exhaustive small table + Hypothesis multi-limb values against a Fraction/Gaussian-rational reference model",
        text="Every binary operation and integer power on exact numbers is compared with an independent exact model and with the unique normalised representation; small universe exhaustively, multi-limb values randomly. Exploration: absence of counterexamples in the explored space, not a proof.",
        note="Trusts Python fractions, the driver's raw dump (public accessors only) and the ASan/UBSan runtime to surface memory errors/UB.",
        variants=["main"]),
}

NOT_APPLICABLE = {}

NOT_YET = {}
